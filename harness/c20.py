"""C20 — numeric helpers of odc/geo/math.py meet their documented contracts."""
from __future__ import annotations

import math
import re
from fractions import Fraction as F

import numpy as np

from .common import Run, bool_s, frac_s, guarded, list_s, opt_s, run_driver

META = {
    "claimed": True,
    "text": "Lean 4 theorems over exact rationals about a hand model of odc.geo.math: split_float (sum, "
    "fraction in [-1/2,1/2], integral whole part), maybe_int/is_almost_int agree with each other and with "
    "'some integer is closer than tol', snap_scale (within tolerance, 1/<int> branch, idempotent, never "
    "divides by a snapped zero), power-of-two alignment (least / greatest), one-axis grid snapping "
    "(cover up to tol, minimal, aligned to the anchor fraction, exact origin when not snapping, n>=1, both "
    "signs of the resolution), snap_affine (within tolerances, idempotent, rotated input untouched), "
    "decompose_rws step by step with the two Cholesky roots as witnesses (R*W*S=A, R proper rotation, W unit "
    "upper shear, S diagonal; also over any ordered field in closed form), resolution_from_affine, least "
    "squares: any minimiser of an exactly affine / exactly representable correspondence reproduces it (unique "
    "for >=3 non-collinear points), Poly2d evaluation composes with an input transform and with the output "
    "de-normalisation, axis labels -> affine round trip, Bin1D bin<->interval and from_sample_bin.  Growth round "
    "(Model/C20Glue.lean, Props/C20Glue.lean, Lemmas/C20f.lean): the model's executable least-squares instance (normal "
    "equations by Cramer's rule) is PROVED to be a least-squares minimiser for any data, so affine_from_pts as the driver "
    "runs it reproduces exact mappings with no hypothesis on the solver; Poly2d construction (exactly the (3,3,2)/(2,2,2) "
    "tables), every call form of Poly2d.__call__ (scalars, equal arrays, Nx2 = columns transposed, scalar-vs-array accepted "
    "only by the rotated branch, unequal arrays ValueError / TypeError by branch), with_input_transform through the array "
    "form, Bin1D.__eq__ (== iff same intervals for every index), apply_affine (pointwise, any array shape, size mismatch "
    "rejected), stack_xy/unstack_xy round trip, decompose_rws on ndarrays (Affine variant = ndarray variant on the linear "
    "part; non-2x2 rejected), maybe_zero and clamp contracts.  The "
    "Second increment: nan / +-inf as ANY argument of maybe_int, snap_scale, snap_grid, is_affine_st, snap_affine and the "
    "resolution branch of from_bbox (Model/C20NonFinite.lean: IEEE arithmetic on finite|inf|nan, Python's floor/ceil "
    "OverflowError / ValueError, ZeroDivisionError) -- proved: on finite arguments the extended model IS the finite one, a "
    "non-finite interval end / region coordinate is always rejected, a non-finite scale passes through snap_scale "
    "unchanged, a nan rotation term is silently zeroed by snap_affine (observation, replayed) while an infinite one leaves "
    "the matrix untouched; solvability of the normal equations (Gram determinant > 0 for three non-collinear sources, "
    "Cauchy-Binet by rank-one updates) so affine_from_pts_normal_exact_total needs no hypothesis about the solver at all; "
    "edge_index with the loop-variable semantics of the code (walks the boundary exactly once for sides >= 2, equals C03's "
    "closed form there; degenerate shapes proved as found) and quasi_random_r2 (points in [0,1)^2 for every sign-preserving "
    "rounding, inside the shape when scaled; bit-exact correspondence with binary64 products).  The "
    "Third increment: norm_xy as an executable model (every float operation a rounding step; in exact arithmetic it is the "
    "field-generic model the norm_xy theorems are about) compared with the code in binary64; Poly2d.__call__ on arrays of any "
    "rank (equal shapes pointwise; P(X) for X of shape (*s, 2) returns shape (*reversed(s), 2) -- the axis reversal beyond "
    "Nx2 is pinned as found).  Float pipelines whose operation order is internal (norm_xy, quasi_random_r2) are compared "
    "with a tolerance: bit-identical today, an ulp-level difference is counted, only a real difference fails.  The "
    "model is tied to /repo on every run by an exact differential correspondence (all doubles for the "
    "split/int helpers, quotient-constructed dyadic operands elsewhere, exhaustive at tolerance edges; every public call "
    "form and rejected argument shape of the glue) and an independent Fraction oracle on arbitrary doubles; fits are also "
    "driven with sources and targets typed int / float32 / float64 / numpy ints (whole lists and mixed) through "
    "affine_from_pts, Poly2d.fit and GCPMapping.approx / .p2w.",
    "note": "Trusted: Lean kernel + {propext, Classical.choice, Quot.sound}; IEEE rounding is not modelled "
    "(theorems are over exact rationals, doubles are sampled); float log2 is modelled by its exact value "
    "(inputs < 2^48 in the harness); LAPACK lstsq/cholesky/inv are parameters (the executable instance of lstsq is now "
    "proved to be a minimiser; real results are compared after "
    "rounding to 2^-20 on dyadic inputs and by residual otherwise); sqrt enters only as a witness; norm_xy "
    "(sqrt, mean) has a field-generic model with theorems but no driver op, its contract (mean 0, mean distance sqrt 2, "
    "finite) is checked by the oracle.  "
    "The model follows /repo after two repairs found by this check: Poly2d ignored off-diagonal input-transform "
    "terms below an absolute 1e-6 (e4d32c2) and norm_xy broke Poly2d.fit for point sets containing their "
    "centroid (1cb55fb); replays of both are in corpus/C20.  The strict 'minimal' bound of snap_grid excludes "
    "the zero-width interval with tol = 0 (equality there, proved and exercised).  Comparisons of internal steps (the "
    "private helpers _snap_edge_pos / _snap_edge, the design rows handed to LAPACK as multisets) are soft or skipped with "
    "a note when the interception point is gone; only observable behaviour decides.",
    "inventory_not_modelled": "odc/geo/math.py parts without a Lean mirror in Model/C20*: quasi_random_r2 beyond 2^24 indices "
    "(float32 arange collapses; observation), norm_xy's sqrt values are witnesses; the mean distance follows numpy's summation scheme for up to 128 points (sequential below 8, one pairwise block of eight accumulators up to 128; beyond 128 points numpy recurses and the model's domain ends), "
    "Poly2d.fit end to end (dispatch, design rows, de-normalisation, cost and the fit theorems are modelled; LAPACK lstsq is a "
    "parameter), Poly2d.__call__ broadcasting of differently shaped N-d arrays (equal shapes, scalars and 1-d broadcasting are modelled), overflow of finite arithmetic to inf, signed zeros, "
    "non-finite inputs of decompose_rws / affine_from_axis / Bin1D / Poly2d, get_scale_at_point (oracle only).",
    "technique": "Lean 4 proof over hand model + exhaustive/random differential correspondence with real code",
    "design_ref": "DESIGN.md §4 C20",
}

TOL6 = F(1e-6)
TOL2 = F(0.01)
TOL3 = F(1e-3)
TOL8 = F(1e-8)
TOL10 = F(1e-10)


def _import():
    from affine import Affine
    from odc.geo import math as M

    return M, Affine


def isx(fr: F) -> bool:
    """exactly representable as a double"""
    try:
        return F(float(fr)) == fr
    except OverflowError:
        return False


def xf_s(v) -> str:
    if isinstance(v, (int, F)):
        return frac_s(v)
    v = float(v)
    if math.isnan(v):
        return "nan"
    if math.isinf(v):
        return "inf" if v > 0 else "-inf"
    return frac_s(v)


def aff_s(A) -> str:
    return ";".join(frac_s(float(v)) for v in tuple(A)[:6])


def aff_in(vals) -> str:
    return ";".join(frac_s(v) for v in vals)


def nearest_int_dist(x: F) -> F:
    fl = x.numerator // x.denominator
    return min(x - fl, fl + 1 - x)


def rnd_double(rng) -> float:
    """a finite double with random magnitude, biased towards near-integers and half-way points"""
    r = rng.random()
    if r < 0.25:
        return rng.choice([-1, 1]) * rng.random() * 10.0 ** rng.randint(-8, 17)
    if r < 0.5:
        n = rng.randint(-10**rng.randint(0, 9), 10**rng.randint(0, 9))
        return n + rng.choice([-1, 1]) * rng.choice([1e-6, 1e-3, 0.01, 1e-8, 0.5]) * rng.choice(
            [0, 0.5, 0.999999, 1.0, 1.000001, 2.0])
    if r < 0.75:
        return rng.randint(-4000, 4000) / rng.choice([2, 4, 8, 64, 1024])
    return rng.uniform(-5, 5)



# ------------------------------------------------------------------ exact re-computations (independent of the Lean model)
def ref_trunc(x: F) -> int:
    return x.numerator // x.denominator if x >= 0 else -((-x.numerator) // x.denominator)


def ref_split(x: F):
    p = x - ref_trunc(x)
    w = x - p
    if p > F(1, 2):
        return w + 1, p - 1
    if p < F(-1, 2):
        return w - 1, p + 1
    return w, p


def ref_maybe_int(x: F, tol: F):
    """None = passed through, else the int"""
    w, p = ref_split(x)
    return int(w) if abs(p) < tol else None


def ref_snap_scale(s: F, tol: F):
    """('s',) unchanged | ('int', k) | ('inv', k) | ('err',)"""
    if abs(s) >= 1 - tol:
        k = ref_maybe_int(s, tol)
        return ("s",) if k is None else ("int", k)
    if abs(s) < tol:
        return ("s",)
    if s == 0:
        return ("err",)
    k = ref_maybe_int(1 / s, tol)
    if k is None:
        return ("s",)
    return ("err",) if k == 0 else ("inv", k)


def _floor(x: F) -> int:
    return x.numerator // x.denominator


def _ceil(x: F) -> int:
    return -((-x.numerator) // x.denominator)


def ref_snap_grid(x0: F, x1: F, res: F, off, tol: F):
    """(tx, nx) in exact arithmetic, or 'ERR' where the code raises"""
    def mi(u):
        k = ref_maybe_int(u, tol)
        return u if k is None else F(k)

    if off is None:
        if res == 0:
            return "ERR"
        r = abs(res)
        nx = max(1, _ceil(mi((x1 - x0) / r)))
        return (x0 if res > 0 else x1), nx
    if not 0 <= off < 1 or res == 0 or x1 < x0:
        return "ERR"
    r = abs(res)
    o = off * r
    i0 = _floor(mi((x0 - o) / r))
    i1 = _ceil(mi((x1 - o) / r))
    nx = max(1, i1 - i0)
    tx = i0 * r if res > 0 else i0 * r + nx * r
    return tx + o, nx


DELTAS = [1e-6, 1e-9, 1e-10, 1e-11, 1e-13, 2.0 ** -40]


def near(k: float, rng=None):
    """doubles at k +- {1e-6 ... 2^-40, 1 ulp}"""
    out = [k, math.nextafter(k, math.inf), math.nextafter(k, -math.inf)]
    for d in DELTAS:
        out += [k + d, k - d]
    return out


NONDY = [0.1, 0.2, 0.05, 0.01, 1 / 3, 30.0 / 7, 0.00025, 0.3, 0.7, 1e-3, 30.0, 123.456, 1e-6, 1 / 7]


def ulp3(v: float):
    return [v, math.nextafter(v, math.inf), math.nextafter(v, -math.inf)]


def ref_snap_grid_float(x0: float, x1: float, res: float, off, tol: float):
    """snap_grid as documented, evaluated in binary64 in the code's operation order: floor / ceil of the correctly
    rounded quotient after the (exact, see ref_maybe_int) near-integer replacement.  'ERR' where the code raises."""
    def mi(u):
        k = ref_maybe_int(F(u), F(tol))
        return u if k is None else k

    if off is None:
        if res == 0:
            return "ERR"
        r = res if res > 0 else -res
        nx = math.ceil(mi((x1 - x0) / r))
        return (x0 if res > 0 else x1), max(1, nx)
    if not 0 <= off < 1 or res == 0 or x1 < x0:
        return "ERR"
    o = off * abs(res)
    a0, a1 = x0 - o, x1 - o
    if a1 < a0:
        return "ERR"
    r = res if res > 0 else -res
    i0 = math.floor(mi(a0 / r))
    i1 = math.ceil(mi(a1 / r))
    nx = max(1, i1 - i0)
    tx = i0 * r
    if res < 0:
        tx = tx + nx * r
    return tx + o, nx

# =============================================================================== sections
def sec_split_int(R: Run, M):
    rng = R.rng
    tols = [TOL6, TOL2, TOL3, TOL8, F(1, 128), F(0), F(1, 2), F(3, 5), F(-1, 4), F(1), F(3, 2)]

    def one(x: float, tag: str):
        res = []

        def f():
            w, p = M.split_float(x)
            res.append((w, p))
            return f"{xf_s(w)} {xf_s(p)}"

        R.corr(f"c20 split {xf_s(x)}", f, sig=f"split|{tag}")
        if res and math.isfinite(x):
            w, p = (F(v) for v in res[0])
            R.oracle(w + p == F(x) and F(-1, 2) <= p <= F(1, 2) and w.denominator == 1,
                     "split-float-contract", {"fn": "split_float", "x": xf_s(x)},
                     f"split_float({x!r}) = {res[0]}: sum/range/integrality violated", sig="split")
            R.oracle((w, p) == ref_split(F(x)), "split-float-differs-from-exact-recomputation",
                     {"fn": "split_float", "x": xf_s(x)},
                     f"split_float({x!r}) = {res[0]} but exact fmod/truncation arithmetic gives {tuple(map(float, ref_split(F(x))))}",
                     sig="split-2sided")
        for tol in ([rng.choice(tols)] if tag == "rnd" else tols):
            tf = float(tol)
            mi = []

            def g():
                o = M.maybe_int(x, tf)
                mi.append(o)
                return ("i:" + str(o)) if isinstance(o, int) else ("f:" + xf_s(o))

            R.corr(f"c20 mint {xf_s(x)} {frac_s(tol)}", g, sig=f"mint|{tag}")
            al = []

            def h():
                o = M.is_almost_int(x, tf)
                al.append(o)
                return bool_s(o)

            R.corr(f"c20 almost {xf_s(x)} {frac_s(tol)}", h, sig=f"almost|{tag}")
            if mi and al and math.isfinite(x):
                o = mi[0]
                snapped = isinstance(o, int)
                d = nearest_int_dist(F(x))
                ok = (snapped == bool(al[0])) and (snapped == (d < tol))
                if snapped:
                    ok = ok and abs(F(x) - o) < tol and abs(F(x) - o) <= F(1, 2)
                else:
                    ok = ok and o == x
                R.oracle(ok, "maybe-int-vs-almost-int-vs-tol",
                         {"fn": "maybe_int", "x": xf_s(x), "tol": frac_s(tol)},
                         f"maybe_int({x!r},{tf!r})={o!r} is_almost_int={al[0]} dist={float(d)}", sig="mint")

    # exhaustive: eighths around 0 (half-way points, sign changes), tolerance edges
    for k in range(-44, 45):
        one(k / 8, "eighth")
    for n in (-3, -1, 0, 1, 2, 1000000):
        for tol in (1e-6, 0.01, 1e-3):
            for m in (0.0, 0.5, 0.999, 1.0, 1.001, 2.0):
                for sg in (-1, 1):
                    one(n + sg * tol * m, "edge")
    for base in (0.0, 0.5, -0.5, 1.0, -1.0, 1.5, -2.5, 7.0, 1000000.0, 123456.5, -4096.0):
        for v in near(base):
            one(v, "near")
    for n in (-2, 0, 1, 3):
        for tol in (1e-6, 0.01, 1e-3, 1e-10):
            for sg in (-1, 1):
                for v in near(n + sg * tol):     # the tolerance threshold itself, +- tiny
                    one(v, "tol-edge")
    for sz in NONDY:
        for k in (1, 3, 7, 10, 33, 1000, -6, -49):
            for v in ulp3(k * sz) + ulp3((k * sz) / sz) + ulp3(k / sz):
                one(v, "nondyadic")
    for v in (1.7976931348623157e308, -1.7976931348623157e308, 8.98846567431158e307, 2.2250738585072014e-308, -2.2250738585072014e-308):
        one(v, "special")
    for v in (float("inf"), float("-inf"), float("nan"), 2.0**52 + 1, -(2.0**53), 2.0**60, 1e300, 5e-324, -5e-324,
              0.5, -0.5, 0.5000000000000001, -0.5000000000000001, 0.49999999999999994):
        one(v, "special")
    for _ in range(R.pick(1500, 15000)):
        one(rnd_double(rng), "rnd")
    for _ in range(R.pick(200, 2000)):
        x, tol = rnd_double(rng), float(rng.choice(tols))
        R.corr(f"c20 mzero {frac_s(x)} {frac_s(tol)}", lambda: frac_s(M.maybe_zero(x, tol)), sig="mzero")


def snap_scale_canon(s: float, tol: F, r) -> str:
    """canonical text of a snap_scale result: a result `fl(1/k)` of the `1/<int>` branch is printed as the
    exact fraction `1/k` (decided by value only: the float reciprocal of `s` is within `tol` of `k`)"""
    if isinstance(r, int):
        return frac_s(r)
    if r != 0 and math.isfinite(r) and s != 0 and tol <= abs(F(s)) < 1 - tol:
        k = round(1 / r)
        if k != 0 and 1 / k == r and abs(F(1 / s) - k) < tol:
            return frac_s(F(1, k))
    return frac_s(r)


def sec_snap_scale(R: Run, M):
    rng = R.rng
    tols = [TOL6, TOL2, TOL3, F(1, 128), F(1, 4), F(1, 2), F(3, 5), F(0), F(1), F(-1, 8)]

    def one(s: float, tol: F, tag: str, exact: bool):
        tf = float(tol)
        res = []

        def f():
            o = M.snap_scale(s, tf)
            res.append(o)
            return snap_scale_canon(s, tol, o)

        if exact:
            R.corr(f"c20 sscale {frac_s(s)} {frac_s(tol)}", f, sig=f"sscale|{tag}")
        else:
            guarded(f)
        if not res:
            R.oracle(s == 0 and tol <= 0, "snap-scale-raises", {"s": frac_s(s), "tol": frac_s(tol)},
                     f"snap_scale({s!r},{tf!r}) raised", sig="sscale-raise", trivial=True)
            return
        r = res[0]
        fs = F(s)
        if exact:
            want = ref_snap_scale(fs, tol)
            if want[0] == "s":
                ok2 = (not isinstance(r, int)) and r == s
            elif want[0] == "int":
                ok2 = isinstance(r, int) and r == want[1]
            elif want[0] == "inv":
                ok2 = (not isinstance(r, int)) and r == 1 / want[1]
            else:
                ok2 = False
            R.oracle(ok2, "snap-scale-differs-from-exact-recomputation", {"s": frac_s(s), "tol": frac_s(tol)},
                     f"snap_scale({s!r},{tf!r}) = {r!r} but exact arithmetic gives {want}", sig="sscale-2sided")
        if isinstance(r, int) or r != s:
            if F(r).denominator == 1:
                ok = abs(F(r) - fs) < tol
            else:
                k = round(1 / r)
                ok = k != 0 and 1 / k == r and abs(F(1 / s) - k) < tol
        else:
            ok = True
        R.oracle(ok, "snap-scale-outside-tolerance", {"s": frac_s(s), "tol": frac_s(tol)},
                 f"snap_scale({s!r},{tf!r}) = {r!r}", sig=f"sscale-{tag}")
        r2 = guarded(lambda: repr(M.snap_scale(float(r), tf)))
        R.oracle(r2 == repr(M.snap_scale(s, tf)) or float(r2) == float(r), "snap-scale-not-idempotent",
                 {"s": frac_s(s), "tol": frac_s(tol)}, f"snap_scale twice: {r!r} -> {r2}", sig="sscale-idem")

    # branch 1/2 are exact for every double; branch 3 for powers of two
    for tol in tols:
        for n in (-3, -2, -1, 0, 1, 2, 7):
            for m in (0, F(1, 2), F(999, 1000), 1, F(1001, 1000), 2, 50):
                for sg in (-1, 1):
                    one(float(n + sg * tol * m), tol, "near-int", abs(n + sg * tol * m) >= 1 or abs(F(float(n + sg * tol * m))) < tol or n + sg * tol * m == 0)
        for k in range(0, 12):
            for sg in (-1, 1):
                one(sg * 2.0 ** -k, tol, "pow2", True)
        one(0.0, tol, "zero", True)
    # guarded stream: 1/s is not exact, but neither decision sits within rounding distance of its boundary
    n_g = 0
    for _ in range(R.pick(3000, 30000)):
        tol = rng.choice([TOL6, TOL2, TOL3, F(1, 128), F(1, 4)])
        r = rng.random()
        if r < 0.5:
            k = rng.choice([-1, 1]) * rng.randint(2, 10 ** rng.randint(1, 5))
            inv = k + rng.choice([-1, 1]) * float(tol) * rng.choice([0, 0.3, 0.9, 0.999, 1.001, 1.1, 3.0])
            s = 1 / inv
        else:
            s = rng.choice([-1, 1]) * rng.random()
        if s == 0:
            continue
        fs = F(s)
        inv_e, inv_f = 1 / fs, F(1 / s)
        guard = F(1, 2**36) * abs(inv_e) + F(1, 2**60)
        stable = (abs(nearest_int_dist(inv_e) - tol) > guard and abs(nearest_int_dist(inv_f) - tol) > guard
                  and abs(abs(fs) - (1 - tol)) > 0 and abs(nearest_int_dist(inv_e) - F(1, 2)) > guard)
        if abs(fs) >= 1 - tol or abs(fs) < tol:
            stable = True
        one(s, tol, "inv-guarded" if stable else "inv-float", stable)
        n_g += stable
    R.count("sscale:guarded-exact", n_g)


def sec_pow2(R: Run, M):
    rng = R.rng

    def one(x: int, tag: str):
        u = R.corr(f"c20 up2 {x}", lambda: str(M.align_up_pow2(x)), sig=f"up2|{tag}")
        d = R.corr(f"c20 down2 {x}", lambda: str(M.align_down_pow2(x)), sig=f"down2|{tag}")
        if x >= 1 and not u.startswith("ERR") and not d.startswith("ERR"):
            u, d = int(u), int(d)
            wu = 1 << (x - 1).bit_length()
            wd = 1 << (x.bit_length() - 1)
            R.oracle(u == wu and d == wd, "pow2-alignment", {"x": x},
                     f"align_up_pow2({x})={u} (least pow2>=x is {wu}); align_down_pow2={d} (greatest pow2<=x is {wd})",
                     sig="pow2")

    for x in range(-8, R.pick(2100, 8300)):
        one(x, "small")
    for k in range(2, 48):
        for dlt in (-1, 0, 1):
            one(2**k + dlt, "pow2-edge")
    for _ in range(R.pick(500, 5000)):
        one(rng.randint(1, 2 ** rng.randint(2, 48) - 1), "rnd")
    R.assumptions.append("float log2 in align_up_pow2 is modelled by its exact value; harness inputs are < 2^48")
    # the plain integer helpers (modelled and proved in C17) — exhaustive on [-64,64] x [1,16]
    for x in range(-64, 65):
        for a in range(1, 17):
            R.corr(f"c20 alup {x} {a}", lambda: str(M.align_up(x, a)), sig="align|small")
            R.corr(f"c20 aldown {x} {a}", lambda: str(M.align_down(x, a)), sig="align|small")
    huge = [2**31, 2**53, 2**63, 2**64, 2**100, 10**30]
    for _ in range(R.pick(600, 6000)):
        x = rng.choice([-1, 1]) * rng.choice(huge) + rng.randint(-3, 3)
        a = rng.choice([1, 2, 3, 7, 16, 256, 1000, 2**31 - 1, 2**32, 2**53 + 1, rng.randint(1, 10**6)])
        u = R.corr(f"c20 alup {x} {a}", lambda: str(M.align_up(x, a)), sig="align|huge")
        d = R.corr(f"c20 aldown {x} {a}", lambda: str(M.align_down(x, a)), sig="align|huge")
        if not u.startswith("ERR") and not d.startswith("ERR"):
            u, d = int(u), int(d)
            R.oracle(u % a == 0 and d % a == 0 and d <= x <= u and u - x < a and x - d < a, "align-contract",
                     {"x": x, "a": a}, f"align_up={u} align_down={d}", sig="align-huge")
    for _ in range(R.pick(300, 3000)):
        x, lo, up = (F(rng.randint(-40, 40), 4) for _ in range(3))
        R.corr(f"c20 clamp {frac_s(x)} {frac_s(lo)} {frac_s(up)}",
               lambda: frac_s(M.clamp(float(x), float(lo), float(up))), sig="clamp")


# ------------------------------------------------------------------ snap_grid (shared with C08)
def grid_oracle(R: Run, x0: F, x1: F, res: F, off, tol: F, tx: F, nx: int, slack: F, key_prefix="snap-grid",
                extra=None):
    """The five one-axis predicates, exact rationals; `slack` = allowance for rounding (0 on the exact stream)."""
    r = abs(res)
    lo, hi = (tx, tx + nx * r) if res > 0 else (tx - nx * r, tx)
    case = {"fn": "snap_grid", "x0": frac_s(x0), "x1": frac_s(x1), "res": frac_s(res),
            "off": opt_s(off, frac_s), "tol": frac_s(tol)}
    if extra:
        case.update(extra)
    got = f"tx={float(tx)!r} nx={nx} lo={float(lo)!r} hi={float(hi)!r}"
    R.oracle(lo <= x0 + tol * r + slack and hi >= x1 - tol * r - slack, f"{key_prefix}-not-covering", case,
             f"span [{float(lo)!r},{float(hi)!r}] does not cover [{float(x0)!r},{float(x1)!r}] up to tol: {got}",
             sig="grid-cover")
    strict = tol > 0 or x0 < x1      # a zero-width interval with tol = 0 still needs one whole pixel
    bound = r * (1 + tol) + slack
    R.oracle((x0 - lo < bound and hi - x1 < bound) if strict else (x0 - lo <= bound and hi - x1 <= bound), f"{key_prefix}-not-minimal", case,
             f"span exceeds the interval by a pixel or more: {got}", sig="grid-minimal")
    R.oracle(nx >= 1, f"{key_prefix}-empty", case, got, sig="grid-npos", trivial=True)
    if off is None:
        R.oracle(tx == (x0 if res > 0 else x1), f"{key_prefix}-floating-origin-moved", case, got, sig="grid-none")
    else:
        q = (lo - off * r) / r
        R.oracle(abs(q - round(q)) * r <= slack, f"{key_prefix}-not-aligned", case,
                 f"(lo - off*|res|)/|res| = {float(q)!r} is not an integer: {got}", sig="grid-aligned")


def sec_snap_grid(R: Run, M):
    rng = R.rng

    def one(x0: F, x1: F, res: F, off, tol: F, tag: str):
        ops = [x0, x1, res, tol] + ([] if off is None else [off])
        r = abs(res)
        o = F(0) if off is None else off * r
        # every intermediate the code computes must be exact
        inter = [x0 - o, x1 - o] + ([(x0 - o) / r, (x1 - o) / r, (x1 - x0) / r] if r else [])
        if not all(isx(v) for v in ops + inter):
            R.count("grid:skipped-inexact")
            return
        res_l = []

        def f():
            tx, nx = M.snap_grid(float(x0), float(x1), float(res), None if off is None else float(off), float(tol))
            res_l.append((tx, nx))
            return f"{frac_s(tx)} {nx}"

        R.corr(f"c20 grid {frac_s(x0)} {frac_s(x1)} {frac_s(res)} {opt_s(off, frac_s)} {frac_s(tol)}", f,
               sig=f"grid|{tag}|{'none' if off is None else 'off'}|{'pos' if res > 0 else 'neg' if res < 0 else 'zero'}")
        want = ref_snap_grid(x0, x1, res, off, tol)
        if res_l or want != "ERR":
            got = (F(res_l[0][0]), int(res_l[0][1])) if res_l else "ERR"
            R.oracle(got == want, "snap-grid-differs-from-exact-recomputation",
                     {"fn": "snap_grid", "x0": frac_s(x0), "x1": frac_s(x1), "res": frac_s(res), "off": opt_s(off, frac_s), "tol": frac_s(tol)},
                     f"snap_grid = {res_l[0] if res_l else 'raised'} but exact arithmetic gives "
                     f"{want if want == 'ERR' else (float(want[0]), want[1])}", sig="grid-2sided")
        if res_l and res != 0 and x0 <= x1 and 0 <= tol < F(1, 2):
            tx, nx = res_l[0]
            grid_oracle(R, x0, x1, res, off, tol, F(tx), int(nx), F(0))

    # exhaustive small: near-integer quotients on both sides of tol, sub-pixel and touching spans
    deltas = [F(0), F(1, 256), F(-1, 256), F(1, 128), F(-1, 128), F(1, 64), F(-1, 64), F(1, 2), F(-1, 4), F(3, 8)]
    qs = sorted({F(i) + d for i in range(-2, 3) for d in deltas})
    ress = [F(1), F(-1), F(3, 2), F(-3, 4), F(10), F(-1, 8)]
    offs = [None, F(0), F(1, 2), F(1, 4), F(127, 128)]
    tolx = [TOL2, F(1, 128), F(0), TOL6, F(1, 4)]
    for res in ress[: R.pick(3, 6)]:
        for off in offs:
            for tol in tolx[: R.pick(2, 5)]:
                for q0 in qs:
                    for q1 in qs:
                        if q1 < q0 or q1 - q0 > 3:
                            continue
                        one(q0 * abs(res), q1 * abs(res), res, off, tol, "small")
    # quotients a hair (1e-6 ... 1 ulp) away from integers / half-integers / the tolerance threshold; power-of-two
    # pixel sizes keep x/res exact, so the model must agree exactly
    for _ in range(R.pick(2000, 30000)):
        res = F(rng.choice([-1, 1])) * F(2) ** rng.randint(-6, 5)
        off = rng.choice([None, F(0), F(1, 2), F(1, 4)])
        tol = rng.choice([TOL2, F(0), TOL6, F(1e-10), F(1, 128)])
        k0 = rng.randint(-50, 50) + rng.choice([0, 0, 0.5, 0.25])
        k1 = k0 + rng.randint(0, 40)
        cands0 = near(float(k0)) + near(float(k0) + float(tol)) + near(float(k0) - float(tol))
        cands1 = near(float(k1)) + near(float(k1) + float(tol)) + near(float(k1) - float(tol))
        q0, q1 = F(rng.choice(cands0)), F(rng.choice(cands1))
        if off is not None:
            q0, q1 = q0 + off, q1 + off
        if q1 < q0:
            q0, q1 = q1, q0
        one(q0 * abs(res), q1 * abs(res), res, off, tol, "near-int")
    # error branches
    for (x0, x1, res, off, tol) in [(0, 1, 0, 0, TOL2), (0, 1, 0, None, TOL2), (2, 1, 1, 0, TOL2), (2, 1, -1, F(1, 2), TOL2),
                                    (2, 1, 1, None, TOL2), (2, 1, -1, None, TOL2), (0, 1, 1, 1, TOL2), (0, 1, 1, F(-1, 4), TOL2),
                                    (0, 1, 1, F(3, 2), TOL2), (0, 0, 1, 0, TOL2), (0, 0, -2, None, TOL2)]:
        one(F(x0), F(x1), F(res), None if off is None else F(off), tol, "edge-case")
    # the two private helpers behind snap_grid, when they exist under these names (a refactor may inline / rename them:
    # then only the public snap_grid stream above applies)
    edge_pos, edge_any = getattr(M, "_snap_edge_pos", None), getattr(M, "_snap_edge", None)
    if edge_pos is None or edge_any is None:
        R.notes.append("private helpers _snap_edge_pos / _snap_edge not found: their direct stream is skipped (snap_grid covers them)")
    # (internal steps are not part of the property: a difference here is recorded as a note and the public snap_grid
    # streams decide; it is never a violation by itself)
    soft_lines, soft_real = [], []
    for (x0, x1, res, tol) in [(0, 1, 0, TOL2), (0, 1, -1, TOL2), (2, 1, 1, TOL2), (0, 5, 2, TOL2), (F(-7, 2), F(1, 4), F(1, 2), TOL2),
                               (F(3, 4), F(41, 4), F(1, 2), TOL2), (F(-9), F(-9), F(2), F(0)), (F(-5, 2), F(7, 2), F(-1, 4), TOL6)]:
        if edge_pos is None or edge_any is None:
            break
        for nm, fn_ in (("edgepos", edge_pos), ("edge", edge_any)):
            soft_lines.append(f"c20 {nm} {frac_s(x0)} {frac_s(x1)} {frac_s(res)} {frac_s(tol)}")
            soft_real.append(guarded(lambda: "{} {}".format(*(lambda t: (frac_s(t[0]), t[1]))(fn_(float(x0), float(x1), float(res), float(tol))))))
    if soft_lines:
        model_out = run_driver("C20", soft_lines)
        diff = [(l_, r_, m_) for l_, r_, m_ in zip(soft_lines, soft_real, model_out) if r_ != m_]
        R.count("grid:private-helper-steps-compared", len(soft_lines))
        if diff:
            R.notes.append("private snap-edge helpers differ from the model's intermediate steps (not a violation; snap_grid decides): "
                           + repr(diff[:3]))
    # random large, quotient construction x = q * |res|
    for _ in range(R.pick(2500, 40000)):
        res = F(rng.choice([-1, 1]) * rng.choice([1, 3, 5, 10, 25, 30, 1000, rng.randint(1, 1023)])) * F(2) ** rng.randint(-12, 6)
        fb = rng.choice([2, 7, 8, 10])
        span_bits = rng.randint(0, 20)
        q0 = F(rng.randint(-2 ** 22, 2 ** 22)) + rng.choice([0, 0, 1, -1]) * F(rng.randint(0, 2 ** fb), 2 ** fb)
        q1 = q0 + F(rng.randint(0, 2 ** span_bits)) + rng.choice([0, 0, 1, -1]) * F(rng.randint(0, 2 ** fb), 2 ** fb)
        if q1 < q0:
            q0, q1 = q1, q0
        off = rng.choice([None, F(0), F(1, 2), F(rng.randint(0, 2 ** fb - 1), 2 ** fb)])
        tol = rng.choice([TOL2, TOL2, TOL6, F(1, 128), F(0), F(1, 4), F(7, 16)])
        one(q0 * abs(res), q1 * abs(res), res, off, tol, "rnd")

    # non-dyadic pixel sizes, interval ends EXACTLY on k*|res| (+ anchor) as doubles, on the grid edges the code itself
    # reports (tx + i*res) and one ulp either side: two-sided against the documented formula in binary64 in the code's
    # operation order (floor / ceil of the correctly rounded quotient), plus the property predicates with slack
    for _ in range(R.pick(2500, 40000)):
        r = rng.choice(NONDY)
        res = rng.choice([-1, 1]) * r
        off = rng.choice([None, 0.0, 0.5, 0.25, 0.1])
        tol = rng.choice([0.0, 0.0, 1e-6, 0.01, 1e-10])
        k0 = rng.choice([0, 1, 3, 10, 49, -7, rng.randint(-2000, 2000)])
        k1 = k0 + rng.choice([0, 1, 2, 10, 100, rng.randint(0, 5000)])
        o = 0.0 if off is None else off * r
        x0 = rng.choice(ulp3(k0 * r + o) + ulp3(k0 * r) + [k0 * r + o])
        x1 = rng.choice(ulp3(k1 * r + o) + ulp3(k1 * r) + [k1 * r + o])
        if rng.random() < 0.4:
            # ends on the edges a previous call reported
            try:
                t0, n0 = M.snap_grid(min(x0, x1), max(x0, x1), res, off, tol)
                x0 = rng.choice(ulp3(t0 + rng.randint(0, n0) * res))
                x1 = rng.choice(ulp3(t0 + rng.randint(0, n0) * res))
            except Exception:  # pylint: disable=broad-except
                pass
        if x1 < x0:
            x0, x1 = x1, x0
        case = {"fn": "snap_grid", "x0": frac_s(x0), "x1": frac_s(x1), "res": frac_s(res), "off": opt_s(off, frac_s), "tol": frac_s(tol),
                "floats": repr((x0, x1, res, off, tol))}
        want = ref_snap_grid_float(x0, x1, res, off, tol)
        try:
            got = M.snap_grid(x0, x1, res, off, tol)
            got = (float(got[0]), int(got[1]))
        except Exception:  # pylint: disable=broad-except
            got = "ERR"
        R.oracle(got == want, "snap-grid-differs-from-float-reference", case,
                 f"snap_grid{(x0, x1, res, off, tol)!r} = {got} but the documented formula in binary64 gives {want}", sig="grid-float-ref")
        if got != "ERR":
            scale = max(abs(F(x0)), abs(F(x1)), F(r))
            grid_oracle(R, F(x0), F(x1), F(res), None if off is None else F(off), F(tol), F(got[0]), got[1],
                        scale * F(1, 10**9), key_prefix="snap-grid-float", extra={"floats": case["floats"]})

    # float stream: arbitrary doubles, judged by the Fraction oracle only
    for _ in range(R.pick(2500, 40000)):
        mag = 10.0 ** rng.uniform(-6, 8)
        res = rng.choice([-1, 1]) * rng.choice([mag, 30.0, 0.00025, 1 / 3, 10.0, 0.1, 1e-6, 100.0])
        r = abs(res)
        tol = rng.choice([0.01, 0.01, 1e-6, 1e-3, 0.1, 0.0])
        npx = rng.choice([0, 1, 2, 5, 100, 10 ** rng.randint(1, 6)])
        base = rng.choice([0.0, rng.uniform(-1e3, 1e3) * r, rng.randint(-10**6, 10**6) * r])
        d0 = rng.choice([0, 0, 1, -1]) * tol * rng.choice([0.0, 0.5, 0.99, 1.01, 2.0]) * r + rng.choice([0, 0, rng.random() * r])
        d1 = rng.choice([0, 0, 1, -1]) * tol * rng.choice([0.0, 0.5, 0.99, 1.01, 2.0]) * r + rng.choice([0, 0, rng.random() * r])
        x0 = base + d0
        x1 = base + npx * r + d1
        if x1 < x0:
            x0, x1 = x1, x0
        off = rng.choice([None, 0.0, 0.5, rng.random()])
        try:
            tx, nx = M.snap_grid(x0, x1, res, off, tol)
        except Exception as e:  # pylint: disable=broad-except
            R.oracle(False, "snap-grid-raises", {"x0": frac_s(x0), "x1": frac_s(x1), "res": frac_s(res),
                                                 "off": opt_s(off, frac_s), "tol": frac_s(tol)}, f"raised {e!r}")
            continue
        scale = max(abs(F(x0)), abs(F(x1)), F(r))
        grid_oracle(R, F(x0), F(x1), F(res), None if off is None else F(off), F(tol), F(tx), int(nx),
                    scale * F(1, 10**9), key_prefix="snap-grid-float")


def sec_axis(R: Run, M, Affine):
    rng = R.rng

    def labels(t: F, r: F, n: int):
        return [t + (i + F(1, 2)) * r for i in range(n)]

    def one(t, r, n, fb, tag):
        data = labels(t, r, n)
        if not all(isx(v) for v in data + [r, t]):
            return
        arr = np.asarray([float(v) for v in data], dtype="float64")
        res_l = []

        def f():
            rr, oo = M.data_resolution_and_offset(arr, None if fb is None else float(fb))
            res_l.append((rr, oo))
            return f"{frac_s(rr)} {frac_s(oo)}"

        R.corr(f"c20 dro {list_s(data, frac_s)} {opt_s(fb, frac_s)}", f, sig=f"dro|{tag}|n{min(n, 3)}")
        if res_l and n >= 2:
            R.oracle(F(res_l[0][0]) == r and F(res_l[0][1]) == t, "axis-labels-roundtrip",
                     {"t": frac_s(t), "r": frac_s(r), "n": n}, f"labels t+(i+1/2)r gave {res_l[0]}", sig="dro")
        if res_l and n == 1 and fb is not None:
            R.oracle(F(res_l[0][0]) == fb and F(res_l[0][1]) == data[0] - fb / 2, "axis-single-label-fallback",
                     {"t": frac_s(t), "fb": frac_s(fb)}, f"{res_l[0]}", sig="dro1")

    for n in range(0, 6):
        for r in (F(1), F(-1), F(1, 4), F(-30), F(3, 8)):
            for t in (F(0), F(-7, 2), F(100)):
                for fb in (None, F(2), F(-1, 2)):
                    one(t, r, n, fb, "small")
    for _ in range(R.pick(300, 3000)):
        r = F(rng.choice([-1, 1]) * rng.randint(1, 1000), 2 ** rng.randint(0, 10))
        t = F(rng.randint(-10**6, 10**6), 2 ** rng.randint(0, 6))
        one(t, r, rng.randint(2, 400), rng.choice([None, F(1)]), "rnd")
    # non-regular labels: the code uses the first and the last label only
    for _ in range(R.pick(100, 1000)):
        n = rng.randint(2, 6)
        k = 2 ** rng.randint(0, 3)
        data = [F(rng.randint(-64, 64)) for _ in range(n)]
        data[-1] = data[0] + (n - 1) * F(rng.randint(-64, 64), k)
        arr = np.asarray([float(v) for v in data])
        R.corr(f"c20 dro {list_s(data, frac_s)} N", lambda: "{} {}".format(*map(frac_s, M.data_resolution_and_offset(arr))),
               sig="dro|irregular")
    # affine_from_axis
    for _ in range(R.pick(300, 3000)):
        nx, ny = rng.randint(0, 5), rng.randint(0, 5)
        rx = F(rng.choice([-1, 1]) * rng.randint(1, 64), 8)
        ry = F(rng.choice([-1, 1]) * rng.randint(1, 64), 8)
        tx, ty = F(rng.randint(-1000, 1000), 4), F(rng.randint(-1000, 1000), 4)
        xx, yy = labels(tx, rx, nx), labels(ty, ry, ny)
        fbk = rng.choice([None, "s", "xy"])
        if fbk is None:
            fb_py, fb_m = None, None
        elif fbk == "s":
            v = F(rng.randint(1, 40), 4)
            fb_py, fb_m = float(v), (v, -v)
        else:
            from odc.geo import resxy_
            vx, vy = F(rng.randint(1, 40), 4), F(-rng.randint(1, 40), 4)
            fb_py, fb_m = resxy_(float(vx), float(vy)), (vx, vy)
        ax = np.asarray([float(v) for v in xx], dtype="float64")
        ay = np.asarray([float(v) for v in yy], dtype="float64")
        res_l = []

        def f():
            A = M.affine_from_axis(ax, ay, fb_py)
            res_l.append(A)
            return aff_s(A)

        fb_txt = "N" if fb_m is None else f"{frac_s(fb_m[0])};{frac_s(fb_m[1])}"
        R.corr(f"c20 axis {list_s(xx, frac_s)} {list_s(yy, frac_s)} {fb_txt}", f,
               sig=f"axis|nx{min(nx, 2)}|ny{min(ny, 2)}|{fbk}")
        if res_l and nx >= 2 and ny >= 2:
            A = res_l[0]
            ok = all(F(A.a) * (i + F(1, 2)) + F(A.c) == xx[i] for i in range(nx)) and all(
                F(A.e) * (j + F(1, 2)) + F(A.f) == yy[j] for j in range(ny)) and A.b == 0 and A.d == 0
            R.oracle(ok, "affine-from-axis-does-not-reproduce-labels", {"xx": list_s(xx, frac_s), "yy": list_s(yy, frac_s)},
                     f"{A!r}", sig="axis")


def sec_affine(R: Run, M, Affine):
    rng = R.rng
    # is_affine_st, snap_affine: exact for near-integer / tiny / power-of-two scales
    def scale_val():
        r = rng.random()
        if r < 0.5:
            return F(rng.randint(-5, 5)) + rng.choice([-1, 1]) * rng.choice([F(0), F(1, 2**21), F(1, 2**19), F(1, 4), F(1, 3 * 2**20)])
        if r < 0.8:
            return rng.choice([-1, 1]) * F(1, 2 ** rng.randint(0, 10))
        return rng.choice([-1, 1]) * F(rng.randint(0, 3), 2**22)

    def trans_val():
        return F(rng.randint(-10**6, 10**6)) + rng.choice([-1, 1]) * rng.choice([F(0), F(1, 2**11), F(1, 2**9), F(1, 2), F(3, 8)])

    def rot_val(tol):
        return rng.choice([F(0), F(0), tol / 2, -tol / 2, tol, -tol, tol * 2, -tol * 3, F(1, 4), F(-3)])

    for _ in range(R.pick(3000, 30000)):
        ttol, stol, tol = rng.choice([(TOL3, TOL6, TOL8), (TOL3, TOL6, TOL8), (F(1, 1024), F(1, 2**20), F(1, 2**30)), (F(0), F(1, 2**20), F(0))])
        vals = [scale_val(), rot_val(tol), trans_val(), rot_val(tol), scale_val(), trans_val()]
        vals = [F(float(v)) for v in vals]
        A = Affine(*[float(v) for v in vals])
        R.corr(f"c20 st {aff_in(vals)} {frac_s(tol)}", lambda: bool_s(M.is_affine_st(A, float(tol))), sig="st")
        res_l = []

        def f():
            o = M.snap_affine(A, float(ttol), float(stol), float(tol))
            res_l.append(o)
            return aff_s(o)

        exact_scales = all(abs(s) >= 1 - stol or abs(s) < stol or (s != 0 and (1 / s).denominator == 1) for s in (vals[0], vals[4]))
        rotated = abs(vals[1]) > tol or abs(vals[3]) > tol
        if exact_scales or rotated:
            R.corr(f"c20 saff {aff_in(vals)} {frac_s(ttol)} {frac_s(stol)} {frac_s(tol)}", f,
                   sig=f"saff|{'rot' if rotated else 'st'}")
        else:
            guarded(f)
        if res_l and (exact_scales or rotated):
            B = res_l[0]
            if rotated:
                wantB = vals
            else:
                def sc(v):
                    w = ref_snap_scale(v, stol)
                    return v if w[0] == "s" else F(w[1]) if w[0] == "int" else F(1, w[1]) if w[0] == "inv" else None
                def tr(v):
                    k = ref_maybe_int(v, ttol)
                    return v if k is None else F(k)
                wantB = [sc(vals[0]), F(0), tr(vals[2]), F(0), sc(vals[4]), tr(vals[5])]
            gotB = [F(float(v)) for v in tuple(B)[:6]]
            R.oracle(None not in wantB and gotB == wantB, "snap-affine-differs-from-exact-recomputation",
                     {"A": aff_in(vals), "ttol": frac_s(ttol), "stol": frac_s(stol), "tol": frac_s(tol)},
                     f"snap_affine = {tuple(B)[:6]} but exact arithmetic gives {[None if v is None else float(v) for v in wantB]}",
                     sig="saff-2sided")
        if res_l:
            B = res_l[0]
            if rotated:
                R.oracle(B is A or tuple(B) == tuple(A), "snap-affine-touches-rotated", {"A": aff_in(vals)}, f"{B!r}", sig="saff-rot")
            else:
                def sc_ok(s, r):
                    s, r = F(s), F(r)
                    if r == s:
                        return True
                    if r.denominator == 1:
                        return abs(r - s) < stol
                    k = round(1 / float(r))
                    return k != 0 and 1 / k == float(r) and abs(F(1 / float(s)) - k) < stol
                ok = (B.b == 0 and B.d == 0 and abs(F(B.c) - vals[2]) < max(ttol, F(1, 10**300)) * (1 if F(B.c) != vals[2] else 10**400)
                      and abs(F(B.f) - vals[5]) < max(ttol, F(1, 10**300)) * (1 if F(B.f) != vals[5] else 10**400)
                      and sc_ok(A.a, B.a) and sc_ok(A.e, B.e))
                R.oracle(ok, "snap-affine-outside-tolerance", {"A": aff_in(vals), "ttol": frac_s(ttol), "stol": frac_s(stol)},
                         f"{A!r} -> {B!r}", sig="saff-tol")
                B2 = guarded(lambda: repr(tuple(M.snap_affine(B, float(ttol), float(stol), float(tol)))))
                R.oracle(B2 == repr(tuple(B)), "snap-affine-not-idempotent", {"A": aff_in(vals)}, f"{tuple(B)!r} -> {B2}", sig="saff-idem")
    # float stream for snap_affine with default tolerances
    for _ in range(R.pick(1000, 10000)):
        A = Affine(rnd_double(rng), rng.choice([0.0, 1e-9, -5e-9, 1e-7, 0.3]), rnd_double(rng),
                   rng.choice([0.0, 0.0, 1e-9, 2e-8, -1.0]), rnd_double(rng), rnd_double(rng))
        try:
            B = M.snap_affine(A)
        except ZeroDivisionError:
            continue
        rotated = abs(A.b) > 1e-8 or abs(A.d) > 1e-8
        if rotated:
            R.oracle(tuple(B) == tuple(A), "snap-affine-touches-rotated", {"A": aff_s(A)}, f"{B!r}", sig="saff-rot-f")
        else:
            ok = B.b == 0 and B.d == 0 and abs(F(B.c) - F(A.c)) < TOL3 and abs(F(B.f) - F(A.f)) < TOL3
            R.oracle(ok, "snap-affine-outside-tolerance", {"A": aff_s(A), "ttol": frac_s(TOL3), "stol": frac_s(TOL6)},
                     f"{A!r} -> {B!r}", sig="saff-tol-f")
            B2 = M.snap_affine(B)
            R.oracle(tuple(B2) == tuple(B), "snap-affine-not-idempotent", {"A": aff_s(A)}, f"{B!r} -> {B2!r}", sig="saff-idem-f")


def snap20(v: float) -> F:
    """round to the nearest multiple of 2^-20 (canonicalisation where LAPACK rounding is unavoidable)"""
    return F(round(F(v) * 2**20), 2**20)


ROT90 = [(1, 0, 0, 1), (0, -1, 1, 0), (-1, 0, 0, -1), (0, 1, -1, 0)]
PYTH = [(3, 4, 5), (4, 3, 5), (5, 12, 13), (8, 15, 17), (7, 24, 25), (20, 21, 29)]


def sec_rws(R: Run, M, Affine):
    rng = R.rng

    def mat_mul(P, Q):
        return (P[0] * Q[0] + P[1] * Q[2], P[0] * Q[1] + P[1] * Q[3], P[2] * Q[0] + P[3] * Q[2], P[2] * Q[1] + P[3] * Q[3])

    def run_case(a, b, d, e, c, f_, n, p, full: bool, tag: str):
        vals = [a, b, c, d, e, f_]
        if not all(isx(v) for v in vals):
            return
        A = Affine(*[float(v) for v in vals])
        res_l = []

        def g():
            o = M.decompose_rws(A)
            res_l.append(o)
            # Pythagorean class: LAPACK scales by the reciprocal of the (non power-of-two) column norm, so S22
            # carries rounding error; the model's value is a short dyadic and the real one is rounded to 2^-20
            return " ".join(aff_s(x) for x in o) if full else ";".join(frac_s(snap20(float(v))) for v in tuple(o[2])[:6])

        R.corr(f"c20 {'rws' if full else 'rwsS'} {aff_in(vals)} {frac_s(n)} {frac_s(p)}", g, sig=f"rws|{tag}")
        R.corr(f"c20 resaff {aff_in(vals)} {frac_s(n)} {frac_s(p)}",
               lambda: "{} {}".format(*[frac_s(v if full else snap20(v)) for v in M.resolution_from_affine(A).xy]),
               sig=f"resaff|{tag}")
        if res_l:
            rws_oracle(R, A, res_l[0], F(0) if full else F(1, 10**9))

    # full exact class: rotation by a multiple of 90 degrees, power-of-two scales, dyadic shear
    for _ in range(R.pick(600, 6000)):
        rot = rng.choice(ROT90)
        u11 = rng.choice([-1, 1]) * F(2) ** rng.randint(-6, 6)
        u22 = rng.choice([-1, 1]) * F(2) ** rng.randint(-6, 6)
        u12 = F(rng.randint(-64, 64), 16)
        a, b, d, e = mat_mul(tuple(F(v) for v in rot), (u11, u12, F(0), u22))
        n = abs(u11)
        p = abs(u22)
        run_case(a, b, d, e, F(rng.randint(-100, 100)), F(rng.randint(-100, 100)), n, p, True, "rot90")
    # Pythagorean columns: S (hence the resolution) is exact, R/W are not representable
    for _ in range(R.pick(600, 6000)):
        x, y, h = rng.choice(PYTH)
        sx_, sy_ = rng.choice([-1, 1]), rng.choice([-1, 1])
        rot = (F(sx_ * x), F(-sy_ * y), F(sy_ * y), F(sx_ * x))      # h * rotation
        u11 = rng.choice([-1, 1]) * F(rng.randint(1, 64), 2 ** rng.randint(0, 6))
        u22 = rng.choice([-1, 1]) * F(rng.randint(1, 64), 2 ** rng.randint(0, 6))
        u12 = F(rng.randint(-64, 64), 16)
        a, b, d, e = mat_mul(rot, (u11, u12, F(0), u22))
        n = h * abs(u11)
        p = h * abs(u22)
        run_case(a, b, d, e, F(rng.randint(-100, 100)), F(rng.randint(-100, 100)), n, p, False, "pythagorean")
    # pure scale/translation: resolution_from_affine takes the shortcut
    for _ in range(R.pick(300, 3000)):
        a, e = rnd_double(rng), rnd_double(rng)
        if a == 0 or e == 0:
            continue
        b = rng.choice([0.0, 0.0, 5e-11, -9.9e-11])
        A = Affine(a, b, rnd_double(rng), rng.choice([0.0, 1e-11]), e, rnd_double(rng))
        R.corr(f"c20 resaff {aff_in([F(v) for v in tuple(A)[:6]])} 1 1",
               lambda: "{} {}".format(*map(frac_s, M.resolution_from_affine(A).xy)), sig="resaff|st")
    # float stream
    for _ in range(R.pick(1500, 15000)):
        th = rng.uniform(-math.pi, math.pi)
        sx, sy = (rng.choice([-1, 1]) * 10.0 ** rng.uniform(-4, 4) for _ in range(2))
        w = rng.uniform(-2, 2)
        c, s = math.cos(th), math.sin(th)
        A = Affine(c * sx, (c * w - s) * sy, rng.uniform(-1e6, 1e6), s * sx, (s * w + c) * sy, rng.uniform(-1e6, 1e6))
        try:
            out = M.decompose_rws(A)
        except Exception as ex:  # pylint: disable=broad-except
            R.oracle(False, "decompose-rws-raises", {"A": aff_s(A)}, f"{ex!r}")
            continue
        rws_oracle(R, A, out, F(1, 10**8))
        rx, ry = M.resolution_from_affine(A).xy
        det = F(A.a) * F(A.e) - F(A.b) * F(A.d)
        n2 = F(A.a) ** 2 + F(A.d) ** 2
        ok = abs(F(rx) ** 2 - n2) <= n2 * F(1, 10**8) and abs(F(rx) * F(ry) - det) <= abs(det) * F(1, 10**8) and rx > 0
        R.oracle(ok, "resolution-from-affine-wrong", {"A": aff_s(A)}, f"res=({rx!r},{ry!r})", sig="resaff-f")


def rws_oracle(R: Run, A, out, rel: F):
    Rm, W, S = out
    fa = [F(float(v)) for v in tuple(A)[:6]]
    r = [F(float(v)) for v in tuple(Rm)[:6]]
    w = [F(float(v)) for v in tuple(W)[:6]]
    s = [F(float(v)) for v in tuple(S)[:6]]
    P = (Rm * W * S)
    pf = [F(float(v)) for v in tuple(P)[:6]]
    sc = max(abs(v) for v in (fa[0], fa[1], fa[3], fa[4]))
    tl = rel * sc
    # product computed exactly from the returned factors
    def mm(X, Y):
        return [X[0] * Y[0] + X[1] * Y[3], X[0] * Y[1] + X[1] * Y[4], X[0] * Y[2] + X[1] * Y[5] + X[2],
                X[3] * Y[0] + X[4] * Y[3], X[3] * Y[1] + X[4] * Y[4], X[3] * Y[2] + X[4] * Y[5] + X[5]]
    prod = mm(mm(r, w), s)
    ok_prod = all(abs(x - y) <= tl for x, y in zip(prod[:2] + prod[3:5], fa[:2] + fa[3:5])) and prod[2] == fa[2] and prod[5] == fa[5]
    ok_rot = (abs(r[0] * r[0] + r[3] * r[3] - 1) <= rel and abs(r[1] * r[1] + r[4] * r[4] - 1) <= rel
              and abs(r[0] * r[1] + r[3] * r[4]) <= rel and abs(r[0] * r[4] - r[1] * r[3] - 1) <= rel)
    ok_w = abs(w[0] - 1) <= rel and w[3] == 0 and abs(w[4] - 1) <= rel and w[2] == 0 and w[5] == 0
    ok_s = s[1] == 0 and s[3] == 0 and s[2] == 0 and s[5] == 0 and s[0] > 0
    R.oracle(ok_prod and ok_rot and ok_w and ok_s, "decompose-rws-contract", {"A": ";".join(frac_s(v) for v in fa)},
             f"R={tuple(Rm)[:6]} W={tuple(W)[:6]} S={tuple(S)[:6]} prod={ok_prod} rot={ok_rot} shear={ok_w} scale={ok_s}",
             sig="rws-exact" if rel == 0 else "rws-float")
    del pf


def sec_fit(R: Run, M, Affine):
    from odc.geo import xy_
    rng = R.rng

    for it in range(R.pick(600, 6000)):
        n = rng.randint(3, 8)
        pts = set()
        while len(pts) < n:
            pts.add((rng.randint(-16, 16), rng.randint(-16, 16)))
        pts = sorted(pts)
        rng.shuffle(pts)
        (x0, y0), (x1, y1), (x2, y2) = pts[:3]
        if all((px - x0) * (y1 - y0) == (py - y0) * (x1 - x0) for px, py in pts):
            continue        # all collinear: not "general position"
        Av = [F(rng.randint(-64, 64), 16) for _ in range(6)]
        X = [(F(px), F(py)) for px, py in pts]
        exact = rng.random() < 0.7
        Y = [(Av[0] * px + Av[1] * py + Av[2], Av[3] * px + Av[4] * py + Av[5]) for px, py in X]
        if not exact:
            Y = [(yx + F(rng.randint(-3, 3), 4), yy + F(rng.randint(-3, 3), 4)) for yx, yy in Y]
        res_l = []

        def f():
            A = M.affine_from_pts([xy_(float(px), float(py)) for px, py in X], [xy_(float(yx), float(yy)) for yx, yy in Y])
            res_l.append(A)
            return ";".join(frac_s(snap20(v)) for v in tuple(A)[:6])

        line = f"c20 fitaff {list_s(X, lambda q: frac_s(q[0]) + ';' + frac_s(q[1]))} {list_s(Y, lambda q: frac_s(q[0]) + ';' + frac_s(q[1]))}"
        if exact:
            R.corr(line, f, sig=f"fitaff|exact|n{n}")
        else:
            guarded(f)
        if res_l and exact:
            A = res_l[0]
            ok = all(abs(F(v) - w) <= F(1, 10**9) for v, w in zip(tuple(A)[:6], Av))
            R.oracle(ok, "affine-fit-does-not-reproduce-exact-mapping", {"line": line},
                     f"fitted {tuple(A)[:6]} for exact mapping {[float(v) for v in Av]}", sig="fitaff")
        elif res_l:
            # a least-squares minimiser: no worse than small perturbations of itself (first-order optimality)
            A = [F(v) for v in tuple(res_l[0])[:6]]

            def cost(Bv):
                return sum((Bv[0] * px + Bv[1] * py + Bv[2] - yx) ** 2 + (Bv[3] * px + Bv[4] * py + Bv[5] - yy) ** 2
                           for (px, py), (yx, yy) in zip(X, Y))

            c0 = cost(A)
            ok = all(cost([v + (dlt if i == j else 0) for j, v in enumerate(A)]) >= c0 - F(1, 10**9)
                     for i in range(6) for dlt in (F(1, 1000), F(-1, 1000)))
            R.oracle(ok, "affine-fit-not-a-minimiser", {"line": line}, f"{tuple(res_l[0])[:6]}", sig="fitaff-noisy")
    # point sets whose spread is tiny compared with their distance from the origin (stencils around far pixels, small
    # clusters at projected coordinates): spread x centre matrix, exactly affine data with dyadic A (every Y exactly
    # representable), two-sided against A with a tolerance from the conditioning of the CENTRED problem:
    # a perturbation eps*|Y| of the data moves the slopes by eps*|Y|/spread ~ eps*(1 + |centre|/spread)*|A|
    EPS = 2.0 ** -52
    stencil = [(0, 0), (-1, 0), (0, -1), (1, 0), (0, 1)]
    for centre in (0, 1000, 70000, 10**6, 10**7, 10**9):
        for spread in (F(1, 1024), F(1, 32), F(1), F(32), F(1024)):
            for rep in range(R.pick(4, 24)):
                cx, cy = rng.choice([-1, 1]) * (centre + rng.randint(0, 50)), rng.choice([-1, 1]) * (centre + rng.randint(0, 50))
                if rng.random() < 0.5:
                    offs = stencil
                else:
                    offs = set()
                    while len(offs) < rng.randint(3, 8):
                        offs.add((rng.randint(-4, 4), rng.randint(-4, 4)))
                    offs = sorted(offs)
                    (x0, y0), (x1, y1) = offs[0], offs[1]
                    if all((px - x0) * (y1 - y0) == (py - y0) * (x1 - x0) for px, py in offs):
                        continue
                X = [(F(cx) + spread * dx, F(cy) + spread * dy) for dx, dy in offs]
                Av = [F(rng.randint(-64, 64), 16) for _ in range(6)]
                if Av[0] * Av[4] - Av[1] * Av[3] == 0:
                    continue
                Y = [(Av[0] * px + Av[1] * py + Av[2], Av[3] * px + Av[4] * py + Av[5]) for px, py in X]
                if not all(isx(v) for q in X + Y for v in q):
                    R.count("fitaff:cluster-skipped-inexact")
                    continue
                ratio = 1 + F(max(abs(cx), abs(cy))) / spread
                amax = max(abs(v) for v in Av[:2] + Av[3:5]) + F(1, 16)
                tol_lin = 256 * F(EPS) * ratio * amax
                ymax = max(abs(v) for q in Y for v in q) + 1
                case = {"X": [[float(a), float(b)] for a, b in X], "A": [float(v) for v in Av], "centre": [cx, cy], "spread": float(spread)}
                try:
                    Aout = M.affine_from_pts([xy_(float(px), float(py)) for px, py in X], [xy_(float(yx), float(yy)) for yx, yy in Y])
                except Exception as ex:  # pylint: disable=broad-except
                    R.oracle(False, "affine-fit-ill-conditioned-cluster", case, f"raised {ex!r}", sig="fitaff-cluster")
                    continue
                g = [F(v) for v in tuple(Aout)[:6]]
                lin_err = max(abs(g[i] - Av[i]) for i in (0, 1, 3, 4))
                # translation judged where it matters: the image of the cluster centre
                pc = (g[0] * cx + g[1] * cy + g[2], g[3] * cx + g[4] * cy + g[5])
                tc = (Av[0] * cx + Av[1] * cy + Av[2], Av[3] * cx + Av[4] * cy + Av[5])
                c_err = max(abs(pc[0] - tc[0]), abs(pc[1] - tc[1]))
                tol_c = 256 * F(EPS) * ymax + tol_lin * spread * 8
                R.oracle(lin_err <= tol_lin and c_err <= tol_c, "affine-fit-ill-conditioned-cluster", case,
                         f"affine_from_pts = {tuple(Aout)[:6]}; exact mapping {[float(v) for v in Av]}: linear part off by {float(lin_err):.3g} "
                         f"(allowed {float(tol_lin):.3g}), image of the cluster centre off by {float(c_err):.3g} (allowed {float(tol_c):.3g})",
                         sig=f"fitaff-cluster|c{centre}|s{float(spread):g}")
    # the real call site: get_scale_at_point around far pixels, linear pixel-to-pixel transforms with Pythagorean columns
    from odc.geo.overlap import get_scale_at_point
    for centre in (0, 1000, 70000, 10**6, 10**7):
        for rep in range(R.pick(6, 40)):
            x_, y_, h = rng.choice(PYTH)
            p_, q_ = F(rng.randint(1, 64), 16), F(rng.randint(1, 64), 16)
            sgn = rng.choice([-1, 1])
            Av = [x_ * p_, -sgn * y_ * q_, F(rng.randint(-1000, 1000)), y_ * p_, sgn * x_ * q_, F(rng.randint(-1000, 1000))]
            Af = Affine(*[float(v) for v in Av])
            pt = xy_(float(centre + rng.randint(0, 100)), float(centre + rng.randint(0, 100)))
            r = rng.choice([None, None, 0.5, 4.0])
            want = (h * p_, h * q_)
            case = {"A": [float(v) for v in Av], "pt": [pt.x, pt.y], "r": r}
            try:
                sc = get_scale_at_point(pt, lambda pts: [xy_(*(Af * p.xy)) for p in pts], r)
                ratio = 1 + F(max(abs(pt.x), abs(pt.y))) / F(1 if r is None else r)
                tol = 1024 * F(EPS) * ratio * max(want) + F(1, 10**12)
                ok = abs(F(sc.x) - want[0]) <= tol and abs(F(sc.y) - want[1]) <= tol
                R.oracle(ok, "get-scale-at-point-wrong-at-far-pixel", case,
                         f"get_scale_at_point = ({sc.x!r},{sc.y!r}); the transform is linear with scales ({float(want[0])},{float(want[1])}) "
                         f"(allowed {float(tol):.3g})", sig=f"scale-at-point|c{centre}")
            except Exception as ex:  # pylint: disable=broad-except
                R.oracle(False, "get-scale-at-point-wrong-at-far-pixel", case, f"raised {ex!r}", sig="scale-at-point")
    for bad in ([(0, 0), (1, 1)], []):
        R.corr(f"c20 fitaff {list_s(bad, lambda q: f'{q[0]};{q[1]}')} {list_s(bad, lambda q: f'{q[0]};{q[1]}')}",
               lambda: aff_s(M.affine_from_pts([xy_(*q) for q in bad], [xy_(*q) for q in bad])), sig="fitaff|too-few")
    R.corr("c20 fitaff [0;0,1;1,2;2] [0;0,1;1]",
           lambda: aff_s(M.affine_from_pts([xy_(0, 0), xy_(1, 1), xy_(2, 2)], [xy_(0, 0), xy_(1, 1)])), sig="fitaff|len-mismatch")

    # Poly2d.fit reproduces exactly representable mappings (affine for N=3, bilinear for 4..8, biquadratic >= 9)
    for it in range(R.pick(150, 1500)):
        n = rng.choice([3, 4, 5, 8, 9, 12, 20])
        pts = set()
        while len(pts) < n:
            pts.add((rng.randint(-20, 20), rng.randint(-20, 20)))
        pts = sorted(pts)
        aa = np.asarray(pts, dtype="float64")
        k = 3 if n >= 9 else 2
        cc = np.zeros((k, k, 2))
        for i in range(k):
            for j in range(k):
                if n == 3 and i + j > 1:
                    continue
                cc[i, j, :] = [rng.randint(-16, 16) / 8 / (10 ** (i + j)), rng.randint(-16, 16) / 8 / (10 ** (i + j))]
        from numpy.polynomial.polynomial import polyval2d
        bb = polyval2d(aa[:, 0], aa[:, 1], cc).T
        # general position for the design matrix: full column rank
        x, y = aa.T
        cols = [np.ones(n), y, y * y, x, x * y, x * y * y, x * x, x * x * y, x * x * y * y] if k == 3 else (
            [np.ones(n), y, x, x * y] if n >= 4 else [np.ones(n), y, x])
        D = np.stack(cols, axis=1)
        sv = np.linalg.svd(D, compute_uv=False)
        if sv[-1] < 1e-6 * sv[0]:
            continue
        try:
            P = M.Poly2d.fit(aa, bb)
            got = P(aa)
            err = float(np.abs(got - bb).max())
            scale = max(1.0, float(np.abs(bb).max()))
            R.oracle(err <= 1e-7 * scale, "poly2d-fit-does-not-reproduce-exact-mapping",
                     {"pts": [list(p) for p in pts], "cc": cc.tolist()}, f"max error {err} (scale {scale})", sig=f"polyfit|n{n}")
        except Exception as ex:  # pylint: disable=broad-except
            R.oracle(False, "poly2d-fit-raises", {"pts": [list(p) for p in pts]}, f"{ex!r}")
    # regular grids and other point sets with a point exactly on the centroid (GCP grids look like this)
    from numpy.polynomial.polynomial import polyval2d as _pv2

    def grid_case(pts, cc, tag):
        aa = np.asarray(pts, dtype="float64")
        bb = _pv2(aa[:, 0], aa[:, 1], cc).T
        case = {"pts": [list(map(float, q)) for q in pts], "cc": np.asarray(cc).tolist()}
        try:
            P = M.Poly2d.fit(aa, bb)
            got = P(aa)
            err = float(np.abs(got - bb).max()) if np.all(np.isfinite(got)) else float("inf")
            scale = max(1.0, float(np.abs(bb).max()))
            R.oracle(err <= 1e-7 * scale, "poly-fit-fails-centroid-point", case,
                     f"Poly2d.fit on a point set containing its centroid: max error {err} (scale {scale})", sig=f"polyfit|{tag}")
        except Exception as ex:  # pylint: disable=broad-except
            R.oracle(False, "poly-fit-fails-centroid-point", case,
                     f"Poly2d.fit on a point set containing its centroid raised {ex!r}", sig=f"polyfit|{tag}")
        try:
            X, A = M.norm_xy(aa.copy())
            dist = np.sqrt((X ** 2).sum(axis=1))
            ok = (np.all(np.isfinite(X)) and abs(float(dist.mean()) - math.sqrt(2)) < 1e-9 and float(np.abs(X.mean(axis=0)).max()) < 1e-9
                  and float(np.abs(np.asarray([A * (float(x), float(y)) for x, y in aa]) - X).max()) < 1e-9)
            R.oracle(ok, "norm-xy-contract", case,
                     f"norm_xy: mean distance {float(dist.mean())!r} (want sqrt 2), mean {X.mean(axis=0)!r}, A={tuple(A)[:6]}", sig=f"normxy|{tag}")
        except Exception as ex:  # pylint: disable=broad-except
            R.oracle(False, "norm-xy-contract", case, f"norm_xy raised {ex!r}", sig=f"normxy|{tag}")

    def rnd_cc(k, affine_only=False):
        cc = np.zeros((k, k, 2))
        for i in range(k):
            for j in range(k):
                if affine_only and i + j > 1:
                    continue
                cc[i, j, :] = [rng.randint(-16, 16) / 8 / (10 ** (i + j)), rng.randint(-16, 16) / 8 / (10 ** (i + j))]
        return cc

    grid_case([(x, y) for y in range(3) for x in range(3)], np.asarray([[[1, 1], [0, 2]], [[2, 0], [0, 0]]], dtype="float64"), "grid3x3-2x+1")
    for _ in range(R.pick(60, 600)):
        nx, ny = rng.choice([3, 5, 7]), rng.choice([3, 5, 7])        # odd x odd grids contain their centroid
        sx, sy = rng.choice([1, 10, 100, 0.5]), rng.choice([1, 10, 100, 0.5])
        ox, oy = rng.randint(-1000, 1000), rng.randint(-1000, 1000)
        pts = [(ox + sx * i, oy + sy * j) for j in range(ny) for i in range(nx)]
        grid_case(pts, rnd_cc(3), f"grid{min(nx, ny)}")
    for _ in range(R.pick(40, 400)):
        # symmetric cross / square + centre, n = 5 (bilinear fit) ; triangle + centroid, n = 4
        c = (rng.randint(-50, 50), rng.randint(-50, 50))
        d = rng.randint(1, 20)
        if rng.random() < 0.5:
            pts = [(c[0] - d, c[1] - d), (c[0] + d, c[1] - d), (c[0] - d, c[1] + d), (c[0] + d, c[1] + d), c]
        else:
            pts = [(c[0] - 3 * d, c[1]), (c[0] + 3 * d, c[1] - 3 * d), (c[0], c[1] + 3 * d), c]
        grid_case(pts, rnd_cc(2), "centre-point")
    for _ in range(R.pick(40, 400)):
        n = rng.randint(3, 12)
        pts = [(rng.uniform(-1e4, 1e4), rng.uniform(-1e4, 1e4)) for _ in range(n)]
        try:
            X, A = M.norm_xy(np.asarray(pts))
            dist = np.sqrt((X ** 2).sum(axis=1))
            ok = abs(float(dist.mean()) - math.sqrt(2)) < 1e-9 and float(np.abs(X.mean(axis=0)).max()) < 1e-9
        except Exception:  # pylint: disable=broad-except
            ok = False
        R.oracle(ok, "norm-xy-contract", {"pts": [list(q) for q in pts]}, "norm_xy: mean distance is not sqrt(2) / mean not 0", sig="normxy|rnd")
    r = guarded(lambda: str(M.Poly2d.fit(np.zeros((2, 2)), np.zeros((2, 2)))))
    R.oracle(r == "ERR:ValueError", "poly2d-fit-accepts-two-points", {}, r, trivial=True)


def sec_fit_types(R: Run, M, Affine):
    """numeric-type dimension of the fits: the SAME exactly representable mapping with the point coordinates typed as python
    int / float, numpy float64 / float32 / int64 / int32 / int16 (whole lists, and mixed per point), sources and targets
    independently, through affine_from_pts, Poly2d.fit and the GCP entry points (GCPMapping(pix, wld).approx / .p2w, from XY
    lists and from ndarrays).  The values are identical in every spelling (half-integer pixel centres, whole-number or
    short dyadic world coordinates are exact in all of these types), so the exact mapping must be reproduced whatever the
    type; affine_from_pts is also compared with the Lean model on the same line."""
    from odc.geo import xy_
    from odc.geo.gcp import GCPMapping
    rng = R.rng
    INT_T = {"int": int, "np.int64": np.int64, "np.int32": np.int32, "np.int16": np.int16}
    FLT_T = {"float": float, "np.float64": np.float64, "np.float32": np.float32}

    def typed(vals, integral: bool):
        """one spelling of a list of exact values: (python objects, tag)"""
        pool = dict(FLT_T)
        if integral:
            pool.update(INT_T)
            if max(abs(v) for q in vals for v in q) >= 2**15:
                del pool["np.int16"]
        if rng.random() < 0.25:
            names = [rng.choice(sorted(pool)) for _ in vals]
            return [tuple(pool[nm](float(v) if nm in FLT_T else int(v)) for v in q) for q, nm in zip(vals, names)], "mixed"
        nm = rng.choice(sorted(pool))
        return [tuple(pool[nm](float(v) if nm in FLT_T else int(v)) for v in q) for q in vals], nm

    for _ in range(R.pick(500, 5000)):
        n = rng.randint(3, 9)
        ij = set()
        while len(ij) < n:
            ij.add((rng.randint(-12, 12), rng.randint(-12, 12)))
        ij = sorted(ij)
        rng.shuffle(ij)
        (x0, y0), (x1, y1) = ij[0], ij[1]
        if all((px - x0) * (y1 - y0) == (py - y0) * (x1 - x0) for px, py in ij):
            continue
        centres = rng.random() < 0.6                 # pixel centres (k + 1/2) as sources
        X = [(F(i) + F(1, 2), F(j) + F(1, 2)) for i, j in ij] if centres else [(F(i), F(j)) for i, j in ij]
        whole = rng.random() < 0.6                   # whole-number targets (a ground-control table in whole metres)
        if whole:
            a, b, d, e = (F(2 * rng.randint(-6, 6)) if centres else F(rng.randint(-12, 12)) for _ in range(4))
            c, f_ = F(rng.randint(-10**6, 10**6)), F(rng.randint(-10**6, 10**6))
            if centres:
                # odd multiples are fine too when the half-pixel terms cancel in the translation
                a, b, d, e = a + rng.choice([0, 1]), b, d, e + rng.choice([0, 1])
                c, f_ = c - (a + b) / 2 + F((a + b) % 2, 2) * 0, f_
                c = F(rng.randint(-10**6, 10**6)) - (a + b) / 2
                f_ = F(rng.randint(-10**6, 10**6)) - (d + e) / 2
        else:
            a, b, d, e = (F(rng.randint(-64, 64), 16) for _ in range(4))
            c, f_ = F(rng.randint(-1000, 1000), 4), F(rng.randint(-1000, 1000), 4)
        Av = [a, b, c, d, e, f_]
        if a * e - b * d == 0:
            continue
        Y = [(a * x + b * y + c, d * x + e * y + f_) for x, y in X]
        y_int = all(v.denominator == 1 for q in Y for v in q)
        x_int = not centres
        if not all(isx(v) and F(float(np.float32(float(v)))) == v for q in X + Y for v in q):
            continue                                  # every spelling must carry the same values (float32 included)
        Yt, ytag = typed(Y, y_int)
        Xt, xtag = typed(X, x_int)
        route = rng.choice(["affine_from_pts", "affine_from_pts", "GCPMapping.approx", "GCPMapping.approx-arrays", "GCPMapping.p2w"])
        line = f"c20 fitaff {list_s(X, lambda q: frac_s(q[0]) + ';' + frac_s(q[1]))} {list_s(Y, lambda q: frac_s(q[0]) + ';' + frac_s(q[1]))}"
        case = {"line": line, "route": route, "x_type": xtag, "y_type": ytag, "A": [float(v) for v in Av],
                "X": repr(Xt), "Y": repr(Yt)}
        res_l = []
        cls = lambda t: "mixed" if t == "mixed" else "int-typed" if t in INT_T else "float-typed"
        sig = f"fit-types|{route}|x={cls(xtag)}|y={cls(ytag)}"
        R.count(f"fit-types:x={xtag}")
        R.count(f"fit-types:y={ytag}")
        if route == "affine_from_pts":
            def f():
                A = M.affine_from_pts([xy_(*q) for q in Xt], [xy_(*q) for q in Yt])
                res_l.append(A)
                return ";".join(frac_s(snap20(v)) for v in tuple(A)[:6])

            R.corr(line, f, sig=sig)
        elif route.startswith("GCPMapping.approx"):
            def f():
                if route.endswith("arrays") and xtag != "mixed" and ytag != "mixed":
                    gm = GCPMapping(np.asarray(Xt), np.asarray(Yt), "epsg:3857")
                else:
                    gm = GCPMapping([xy_(*q) for q in Xt], [xy_(*q) for q in Yt], "epsg:3857")
                A = gm.approx
                res_l.append(A)
                return ";".join(frac_s(snap20(v)) for v in tuple(A)[:6])

            R.corr(line, f, sig=sig)
        else:
            try:
                gm = GCPMapping([xy_(*q) for q in Xt], [xy_(*q) for q in Yt], "epsg:3857")
                got = np.asarray(gm.p2w(np.asarray([[float(x), float(y)] for x, y in X])))
                want = np.asarray([[float(u), float(v)] for u, v in Y])
                sc = max(1.0, float(np.abs(want).max()))
                err = float(np.abs(got - want).max()) / sc
                tolr = 1e-4 if "float32" in (xtag, ytag) or "mixed" in (xtag, ytag) else 1e-7
                R.oracle(err <= tolr, "poly2d-fit-does-not-reproduce-exact-mapping", case,
                         f"GCPMapping(pix[{xtag}], wld[{ytag}]).p2w: max relative error {err:.3g} on an exactly affine table", sig=sig)
            except Exception as ex:  # pylint: disable=broad-except
                R.oracle(False, "poly2d-fit-raises", case, repr(ex), sig=sig)
            continue
        if res_l:
            A = res_l[0]
            ok = all(abs(F(v) - w) <= F(1, 10**8) * max(1, abs(w)) for v, w in zip(tuple(A)[:6], Av))
            R.oracle(ok, "affine-fit-does-not-reproduce-exact-mapping", case,
                     f"{route} with sources typed {xtag}, targets typed {ytag}: fitted {tuple(A)[:6]} for the exact mapping {[float(v) for v in Av]}",
                     sig=sig)
        else:
            R.oracle(False, "affine-fit-raises-on-typed-points", case, f"{route} raised for sources typed {xtag}, targets typed {ytag}", sig=sig)

    # Poly2d.fit with the correspondences as arrays of every dtype
    from numpy.polynomial.polynomial import polyval2d
    for _ in range(R.pick(250, 2500)):
        n = rng.choice([3, 4, 5, 8, 9, 12, 20])
        pts = set()
        while len(pts) < n:
            pts.add((rng.randint(-20, 20), rng.randint(-20, 20)))
        pts = sorted(pts)
        aa = np.asarray(pts, dtype="float64")
        k = 3 if n >= 9 else 2
        whole = rng.random() < 0.6
        cc = np.zeros((k, k, 2))
        for i in range(k):
            for j in range(k):
                if n == 3 and i + j > 1:
                    continue
                cc[i, j, :] = ([rng.randint(-4, 4), rng.randint(-4, 4)] if whole else
                               [rng.randint(-16, 16) / 8 / (10 ** (i + j)), rng.randint(-16, 16) / 8 / (10 ** (i + j))])
        bb = polyval2d(aa[:, 0], aa[:, 1], cc).T
        x, y = aa.T
        cols = [np.ones(n), y, y * y, x, x * y, x * y * y, x * x, x * x * y, x * x * y * y] if k == 3 else (
            [np.ones(n), y, x, x * y] if n >= 4 else [np.ones(n), y, x])
        sv = np.linalg.svd(np.stack(cols, axis=1), compute_uv=False)
        if sv[-1] < 1e-6 * sv[0]:
            continue
        dta = rng.choice(["float64", "float32", "int64", "int32", "int16"])
        dtb = rng.choice(["float64", "float32", "int64", "int32"] if whole and float(np.abs(bb).max()) < 2**23 else ["float64", "float64", "float32"])
        if dtb == "float32" and not whole:
            bb = bb.astype("float32").astype("float64")        # the targets the float32 spelling actually carries
        case = {"pts": [list(p) for p in pts], "cc": cc.tolist(), "aa_dtype": dta, "bb_dtype": dtb}
        try:
            P = M.Poly2d.fit(aa.astype(dta), bb.astype(dtb))
            got = P(aa)
            err = float(np.abs(got - bb).max())
            scale = max(1.0, float(np.abs(bb).max()))
            tolr = 1e-4 if "float32" in (dta, dtb) else 1e-7
            R.oracle(err <= tolr * scale, "poly2d-fit-does-not-reproduce-exact-mapping", case,
                     f"Poly2d.fit(aa[{dta}], bb[{dtb}]): max error {err} (scale {scale})", sig=f"polyfit-types|a={dta}|b={dtb}")
        except Exception as ex:  # pylint: disable=broad-except
            R.oracle(False, "poly2d-fit-raises", case, f"{ex!r}", sig=f"polyfit-types|a={dta}|b={dtb}")


def sec_bin(R: Run, M):
    rng = R.rng

    def one(sz: F, origin: F, d: int, q: F, idx: int, tag: str):
        x = origin + q * sz
        if not all(isx(v) for v in (sz, origin, x, q, x - origin, idx * sz * d + origin, idx * sz * d + origin + sz)):
            return
        res_l = []

        def mk():
            return M.Bin1D(float(sz), float(origin), d)

        def fb():
            o = mk().bin(float(x))
            res_l.append(o)
            return str(o)

        R.corr(f"c20 bin {frac_s(sz)} {frac_s(origin)} {d} {frac_s(x)}", fb, sig=f"bin|{tag}|d{d}")
        iv = []

        def fi():
            o = mk()[idx]
            iv.append(o)
            return f"{frac_s(o[0])} {frac_s(o[1])}"

        R.corr(f"c20 interval {frac_s(sz)} {frac_s(origin)} {d} {idx}", fi, sig=f"interval|{tag}|d{d}")
        if res_l:
            lo, hi = mk()[res_l[0]]
            R.oracle(F(lo) <= x < F(hi), "bin1d-point-not-in-its-bin", {"sz": frac_s(sz), "origin": frac_s(origin), "dir": d, "x": frac_s(x)},
                     f"bin({float(x)})={res_l[0]} whose interval is [{lo},{hi})", sig="bin")
        if iv:
            sb = []

            def fs():
                o = M.Bin1D.from_sample_bin(idx, iv[0], d)
                sb.append(o)
                return f"{frac_s(o.sz)} {frac_s(o.origin)} {o.direction}"

            R.corr(f"c20 fsb {idx} {frac_s(iv[0][0])} {frac_s(iv[0][1])} {d}", fs, sig=f"fsb|{tag}")
            if sb:
                R.oracle(sb[0] == mk(), "bin1d-from-sample-bin-differs", {"sz": frac_s(sz), "origin": frac_s(origin), "dir": d, "idx": idx},
                         f"{sb[0].sz},{sb[0].origin},{sb[0].direction}", sig="fsb")
            mid = (F(iv[0][0]) + F(iv[0][1])) / 2
            if isx(mid) and isx((mid - origin) / sz) and isx(mid - origin):
                R.oracle(mk().bin(float(mid)) == idx and mk().bin(iv[0][0]) == idx, "bin1d-interval-maps-to-other-bin",
                         {"sz": frac_s(sz), "origin": frac_s(origin), "dir": d, "idx": idx},
                         f"bin(mid of self[{idx}]) = {mk().bin(float(mid))}", sig="bin-inv")

    for sz in (F(1), F(1, 2), F(3), F(10), F(3, 4)):
        for origin in (F(0), F(1, 2), F(-7), F(401, 4)):
            for d in (1, -1):
                for k in range(-14, 15):
                    one(sz, origin, d, F(k, 4), rng.randint(-5, 5), "small")
    for _ in range(R.pick(1500, 15000)):
        sz = F(rng.randint(1, 2000), 2 ** rng.randint(0, 8))
        origin = F(rng.randint(-10**6, 10**6), 2 ** rng.randint(0, 4))
        q = F(rng.randint(-2**20, 2**20), 2 ** rng.randint(0, 6))
        one(sz, origin, rng.choice([1, -1]), q, rng.randint(-1000, 1000), "rnd")
    for _ in range(R.pick(1500, 15000)):        # points a hair away from bin edges, power-of-two bin sizes
        sz = F(2) ** rng.randint(-6, 6)
        origin = rng.choice([F(0), F(0), F(rng.randint(-64, 64)) * sz])
        q = F(rng.choice(near(float(rng.randint(-40, 40)))))
        one(sz, origin, rng.choice([1, -1]), q, rng.randint(-5, 5), "near-edge")
    for (sz, o, d) in [(0, 0, 1), (-1, 0, 1), (1, 0, 0), (1, 0, 2)]:
        R.corr(f"c20 bin {sz} {o} {d} 0", lambda: str(M.Bin1D(sz, o, d).bin(0)), sig="bin|bad-args")
    R.corr("c20 fsb 3 5 5 1", lambda: str(M.Bin1D.from_sample_bin(3, (5, 5), 1)), sig="fsb|bad-args")
    R.corr("c20 fsb 3 5 4 -1", lambda: str(M.Bin1D.from_sample_bin(3, (5, 4), -1)), sig="fsb|bad-args")
    # non-dyadic bin sizes, points EXACTLY on the edges the code itself reports (self[k]) and on k*sz+origin, and one ulp
    # either side.  IEEE rounding makes the reported intervals overlap / leave gaps of an ulp, so containment is judged
    # with a slack of a few ulps; the decision itself is pinned by the documented formula evaluated in binary64 in the
    # code's order: direction * floor(fl(fl(x - origin) / sz))
    origins = [0.0, 0.0, 0.1, -7.3, 100.25, 1e6 + 0.1, -1 / 3]
    for sz in NONDY:
        for origin in origins:
            for d in (1, -1):
                try:
                    bn = M.Bin1D(sz, origin, d)
                except Exception as ex:  # pylint: disable=broad-except
                    R.oracle(False, "bin1d-raises", {"sz": sz, "origin": origin, "dir": d}, repr(ex))
                    continue
                ks = [0, 1, -1, 2, 3, 7, 9, 10, -10, 49, 100, 1000, -1000] + [rng.randint(-10**4, 10**4) for _ in range(R.pick(6, 40))]
                for k in ks:
                    lo_k, hi_k = bn[k]
                    for e in (lo_k, hi_k, k * sz + origin, (k * sz) * d + origin):
                        for x in ulp3(e):
                            case = {"sz": frac_s(sz), "origin": frac_s(origin), "dir": d, "x": frac_s(x), "sz_float": repr(sz), "x_float": repr(x)}
                            try:
                                i = bn.bin(x)
                                lo, hi = bn[i]
                            except Exception as ex:  # pylint: disable=broad-except
                                R.oracle(False, "bin1d-raises", case, repr(ex))
                                continue
                            want = int(d * math.floor((x - origin) / sz))
                            R.oracle(i == want, "bin1d-differs-from-float-reference", case,
                                     f"Bin1D({sz!r},{origin!r},{d}).bin({x!r}) = {i} but direction*floor((x-origin)/sz) in binary64 = {want}; "
                                     f"self[{i}] = [{lo!r},{hi!r})", sig="bin-float-ref")
                            sl = 4 * max(math.ulp(x), math.ulp(origin), math.ulp(lo), math.ulp(hi))
                            R.oracle(lo - sl <= x < hi + sl, "bin1d-point-not-in-its-bin", case,
                                     f"bin({x!r})={i} whose reported interval is [{lo!r},{hi!r})", sig="bin-edge-f")
    # float stream
    for _ in range(R.pick(2000, 20000)):
        sz = 10.0 ** rng.uniform(-3, 5)
        origin = rng.uniform(-1e6, 1e6)
        d = rng.choice([1, -1])
        x = origin + rng.uniform(-1e4, 1e4) * sz
        b = M.Bin1D(sz, origin, d)
        i = b.bin(x)
        lo, hi = b[i]
        slack = 1e-9 * max(abs(x), abs(origin), sz)
        R.oracle(lo - slack <= x < hi + slack, "bin1d-point-not-in-its-bin",
                 {"sz": frac_s(sz), "origin": frac_s(origin), "dir": d, "x": frac_s(x)},
                 f"bin({x!r})={i} whose interval is [{lo!r},{hi!r})", sig="bin-f")


def _aff_apply_exact(A, x, y):
    """A*(x, y) with every partial result checked for exact representability (both evaluation orders the
    code may use: `A * (x, y)` and the scale/translation shortcut)"""
    parts = [A[0] * x, A[1] * y, A[0] * x + A[1] * y, A[0] * x + A[1] * y + A[2], A[0] * x + A[2],
             A[3] * x, A[4] * y, A[3] * x + A[4] * y, A[3] * x + A[4] * y + A[5], A[4] * y + A[5]]
    return all(isx(v) for v in parts), (parts[3], parts[8]), (parts[4], parts[9])


def _horner_exact(cc, k, xs, ys):
    """numpy polyval2d order (Horner in x, then in y) on Fractions; False if any partial is inexact"""
    for comp in (0, 1):
        col = []
        for j in range(k):
            h = cc[(k - 1) * k + j][comp]
            for i in range(k - 2, -1, -1):
                pr = h * xs
                h = cc[i * k + j][comp] + pr
                if not (isx(pr) and isx(h)):
                    return False
            col.append(h)
        h = col[k - 1]
        for j in range(k - 2, -1, -1):
            pr = h * ys
            h = col[j] + pr
            if not (isx(pr) and isx(h)):
                return False
    return True


def _aff_mul_exact(P, Q):
    prods = [P[0] * Q[0], P[1] * Q[3], P[0] * Q[1], P[1] * Q[4], P[0] * Q[2], P[1] * Q[5],
             P[3] * Q[0], P[4] * Q[3], P[3] * Q[1], P[4] * Q[4], P[3] * Q[2], P[4] * Q[5]]
    out = [prods[0] + prods[1], prods[2] + prods[3], prods[4] + prods[5] + P[2],
           prods[6] + prods[7], prods[8] + prods[9], prods[10] + prods[11] + P[5]]
    ok = all(isx(v) for v in prods + out + [prods[4] + prods[5], prods[10] + prods[11]])
    return ok, out


def sec_poly(R: Run, M, Affine):
    rng = R.rng

    def rnd_aff(kind: str):
        if kind == "st":
            return [F(rng.choice([-1, 1]) * rng.randint(1, 16), 8), F(0), F(rng.randint(-40, 40), 4),
                    F(0), F(rng.choice([-1, 1]) * rng.randint(1, 16), 8), F(rng.randint(-40, 40), 4)]
        if kind == "tiny":    # one off-diagonal term below Poly2d's former absolute tolerance 1e-6, not zero
            return [F(rng.randint(1, 16), 8), F(rng.choice([-1, 1]), 2**20), F(rng.randint(-40, 40), 4),
                    F(0), F(rng.randint(1, 16), 8), F(rng.randint(-40, 40), 4)]
        return [F(rng.randint(-16, 16), 8), F(rng.choice([-1, 1]) * rng.randint(1, 16), 8), F(rng.randint(-40, 40), 4),
                F(rng.choice([-1, 1]) * rng.randint(1, 16), 8), F(rng.randint(-16, 16), 8), F(rng.randint(-40, 40), 4)]

    for _ in range(R.pick(2500, 25000)):
        ka, kb = rng.choice([("st", "st"), ("st", "rot"), ("rot", "st"), ("rot", "rot"), ("st", "tiny"), ("tiny", "st")])
        tiny = "tiny" in (ka, kb)
        k = 2 if tiny else rng.choice([2, 3])
        cc = [(F(rng.randint(-8, 8), 4), F(rng.randint(-8, 8), 4)) for _ in range(k * k)]
        A1, A2 = rnd_aff(ka), rnd_aff(kb)
        x, y = F(rng.randint(-32, 32), 4), F(rng.randint(-32, 32), 4)
        if tiny:
            y = F(rng.randint(1, 16) * 2**10)
        arr = np.asarray([[float(c[0]), float(c[1])] for c in cc], dtype="float64").reshape(k, k, 2)
        P = M.Poly2d(arr, Affine(*[float(v) for v in A1]))
        cc_s = list_s(cc, lambda q: frac_s(q[0]) + ";" + frac_s(q[1]))
        ok1, full1, short1 = _aff_apply_exact(A1, x, y)
        ex1 = ok1 and _horner_exact(cc, k, *full1) and _horner_exact(cc, k, *short1)
        e1 = []

        def f1():
            o = P(float(x), float(y))
            e1.append(o)
            return f"{frac_s(float(o[0]))};{frac_s(float(o[1]))}"

        if ex1:
            R.corr(f"c20 poly {k} {cc_s} {aff_in(A1)} {frac_s(x)} {frac_s(y)}", f1, sig=f"poly|k{k}|{ka}")
            if e1:
                xs, ys = full1
                want = tuple(sum(cc[i * k + j][c] * xs ** i * ys ** j for i in range(k) for j in range(k)) for c in (0, 1))
                R.oracle((F(float(e1[0][0])), F(float(e1[0][1]))) == want, "poly2d-eval-differs-from-exact-recomputation",
                         {"k": k, "cc": cc_s, "A": aff_in(A1), "x": frac_s(x), "y": frac_s(y)},
                         f"Poly2d(x,y) = {list(e1[0])} but sum cc[i][j] x'^i y'^j = {[float(v) for v in want]}", sig="poly-2sided")
        else:
            R.count("poly:skipped-inexact")
        okm, A12 = _aff_mul_exact(A1, A2)
        ok2, full2, short2 = _aff_apply_exact(A12, x, y)
        ok3, a2xy, _ = _aff_apply_exact(A2, x, y)
        ok4, full4, short4 = _aff_apply_exact(A1, *a2xy)
        ex2 = (okm and ok2 and ok3 and ok4 and _horner_exact(cc, k, *full2) and _horner_exact(cc, k, *short2)
               and _horner_exact(cc, k, *full4) and _horner_exact(cc, k, *short4))
        if not ex2:
            R.count("polywith:skipped-inexact")
            continue
        e2 = []

        def f2():
            o = P.with_input_transform(Affine(*[float(v) for v in A2]))(float(x), float(y))
            e2.append(o)
            return f"{frac_s(float(o[0]))};{frac_s(float(o[1]))}"

        R.corr(f"c20 polywith {k} {cc_s} {aff_in(A1)} {aff_in(A2)} {frac_s(x)} {frac_s(y)}", f2, sig=f"polywith|k{k}|{ka}|{kb}")
        if e2:
            # eval (p.with A2) (x, y) == eval p (A2 (x, y)); every operation is exact on these operands
            ax, ay = a2xy
            want = guarded(lambda: ";".join(frac_s(float(v)) for v in P(float(ax), float(ay))))
            got = ";".join(frac_s(float(v)) for v in e2[0])
            R.oracle(want == got,
                     "poly2d-input-transform-ignores-small-rotation" if tiny else "poly2d-input-transform-composition",
                     {"k": k, "cc": cc_s, "A": aff_in(A1), "A2": aff_in(A2), "x": frac_s(x), "y": frac_s(y)},
                     f"p.with_input_transform(A2)(x,y) = {got} but p(A2*(x,y)) = {want}", sig=f"polywith|{ka}|{kb}")
    # de-normalisation step of the fit
    for _ in range(R.pick(300, 3000)):
        n = rng.choice([3, 4, 9])
        cc = [(F(rng.randint(-8, 8), 4), F(rng.randint(-8, 8), 4)) for _ in range(n)]
        s = F(2) ** rng.randint(-8, 3)
        Ab = [s, F(0), F(rng.randint(-40, 40), 4) * s, F(0), s, F(rng.randint(-40, 40), 4) * s]
        arr = np.asarray([[float(c[0]), float(c[1])] for c in cc])

        def fd():
            ss, _, tx, _, _, ty, *_ = ~Affine(*[float(v) for v in Ab])
            c2 = arr * ss
            c2[0, :2] += (tx, ty)
            return list_s(c2.tolist(), lambda q: frac_s(q[0]) + ";" + frac_s(q[1]))

        R.corr(f"c20 denorm {list_s(cc, lambda q: frac_s(q[0]) + ';' + frac_s(q[1]))} {aff_in(Ab)}", fd, sig="denorm|spec")


def sec_poly_routes(R: Run, M, Affine):
    """every public evaluation route of Poly2d -- __call__ (scalars, arrays, Nx2), grid2d, and each of them after
    with_input_transform -- on dyadic operands (every float operation exact), with len(x) != len(y); calls that raise
    today (grid2d with a rotated / sheared input transform) are part of the correspondence as error kinds"""
    rng = R.rng

    def rnd_aff(kind: str):
        if kind == "st":
            return [F(rng.choice([-1, 1]) * rng.randint(1, 16), 8), F(0), F(rng.randint(-40, 40), 4),
                    F(0), F(rng.choice([-1, 1]) * rng.randint(1, 16), 8), F(rng.randint(-40, 40), 4)]
        if kind == "rot90":
            return [F(0), F(rng.choice([-1, 1]) * rng.randint(1, 16), 8), F(rng.randint(-40, 40), 4),
                    F(rng.choice([-1, 1]) * rng.randint(1, 16), 8), F(0), F(rng.randint(-40, 40), 4)]
        return [F(rng.randint(-16, 16), 8), F(rng.choice([-1, 1]) * rng.randint(1, 16), 8), F(rng.randint(-40, 40), 4),
                F(rng.choice([-1, 0, 1]) * rng.randint(1, 16), 8), F(rng.randint(-16, 16), 8), F(rng.randint(-40, 40), 4)]

    def exact_value(cc, k, A, x, y):
        xs, ys = A[0] * x + A[1] * y + A[2], A[3] * x + A[4] * y + A[5]
        return tuple(sum(cc[i * k + j][c] * xs ** i * ys ** j for i in range(k) for j in range(k)) for c in (0, 1))

    def all_exact(cc, k, A, xs, ys):
        for x in xs:
            for y in ys:
                ok, full, short = _aff_apply_exact(A, x, y)
                if not (ok and _horner_exact(cc, k, *full) and _horner_exact(cc, k, *short)):
                    return False
        return True

    for _ in range(R.pick(1200, 12000)):
        k = rng.choice([2, 2, 3])
        cc = [(F(rng.randint(-8, 8), 4), F(rng.randint(-8, 8), 4)) for _ in range(k * k)]
        ka, kb = rng.choice([("st", "st"), ("st", "rot"), ("st", "rot90"), ("rot", "st"), ("rot90", "rot90"), ("st", None), ("rot", None)])
        A1 = rnd_aff(ka)
        A2 = None if kb is None else rnd_aff(kb)
        nx, ny = rng.choice([(1, 3), (2, 3), (3, 2), (4, 2), (3, 3), (2, 5), (5, 1)])
        xs = [F(rng.randint(-16, 16), 4) for _ in range(nx)]
        ys = [F(rng.randint(-16, 16), 4) for _ in range(ny)]
        arr = np.asarray([[float(c[0]), float(c[1])] for c in cc], dtype="float64").reshape(k, k, 2)
        cc_s = list_s(cc, lambda q: frac_s(q[0]) + ";" + frac_s(q[1]))
        P = M.Poly2d(arr, Affine(*[float(v) for v in A1]))
        if A2 is None:
            Aeff, Pobj, okm = A1, P, True
            head = f"{k} {cc_s} {aff_in(A1)}"
            op = "polygrid"
        else:
            okm, Aeff = _aff_mul_exact(A1, A2)
            Pobj = P.with_input_transform(Affine(*[float(v) for v in A2]))
            head = f"{k} {cc_s} {aff_in(A1)} {aff_in(A2)}"
            op = "polygridwith"
        if not (okm and all_exact(cc, k, Aeff, xs, ys)):
            R.count("polyroutes:skipped-inexact")
            continue
        separable = Aeff[1] == 0 and Aeff[3] == 0
        tag = f"{ka}|{kb}|{'separable' if separable else 'rotated'}"
        case = {"k": k, "cc": cc_s, "A": aff_in(A1), "A2": None if A2 is None else aff_in(A2),
                "xs": list_s(xs, frac_s), "ys": list_s(ys, frac_s)}
        xa, ya = np.asarray([float(v) for v in xs]), np.asarray([float(v) for v in ys])
        got = []

        def fg():
            o = np.asarray(Pobj.grid2d(xa, ya))
            got.append(o)
            if o.shape != (2, nx, ny):
                return f"SHAPE:{o.shape}"
            return "[" + ",".join("[" + ",".join(f"{frac_s(float(o[0, i, j]))};{frac_s(float(o[1, i, j]))}" for j in range(ny)) + "]"
                                  for i in range(nx)) + "]"

        R.corr(f"c20 {op} {head} {list_s(xs, frac_s)} {list_s(ys, frac_s)}", fg, sig=f"{op}|{tag}")
        want = [[exact_value(cc, k, Aeff, x, y) for y in ys] for x in xs]
        if got:
            # whenever grid2d returns, out[:, i, j] is the polynomial at (x[i], y[j]) -- also if a version of the code
            # accepts transforms that are refused today
            o = got[0]
            ok = o.shape == (2, nx, ny) and all(
                (F(float(o[0, i, j])), F(float(o[1, i, j]))) == want[i][j] for i in range(nx) for j in range(ny))
            R.oracle(ok, "poly2d-grid2d-differs-from-pointwise-evaluation", case,
                     f"grid2d returned shape {o.shape} (expected {(2, nx, ny)}), values {o.tolist()}; pointwise exact values "
                     f"[i][j] = {[[tuple(map(float, w)) for w in row] for row in want]}", sig=f"grid2d-pointwise|{tag}")
        # array routes of __call__
        X = np.asarray([float(x) for x in xs for _ in ys])
        Y = np.asarray([float(y) for _ in xs for y in ys])
        flat = [w for row in want for w in row]
        try:
            o2 = np.asarray(Pobj(X, Y))
            o3 = np.asarray(Pobj(np.stack([X, Y], axis=1)))
            ok = (o2.shape == (2, nx * ny) and o3.shape == (nx * ny, 2)
                  and all((F(float(o2[0, n])), F(float(o2[1, n]))) == flat[n] for n in range(nx * ny))
                  and all((F(float(o3[n, 0])), F(float(o3[n, 1]))) == flat[n] for n in range(nx * ny)))
            R.oracle(ok, "poly2d-array-call-differs-from-pointwise-evaluation", case,
                     f"P(X, Y) shape {o2.shape} / P(Nx2) shape {o3.shape}: {o2.tolist()} / {o3.tolist()}; exact {[tuple(map(float, w)) for w in flat]}",
                     sig=f"array-call|{tag}")
        except Exception as ex:  # pylint: disable=broad-except
            R.oracle(False, "poly2d-array-call-raises", case, repr(ex), sig="raises")


def sec_glue(R: Run, M, Affine):
    """the public glue modelled in Model/C20Glue.lean: Poly2d construction (shape assertion), every call form of
    Poly2d.__call__ (scalars, equal arrays, scalar vs array, one-element vs longer array, unequal arrays, Nx2, Nx2 after
    with_input_transform) on both normalisation branches, Bin1D.__eq__, apply_affine (1-d / 2-d / mismatched), stack_xy /
    unstack_xy, decompose_rws on ndarrays of right and wrong shape, clamp / maybe_zero at their edges.  Dyadic operands:
    every float operation is exact, results and exception kinds are compared with the Lean model; independent oracles
    re-evaluate pointwise with Fractions."""
    from odc.geo import xy_
    rng = R.rng

    def rnd_aff(kind):
        if kind == "st":
            return [F(rng.choice([-1, 1]) * rng.randint(1, 16), 8), F(0), F(rng.randint(-40, 40), 4),
                    F(0), F(rng.choice([-1, 1]) * rng.randint(1, 16), 8), F(rng.randint(-40, 40), 4)]
        if kind == "shear":      # exactly one off-diagonal term
            o = [F(rng.choice([-1, 1]) * rng.randint(1, 16), 8), F(0)]
            rng.shuffle(o)
            return [F(rng.randint(-16, 16), 8), o[0], F(rng.randint(-40, 40), 4), o[1], F(rng.randint(-16, 16), 8), F(rng.randint(-40, 40), 4)]
        return [F(rng.randint(-16, 16), 8), F(rng.choice([-1, 1]) * rng.randint(1, 16), 8), F(rng.randint(-40, 40), 4),
                F(rng.choice([-1, 1]) * rng.randint(1, 16), 8), F(rng.randint(-16, 16), 8), F(rng.randint(-40, 40), 4)]

    def exact_pt(cc, k, A, x, y):
        ok, full, short = _aff_apply_exact(A, x, y)
        return ok and _horner_exact(cc, k, *full) and _horner_exact(cc, k, *short)

    def value(cc, k, A, x, y):
        xs, ys = A[0] * x + A[1] * y + A[2], A[3] * x + A[4] * y + A[5]
        return tuple(sum(cc[i * k + j][c] * xs ** i * ys ** j for i in range(k) for j in range(k)) for c in (0, 1))

    pt_s = lambda q: frac_s(q[0]) + ";" + frac_s(q[1])
    # ---- Poly2d(cc, A): accepted / rejected coefficient-table shapes
    for shape in [(3, 3, 2), (2, 2, 2), (2, 2), (4, 4, 2), (2, 3, 2), (3, 2, 2), (2, 2, 3), (3, 3, 3), (8,), (1, 1, 2), (2, 2, 2, 1), (0, 0, 2)]:
        for _ in range(R.pick(3, 12)):
            n = int(np.prod(shape))
            vals = [F(rng.randint(-8, 8), 4) for _ in range(n)]
            arr = np.asarray([float(v) for v in vals], dtype="float64").reshape(shape)
            cc = [(vals[2 * i], vals[2 * i + 1]) for i in range(n // 2)] if shape[-1] == 2 else []
            A = rnd_aff(rng.choice(["st", "rot"]))
            x, y = F(rng.randint(-16, 16), 4), F(rng.randint(-16, 16), 4)
            if shape in [(3, 3, 2), (2, 2, 2)] and not exact_pt(cc, shape[0], A, x, y):
                continue

            def fm():
                P = M.Poly2d(arr, Affine(*[float(v) for v in A]))
                o = P(float(x), float(y))
                return f"{frac_s(float(o[0]))};{frac_s(float(o[1]))}"

            o_mk = R.corr(f"c20 polymk {list_s(list(shape), str)} {list_s(cc, pt_s)} {aff_in(A)} {frac_s(x)} {frac_s(y)}", fm,
                          sig=f"polymk|{'ok' if shape in [(3, 3, 2), (2, 2, 2)] else 'bad-shape'}")
            if shape not in [(3, 3, 2), (2, 2, 2)]:
                # documented contract of the constructor: bilinear (2,2,2) and biquadratic (3,3,2) tables only
                R.oracle(o_mk.startswith("ERR:"), "poly2d-accepts-unsupported-coefficient-table", {"shape": list(shape)},
                         f"Poly2d(cc of shape {shape}, A) was accepted and evaluated to {o_mk}", sig="polymk-reject")
    # ---- call forms
    forms = ["ss", "aa", "aa", "sa", "as", "1a", "a1", "ab", "a0", "nx2", "nx2", "nx2with"]
    for _ in range(R.pick(1500, 15000)):
        k = rng.choice([2, 2, 3])
        cc = [(F(rng.randint(-8, 8), 4), F(rng.randint(-8, 8), 4)) for _ in range(k * k)]
        kind = rng.choice(["st", "rot", "shear"])
        A = rnd_aff(kind)
        form = rng.choice(forms)
        n = rng.randint(2, 5)
        xs = [F(rng.randint(-16, 16), 4) for _ in range(n)]
        ys = [F(rng.randint(-16, 16), 4) for _ in range(n)]
        arr = np.asarray([[float(c[0]), float(c[1])] for c in cc], dtype="float64").reshape(k, k, 2)
        P = M.Poly2d(arr, Affine(*[float(v) for v in A]))
        head = f"{k} {list_s(cc, pt_s)} {aff_in(A)}"
        if form in ("nx2", "nx2with"):
            A2 = rnd_aff(rng.choice(["st", "rot", "shear"])) if form == "nx2with" else None
            if A2 is None:
                Aeff, okm = A, True
            else:
                okm, Aeff = _aff_mul_exact(A, A2)
            pts = list(zip(xs, ys))
            if not (okm and all(exact_pt(cc, k, Aeff, x, y) for x, y in pts)):
                R.count("glue:skipped-inexact")
                continue
            if A2 is not None and not all(_aff_apply_exact(A2, x, y)[0] and exact_pt(cc, k, A, *_aff_apply_exact(A2, x, y)[1]) for x, y in pts):
                R.count("glue:skipped-inexact")
                continue
            Pobj = P if A2 is None else P.with_input_transform(Affine(*[float(v) for v in A2]))
            got = []

            def fn():
                o = np.asarray(Pobj(np.asarray([[float(x), float(y)] for x, y in pts])))
                got.append(o)
                if o.shape != (len(pts), 2):
                    return f"SHAPE:{o.shape}"
                return "[" + ",".join(f"{frac_s(float(r[0]))};{frac_s(float(r[1]))}" for r in o) + "]"

            R.corr(f"c20 polycalln {head} {'N' if A2 is None else aff_in(A2)} {list_s(pts, pt_s)}", fn, sig=f"polycalln|{form}|{kind}")
            if got and got[0].shape == (len(pts), 2):
                want = [value(cc, k, Aeff, x, y) for x, y in pts]
                ok = all((F(float(o[0])), F(float(o[1]))) == w for o, w in zip(got[0], want))
                R.oracle(ok, "poly2d-array-call-differs-from-pointwise-evaluation",
                         {"k": k, "cc": list_s(cc, pt_s), "A": aff_in(A), "A2": None if A2 is None else aff_in(A2), "pts": list_s(pts, pt_s)},
                         f"P(Nx2) = {got[0].tolist()}, pointwise exact {[tuple(map(float, w)) for w in want]}", sig=f"nx2-pointwise|{form}")
                if A2 is not None:
                    tp = [_aff_apply_exact(A2, x, y)[1] for x, y in pts]
                    via = np.asarray(P(np.asarray([[float(u), float(v)] for u, v in tp])))
                    R.oracle(np.array_equal(via, got[0]), "poly2d-input-transform-composition",
                             {"k": k, "cc": list_s(cc, pt_s), "A": aff_in(A), "A2": aff_in(A2), "pts": list_s(pts, pt_s)},
                             f"p.with_input_transform(A2)(pts) = {got[0].tolist()} but p(A2*pts) = {via.tolist()}", sig="nx2-with-composition")
            continue
        if form == "ss":
            ax, ay, tx, ty = float(xs[0]), float(ys[0]), f"s:{frac_s(xs[0])}", f"s:{frac_s(ys[0])}"
            pairs = [(xs[0], ys[0])]
        elif form == "aa":
            ax, ay = np.asarray([float(v) for v in xs]), np.asarray([float(v) for v in ys])
            tx, ty = "a:" + list_s(xs, frac_s), "a:" + list_s(ys, frac_s)
            pairs = list(zip(xs, ys))
        elif form == "sa":
            ax, ay, tx, ty = float(xs[0]), np.asarray([float(v) for v in ys]), f"s:{frac_s(xs[0])}", "a:" + list_s(ys, frac_s)
            pairs = [(xs[0], y) for y in ys]
        elif form == "as":
            ax, ay, tx, ty = np.asarray([float(v) for v in xs]), float(ys[0]), "a:" + list_s(xs, frac_s), f"s:{frac_s(ys[0])}"
            pairs = [(x, ys[0]) for x in xs]
        elif form == "1a":
            ax, ay = np.asarray([float(xs[0])]), np.asarray([float(v) for v in ys])
            tx, ty = "a:" + list_s(xs[:1], frac_s), "a:" + list_s(ys, frac_s)
            pairs = [(xs[0], y) for y in ys]
        elif form == "a1":
            ax, ay = np.asarray([float(v) for v in xs]), np.asarray([float(ys[0])])
            tx, ty = "a:" + list_s(xs, frac_s), "a:" + list_s(ys[:1], frac_s)
            pairs = [(x, ys[0]) for x in xs]
        elif form == "a0":
            ax, ay, tx, ty, pairs = np.asarray([], dtype="float64"), np.asarray([], dtype="float64"), "a:[]", "a:[]", []
        else:   # unequal lengths, neither of length one
            ys2 = ys + [F(rng.randint(-16, 16), 4)]
            ax, ay = np.asarray([float(v) for v in xs]), np.asarray([float(v) for v in ys2])
            tx, ty = "a:" + list_s(xs, frac_s), "a:" + list_s(ys2, frac_s)
            pairs = []
        if not all(exact_pt(cc, k, A, x, y) for x, y in pairs):
            R.count("glue:skipped-inexact")
            continue
        got = []

        def fc():
            o = np.asarray(P(ax, ay))
            got.append(o)
            if o.ndim == 1:
                o = o.reshape(2, 1)
            return "[" + ",".join(frac_s(float(v)) for v in o[0]) + "] [" + ",".join(frac_s(float(v)) for v in o[1]) + "]"

        R.corr(f"c20 polycall2 {head} {tx} {ty}", fc, sig=f"polycall2|{form}|{'shortcut' if A[1] == 0 and A[3] == 0 else 'general'}")
        if got and pairs:
            o = got[0].reshape(2, -1)
            want = [value(cc, k, A, x, y) for x, y in pairs]
            ok = o.shape[1] == len(pairs) and all((F(float(o[0, i])), F(float(o[1, i]))) == want[i] for i in range(len(pairs)))
            R.oracle(ok, "poly2d-array-call-differs-from-pointwise-evaluation",
                     {"k": k, "cc": list_s(cc, pt_s), "A": aff_in(A), "x": tx, "y": ty},
                     f"P(x, y) = {got[0].tolist()}, pointwise exact {[tuple(map(float, w)) for w in want]}", sig=f"call2-pointwise|{form}")
    # ---- arrays of more than one dimension: P(X) for X of shape (*shape, 2) and P(Xa, Ya) for equally shaped N-d arrays
    for _ in range(R.pick(300, 3000)):
        k = rng.choice([2, 2, 3])
        cc = [(F(rng.randint(-8, 8), 4), F(rng.randint(-8, 8), 4)) for _ in range(k * k)]
        kind = rng.choice(["st", "rot", "shear"])
        A = rnd_aff(kind)
        shape = rng.choice([(3,), (1,), (2, 3), (3, 2), (1, 4), (2, 2), (2, 3, 2), (2, 1, 3), (0,), (2, 0)])
        n = int(np.prod(shape))
        pts = [(F(rng.randint(-16, 16), 4), F(rng.randint(-16, 16), 4)) for _ in range(n)]
        if not all(exact_pt(cc, k, A, x, y) for x, y in pts):
            R.count("glue:skipped-inexact")
            continue
        arr = np.asarray([[float(c[0]), float(c[1])] for c in cc], dtype="float64").reshape(k, k, 2)
        P = M.Poly2d(arr, Affine(*[float(v) for v in A]))
        X = np.asarray([[float(x), float(y)] for x, y in pts], dtype="float64").reshape(tuple(shape) + (2,))
        head = f"{k} {list_s(cc, pt_s)} {aff_in(A)}"
        got = []

        def fl2():
            o = np.asarray(P(X))
            got.append(o)
            if o.shape != tuple(reversed(shape)) + (2,):
                return f"SHAPE:{o.shape}"
            return "[" + ",".join(f"{frac_s(float(r[0]))};{frac_s(float(r[1]))}" for r in o.reshape(-1, 2)) + "]"

        R.corr(f"c20 polycalllast2 {head} {list_s(list(shape), str)} {list_s(pts, pt_s)}", fl2, sig=f"polycalllast2|rank{len(shape)}|{kind}")
        if got and len(shape) == 1 and n:
            want = [value(cc, k, A, x, y) for x, y in pts]
            ok = got[0].shape == (n, 2) and all((F(float(o[0])), F(float(o[1]))) == w for o, w in zip(got[0], want))
            R.oracle(ok, "poly2d-array-call-differs-from-pointwise-evaluation", {"k": k, "cc": list_s(cc, pt_s), "A": aff_in(A), "pts": list_s(pts, pt_s)},
                     f"P(Nx2) = {got[0].tolist()}", sig="nx2-pointwise|rank1")
        # two equally shaped arrays of that rank: (2, *shape), pointwise
        got2 = []

        def fnd():
            o = np.asarray(P(X[..., 0], X[..., 1]))
            got2.append(o)
            if o.shape != (2,) + tuple(shape):
                return f"SHAPE:{o.shape}"
            o = o.reshape(2, -1)
            return "[" + ",".join(frac_s(float(v)) for v in o[0]) + "] [" + ",".join(frac_s(float(v)) for v in o[1]) + "]"

        R.corr(f"c20 polycall2 {head} a:{list_s([p[0] for p in pts], frac_s)} a:{list_s([p[1] for p in pts], frac_s)}", fnd,
               sig=f"polycall2|nd-rank{len(shape)}|{'shortcut' if A[1] == 0 and A[3] == 0 else 'general'}")
        if got2 and n and got2[0].shape == (2,) + tuple(shape):
            o = got2[0].reshape(2, -1)
            want = [value(cc, k, A, x, y) for x, y in pts]
            R.oracle(all((F(float(o[0, i])), F(float(o[1, i]))) == want[i] for i in range(n)), "poly2d-array-call-differs-from-pointwise-evaluation",
                     {"k": k, "cc": list_s(cc, pt_s), "A": aff_in(A), "pts": list_s(pts, pt_s), "shape": list(shape)},
                     f"P(X, Y) for arrays of shape {shape} = {got2[0].tolist()}", sig=f"call2-pointwise|rank{len(shape)}")
    # ---- Bin1D.__eq__
    for _ in range(R.pick(400, 4000)):
        sz, o, d = F(rng.randint(1, 64), 4), F(rng.randint(-64, 64), 4), rng.choice([1, -1])
        r = rng.random()
        sz2, o2, d2 = sz, o, d
        if r < 0.2:
            sz2 = sz + F(rng.choice([-1, 1]), 4)
        elif r < 0.4:
            o2 = o + F(rng.choice([-1, 1, 4 * sz]), 4)
        elif r < 0.6:
            d2 = -d
        elif r < 0.7:
            o2, d2 = o + sz, -d
        if sz2 <= 0:
            continue
        a_, b_ = M.Bin1D(float(sz), float(o), d), M.Bin1D(float(sz2), float(o2), d2)
        eq = R.corr(f"c20 bineq {frac_s(sz)} {frac_s(o)} {d} {frac_s(sz2)} {frac_s(o2)} {d2}", lambda: bool_s(a_ == b_),
                    sig=f"bineq|{'same' if (sz, o, d) == (sz2, o2, d2) else 'different'}")
        same = all(a_[i] == b_[i] for i in range(-3, 4))
        R.oracle((eq == "T") == same and (a_ != b_) == (not same), "bin1d-eq-differs-from-same-intervals",
                 {"a": [float(sz), float(o), d], "b": [float(sz2), float(o2), d2]},
                 f"a == b is {eq}, a != b is {a_ != b_}, intervals -3..3 all equal: {same}", sig="bineq")
    R.oracle(not (M.Bin1D(1.0) == "x") and not (M.Bin1D(1.0) == (1.0, 0.0, 1)), "bin1d-eq-differs-from-same-intervals", {"other": "non-Bin1D"},
             "Bin1D compares equal to a non-Bin1D value", sig="bineq-other", trivial=True)
    # ---- apply_affine / stack_xy / unstack_xy
    for _ in range(R.pick(300, 3000)):
        A = rnd_aff(rng.choice(["st", "rot", "shear"]))
        shape = rng.choice([(1,), (4,), (2, 3), (3, 1), (0,), (2, 2, 2)])
        n = int(np.prod(shape))
        xs = [F(rng.randint(-64, 64), 4) for _ in range(n)]
        mism = rng.random() < 0.15
        ys = [F(rng.randint(-64, 64), 4) for _ in range(n + (1 if mism else 0))]
        if not mism and not all(_aff_apply_exact(A, x, y)[0] for x, y in zip(xs, ys)):
            continue
        xa = np.asarray([float(v) for v in xs]).reshape(shape)
        ya = np.asarray([float(v) for v in ys]) if mism else np.asarray([float(v) for v in ys]).reshape(shape)
        got = []

        def fa():
            ox, oy = M.apply_affine(Affine(*[float(v) for v in A]), xa, ya)
            got.append((ox, oy))
            if ox.shape != tuple(shape) or oy.shape != tuple(shape):
                return f"SHAPE:{ox.shape},{oy.shape}"
            return list_s([float(v) for v in ox.ravel()], frac_s) + " " + list_s([float(v) for v in oy.ravel()], frac_s)

        R.corr(f"c20 applyaff {aff_in(A)} {list_s(xs, frac_s)} {list_s(ys, frac_s)}", fa, sig=f"applyaff|{'mismatch' if mism else 'ndim' + str(len(shape))}")
        if got:
            ox, oy = got[0]
            want = [(A[0] * x + A[1] * y + A[2], A[3] * x + A[4] * y + A[5]) for x, y in zip(xs, ys)]
            ok = ox.shape == tuple(shape) and all((F(float(u)), F(float(v))) == w for u, v, w in zip(ox.ravel(), oy.ravel(), want))
            R.oracle(ok, "apply-affine-differs-from-pointwise", {"A": aff_in(A), "xs": list_s(xs, frac_s), "ys": list_s(ys, frac_s), "shape": list(shape)},
                     f"apply_affine = {ox.tolist()}, {oy.tolist()}", sig="applyaff")
    for _ in range(R.pick(100, 1000)):
        n, m = rng.randint(0, 5), rng.choice([2, 2, 2, 3, 1])
        rows = [[F(rng.randint(-64, 64), 4) for _ in range(m)] for _ in range(n)]
        if n == 0 and m != 2:
            continue
        arr = np.asarray([[float(v) for v in r] for r in rows], dtype="float64").reshape(n, m)
        R.corr(f"c20 unstack {list_s(rows, lambda r: ';'.join(frac_s(v) for v in r))}",
               lambda: list_s([(p.x, p.y) for p in M.unstack_xy(arr)], lambda q: frac_s(float(q[0])) + ";" + frac_s(float(q[1]))),
               sig=f"unstack|cols{m}")
        if m == 2 and n > 0:
            pts = [(r[0], r[1]) for r in rows]
            R.corr(f"c20 stack {list_s(pts, pt_s)}",
                   lambda: list_s(M.stack_xy([xy_(float(a), float(b)) for a, b in pts]).tolist(), lambda r: ";".join(frac_s(float(v)) for v in r)),
                   sig="stack")
    for arr in (np.zeros((2,)), np.zeros((2, 2, 2))):
        r = guarded(lambda: str(M.unstack_xy(arr)))
        R.oracle(r == "ERR:AssertionError", "unstack-xy-accepts-wrong-ndim", {"shape": list(arr.shape)}, r, trivial=True)
    # ---- decompose_rws on ndarrays
    for _ in range(R.pick(200, 2000)):
        rot = rng.choice(ROT90)
        u11 = rng.choice([-1, 1]) * F(2) ** rng.randint(-6, 6)
        u22 = rng.choice([-1, 1]) * F(2) ** rng.randint(-6, 6)
        u12 = F(rng.randint(-64, 64), 16)
        a, b = rot[0] * u11, rot[0] * u12 + rot[1] * u22
        d, e = rot[2] * u11, rot[2] * u12 + rot[3] * u22
        if not all(isx(v) for v in (a, b, d, e)):
            continue
        bad = rng.random() < 0.2
        rows = [[a, b], [d, e]]
        if bad:
            rows = rng.choice([[[a, b, F(0)], [d, e, F(0)]], [[a, b]], [[a, b], [d, e], [F(0), F(1)]], [[a], [d]]])
        arr = np.asarray([[float(v) for v in r] for r in rows], dtype="float64")

        def fr():
            Rm, W, S = M.decompose_rws(arr)
            return " ".join(";".join(frac_s(float(v)) for v in (m_[0, 0], m_[0, 1], 0.0, m_[1, 0], m_[1, 1], 0.0)) for m_ in (Rm, W, S))

        o_r = R.corr(f"c20 rwsnd {list_s(rows, lambda r: ';'.join(frac_s(v) for v in r))} {frac_s(abs(u11))} {frac_s(abs(u22))}", fr,
                     sig=f"rwsnd|{'bad-shape' if bad else 'rot90'}")
        if bad:
            R.oracle(o_r == "ERR:AssertionError", "decompose-rws-accepts-non-2x2", {"shape": list(arr.shape)},
                     f"decompose_rws(array of shape {arr.shape}) did not fail its shape assertion: {o_r}", sig="rwsnd-reject")
    # ---- clamp / maybe_zero edges (exact for every double)
    for _ in range(R.pick(300, 3000)):
        lo, up = sorted(F(rng.randint(-40, 40), 4) for _ in range(2))
        if rng.random() < 0.1:
            lo, up = up + F(1, 4), lo
        x = rng.choice([lo, up, lo - F(1, 4), up + F(1, 4), (lo + up) / 2, F(rng.randint(-60, 60), 4)])
        got = R.corr(f"c20 clamp {frac_s(x)} {frac_s(lo)} {frac_s(up)}", lambda: frac_s(M.clamp(float(x), float(lo), float(up))), sig="clamp|edges")
        if lo <= up and not got.startswith("ERR"):
            R.oracle(F(got) == min(max(x, lo), up), "clamp-contract", {"x": frac_s(x), "lo": frac_s(lo), "up": frac_s(up)}, got, sig="clamp")
        tol = rng.choice([TOL6, F(1, 4), F(0), F(-1)])
        z = rng.choice([tol, -tol, tol / 2, F(0), F(float(tol) * 0.999999), F(rng.randint(-8, 8), 8)])
        if isx(z):
            got = R.corr(f"c20 mzero {frac_s(z)} {frac_s(tol)}", lambda: frac_s(M.maybe_zero(float(z), float(tol))), sig="mzero|edges")
            R.oracle(F(got) == (0 if abs(z) < tol else z), "maybe-zero-contract", {"x": frac_s(z), "tol": frac_s(tol)}, got, sig="mzero")


NONFIN = [float("nan"), float("inf"), float("-inf")]


def xf_tok(v) -> str:
    return xf_s(v)


def sec_nonfinite(R: Run, M, Affine):
    """nan / +-inf as ANY argument of maybe_int, snap_scale, snap_grid, is_affine_st, snap_affine (Model/C20NonFinite.lean):
    small domain of dyadic finite values x the three non-finite ones, every position (coordinates, resolution, anchor
    fraction, tolerance), exhaustive in the thorough tier and a large random subset in the quick tier; result or exception
    KIND compared with the Lean model; oracles: a non-finite interval end is never turned into a grid, a non-finite
    scale passes through snap_scale unchanged."""
    rng = R.rng
    fin = [0.0, 1.0, -1.0, 0.5, 2.5, 5.25, -7.25, 0.25]
    tols = [0.01, 0.25, 0.0] + NONFIN
    def out_mi(o):
        return ("i:" + str(o)) if isinstance(o, int) and not isinstance(o, bool) else ("f:" + xf_s(o))

    # maybe_int with any tolerance, snap_scale
    for x in fin + [0.3, 2.0000001, 0.99, 1e-9, 3.0] + NONFIN:
        for tol in tols:
            R.corr(f"c20 mintx {xf_s(x)} {xf_s(tol)}", lambda: out_mi(M.maybe_int(x, tol)), sig=f"mintx|{'nonfinite' if not math.isfinite(x) or not math.isfinite(tol) else 'finite'}")
            exact = (not math.isfinite(x)) or (not math.isfinite(tol)) or abs(x) >= 1 - tol or abs(x) < tol or x == 0 or isx(1 / F(x))
            res_l = []

            def fs():
                o = M.snap_scale(x, tol)
                res_l.append(o)
                return out_mi(o)

            if exact:
                R.corr(f"c20 sscalex {xf_s(x)} {xf_s(tol)}", fs,
                       sig=f"sscalex|{'s-nonfinite' if not math.isfinite(x) else 'tol-nonfinite' if not math.isfinite(tol) else 'finite'}")
                if not math.isfinite(x):
                    o = res_l[0] if res_l else "raised"
                    R.oracle(isinstance(o, float) and (o == x or (math.isnan(o) and math.isnan(x))), "snap-scale-changes-nonfinite",
                             {"s": xf_s(x), "tol": xf_s(tol)}, f"snap_scale({x!r},{tol!r}) = {o!r} (a non-finite scale is documented to be returned as is: "
                             "'s if too far from snap')", sig="sscalex-passthrough")
    # snap_grid: every position
    xs = fin + NONFIN
    ress = [1.0, -1.0, 0.5, -2.0, 0.0] + NONFIN
    offs = [None, 0.0, 0.5, 1.0] + NONFIN
    combos = [(x0, x1, res, off, tol) for x0 in xs for x1 in xs for res in ress for off in offs for tol in tols
              if not all(v is None or math.isfinite(v) for v in (x0, x1, res, off, tol))]
    if R.quick:
        combos = rng.sample(combos, 2500)
    for (x0, x1, res, off, tol) in combos:
        got = []

        def fg():
            tx, nx = M.snap_grid(x0, x1, res, off, tol)
            got.append((tx, nx))
            return f"{xf_s(tx)} {nx}"

        where = "+".join(n for n, v in (("x", x0), ("x", x1), ("res", res), ("off", off), ("tol", tol)) if v is not None and not math.isfinite(v))
        o = R.corr(f"c20 gridx {xf_s(x0)} {xf_s(x1)} {xf_s(res)} {'N' if off is None else xf_s(off)} {xf_s(tol)}", fg,
                   sig=f"gridx|{'none' if off is None else 'off'}|nonfinite={'+'.join(sorted(set(where.split('+'))))}")
        if not (math.isfinite(x0) and math.isfinite(x1)):
            R.oracle(o.startswith("ERR:"), "snap-grid-accepts-nonfinite-interval",
                     {"x0": xf_s(x0), "x1": xf_s(x1), "res": xf_s(res), "off": "N" if off is None else xf_s(off), "tol": xf_s(tol)},
                     f"snap_grid({x0!r},{x1!r},{res!r},{off!r},{tol!r}) returned {o}", sig="gridx-reject")
    # signed zeros: -0.0 as anchor fraction / coordinate / tolerance behaves as 0 (the model does not distinguish them)
    for (x0, x1, res, off, tol) in [(0.0, 5.25, 1.0, -0.0, 0.01), (-0.0, 5.25, -1.0, -0.0, 0.01), (-0.0, -0.0, 0.5, 0.5, -0.0), (-7.25, -0.0, -2.0, None, 0.01),
                                    (-0.0, 2.5, 1.0, None, -0.0), (1.0, 2.5, -0.0, 0.0, 0.01), (1.0, 2.5, -0.0, None, 0.01)]:
        z = lambda v: "N" if v is None else xf_s(0.0 if v == 0 else v)
        R.corr(f"c20 gridx {z(x0)} {z(x1)} {z(res)} {z(off)} {z(tol)}",
               lambda: "{} {}".format(*(lambda t: (xf_s(0.0 if t[0] == 0 else t[0]), t[1]))(M.snap_grid(x0, x1, res, off, tol))), sig="gridx|signed-zero")
    # is_affine_st / snap_affine with non-finite entries
    ents = [1.0, 0.5, 0.0, 2.5, -1.0] + NONFIN
    for _ in range(R.pick(1000, 15000)):
        vals = [rng.choice(ents if rng.random() < 0.5 else ents[:5]) for _ in range(6)]
        if rng.random() < 0.5:
            vals[1], vals[3] = rng.choice([0.0, 0.0, 1e-9] + NONFIN), rng.choice([0.0, 0.0] + NONFIN)
        if all(math.isfinite(v) for v in vals):
            continue
        if not all((not math.isfinite(v)) or abs(v) >= 1 or v == 0 or isx(1 / F(v)) for v in (vals[0], vals[4])):
            continue
        ttol, stol, tol = rng.choice([(1e-3, 1e-6, 1e-8), (1e-3, 1e-6, 1e-8), (float("nan"), 1e-6, 1e-8), (1e-3, float("inf"), 1e-8), (1e-3, 1e-6, float("nan")), (1e-3, 1e-6, float("inf"))])
        A = Affine(*vals)
        a_s = ";".join(xf_s(v) for v in vals)
        R.corr(f"c20 stx {a_s} {xf_s(tol)}", lambda: bool_s(M.is_affine_st(A, tol)), sig="stx")
        R.corr(f"c20 saffx {a_s} {xf_s(ttol)} {xf_s(stol)} {xf_s(tol)}", lambda: ";".join(xf_s(v) for v in tuple(M.snap_affine(A, ttol, stol, tol))[:6]),
               sig=f"saffx|rot={'nan' if any(math.isnan(v) for v in (vals[1], vals[3])) else 'inf' if any(math.isinf(v) for v in (vals[1], vals[3])) else 'finite'}")


def _nums(txt: str):
    return [F(t) for t in re.split(r"[\s;,\[\]]+", txt) if t]


class SoftCorr:
    """model <-> code comparison for float pipelines whose operation order is an internal matter: the model reproduces
    today's binary64 result bit for bit, but an algebraically equivalent refactor may move results by a few ulps; such a
    difference is counted in the evidence, only a difference beyond `rel` (relative to the largest magnitude in the
    line) is a failure of the oracle `key` (with the input as replay)"""

    def __init__(self, R: Run, key: str, rel: F):
        self.R, self.key, self.rel, self.items = R, key, rel, []

    def add(self, line: str, real: str, case, sig: str):
        self.items.append((line, real, case, sig))

    def flush(self):
        if not self.items:
            return
        outs = run_driver("C20", [it[0] for it in self.items])
        for (line, real, case, sig), model in zip(self.items, outs):
            self.R.count(f"soft-corr:{sig}")
            if real == model:
                continue
            try:
                a, b = _nums(real), _nums(model)
                scale = max([abs(v) for v in a + b] + [F(1)])
                close = len(a) == len(b) and all(abs(x - y) <= self.rel * scale for x, y in zip(a, b))
            except Exception:  # pylint: disable=broad-except
                close = False
            if close:
                self.R.count(f"soft-corr:{sig}:differs-within-tolerance")
            else:
                self.R.oracle(False, self.key, dict(case, line=line), f"real {real[:300]} / model {model[:300]}", sig=sig)
        self.items = []


def sec_seq(R: Run, M):
    """edge_index (exhaustive on shapes 0..7 x 0..7, open and closed, every accepted spelling of the shape) and
    quasi_random_r2 (bit-exact against the binary64 model: products rounded with C14's fl64, fmod exact; n, offset, shape
    incl. n = 0) + contract oracles: the boundary of an array with both sides >= 2 is walked exactly once; points lie in
    [0,1)^2 resp. inside the shape"""
    from odc.geo import wh_, xy_
    rng = R.rng
    for ny in range(0, 8):
        for nx in range(0, 8):
            for closed in (False, True):
                shp = rng.choice([(ny, nx), [ny, nx], wh_(nx, ny), xy_(nx, ny)])
                got = []

                def fe():
                    o = list(M.edge_index(shp, closed=closed)) if closed else list(M.edge_index(shp))
                    got.append(o)
                    return list_s(o, lambda q: f"{q[0]};{q[1]}")

                R.corr(f"c20 edgeidx {ny} {nx} {bool_s(closed)}", fe, sig=f"edgeidx|{'degenerate' if min(ny, nx) < 2 else 'regular'}|{'closed' if closed else 'open'}")
                if got and ny >= 2 and nx >= 2:
                    o = got[0][:-1] if closed else got[0]
                    boundary = {(i, j) for i in range(ny) for j in range(nx) if i in (0, ny - 1) or j in (0, nx - 1)}
                    ok = len(o) == len(set(o)) == len(boundary) and set(o) == boundary and (not closed or got[0][-1] == (0, 0))
                    steps = all(abs(a[0] - b[0]) + abs(a[1] - b[1]) == 1 for a, b in zip(o, o[1:] + o[:1]))
                    R.oracle(ok and steps, "edge-index-does-not-walk-boundary-once", {"shape": [ny, nx], "closed": closed},
                             f"edge_index(({ny},{nx}), closed={closed}) = {got[0]}", sig="edgeidx")
    soft = SoftCorr(R, "quasi-random-r2-differs-from-model", F(1, 10**12))
    for _ in range(R.pick(300, 3000)):
        n = rng.choice([0, 1, 2, 5, 16, rng.randint(1, 60)])
        offset = rng.choice([0, 0, 1, 7, 1000, rng.randint(0, 2**20), 2**24 - n - 1])
        shape = rng.choice([None, None, (rng.randint(1, 5000), rng.randint(1, 5000)), (1, 1), (256, 256)])
        got = []

        def fq():
            o = M.quasi_random_r2(n, shape, offset) if rng.random() < 0.5 else M.quasi_random_r2(n, shape=shape, offset=offset)
            got.append(o)
            if o.shape != (n, 2):
                return f"SHAPE:{o.shape}"
            return "[" + ",".join(f"{frac_s(float(r[0]))};{frac_s(float(r[1]))}" for r in o) + "]"

        soft.add(f"c20 qr2 {n} {'N' if shape is None else str(shape[0]) + ';' + str(shape[1])} {offset}", guarded(fq),
                 {"n": n, "shape": shape, "offset": offset}, f"qr2|{'unit' if shape is None else 'scaled'}|{'n0' if n == 0 else 'n'}")
        if got and got[0].shape == (n, 2) and n:
            o = got[0]
            hx, hy = (1, 1) if shape is None else (shape[1], shape[0])
            ok = bool((o[:, 0] >= 0).all() and (o[:, 0] < hx).all() and (o[:, 1] >= 0).all() and (o[:, 1] < hy).all())
            R.oracle(ok, "quasi-random-r2-outside-range", {"n": n, "shape": shape, "offset": offset},
                     f"points outside [0,{hx}) x [0,{hy}): min {o.min(axis=0).tolist()} max {o.max(axis=0).tolist()}", sig="qr2")
    soft.flush()
    R.assumptions.append("quasi_random_r2: float32 arange is exact (offset + n <= 2^24 in the harness; beyond that consecutive indices collapse)")


def sec_normxy(R: Run, M):
    """norm_xy against the executable model, bit for bit in binary64 (every float operation of the code is a rounding
    step of the model; the square roots are handed over: sqrt of the squared distances the MODEL computes -- compared
    first -- and sqrt(2.0)).  3..7 points (numpy's 1-d mean is a plain left-to-right sum below 8 elements), arbitrary
    doubles and dyadic grids incl. point sets containing their centroid and the all-equal (zero spread) case; `out=`
    spelling; contract oracle mean 0 / mean distance sqrt 2 / affine maps points, and the argument assertions."""
    rng = R.rng
    r2 = math.sqrt(2.0)
    soft = SoftCorr(R, "norm-xy-differs-from-model", F(1, 10**11))
    for _ in range(R.pick(400, 4000)):
        n = rng.randint(3, 7)
        kind = rng.choice(["int", "dyadic", "float", "float", "big", "centroid", "same"])
        if kind == "int":
            pts = [(float(rng.randint(-50, 50)), float(rng.randint(-50, 50))) for _ in range(n)]
        elif kind == "dyadic":
            pts = [(rng.randint(-400, 400) / 8, rng.randint(-400, 400) / 8) for _ in range(n)]
        elif kind == "float":
            pts = [(rng.uniform(-1e3, 1e3), rng.uniform(-1e3, 1e3)) for _ in range(n)]
        elif kind == "big":
            cx, cy = rng.uniform(-1e7, 1e7), rng.uniform(-1e7, 1e7)
            pts = [(cx + rng.uniform(-50, 50), cy + rng.uniform(-50, 50)) for _ in range(n)]
        elif kind == "centroid":
            c = (float(rng.randint(-20, 20)), float(rng.randint(-20, 20)))
            d = float(rng.randint(1, 9))
            pts = [(c[0] - d, c[1] - d), (c[0] + d, c[1] - d), (c[0] - d, c[1] + d), (c[0] + d, c[1] + d), c]
            n = 5
        else:
            p0 = (rng.uniform(-100, 100), rng.uniform(-100, 100))
            pts = [p0] * n
        arr = np.asarray(pts, dtype="float64")
        pts_s = list_s(pts, lambda q: frac_s(q[0]) + ";" + frac_s(q[1]))
        # squared distances as the model computes them in binary64 == what numpy computes here (independent of odc-geo)
        XXn = arr - arr.mean(axis=0)
        sq = (XXn ** 2).sum(axis=1)
        soft.add(f"c20 normxysq {pts_s}", list_s([float(v) for v in sq], frac_s), {"pts": [list(q) for q in pts]}, "normxysq|numpy-reference")
        ds = [math.sqrt(float(v)) for v in sq]
        use_out = rng.random() < 0.3
        got = []

        def fnx():
            if use_out:
                out = np.zeros_like(arr)
                X, A = M.norm_xy(arr.copy(), out=out)
                assert X is out
            else:
                X, A = M.norm_xy(arr.copy())
            got.append((X, A))
            return (list_s(X.tolist(), lambda q: frac_s(q[0]) + ";" + frac_s(q[1])) + f" {frac_s(float(A.a))} {frac_s(float(A.c))} {frac_s(float(A.f))}")

        o_nx = guarded(fnx)
        if kind != "same" or float(np.abs(XXn).max()) == 0.0:      # zero spread off by an ulp: one rounding decides between 1 and 1e14
            soft.add(f"c20 normxy {pts_s} {list_s(ds, frac_s)} {frac_s(r2)}", o_nx, {"pts": [list(q) for q in pts]},
                     f"normxy|{kind}|{'out' if use_out else 'plain'}")
        if got:
            X, A = got[0]
            if kind == "same":
                # zero spread.  When the mean of n equal doubles is that double (always for dyadic-friendly values) the
                # documented fallback applies: X = 0, scale 1.  Otherwise fl(sum/n) is an ulp off, the "spread" is that ulp
                # and the scale explodes (~1e14): an IEEE artefact of a degenerate input, recorded as an observation (the
                # model reproduces it bit for bit); only finiteness and the shape of A are required then.
                if float(np.abs(arr - arr.mean(axis=0)).max()) == 0.0:
                    ok = float(np.abs(X).max()) == 0.0 and A.a == 1.0 and A.e == 1.0
                else:
                    ok = bool(np.all(np.isfinite(X))) and A.a == A.e and A.a > 0 and A.b == 0 and A.d == 0
                    R.count("normxy:zero-spread-mean-rounds-off (scale explodes; observation)")
            else:
                dist = np.sqrt((X ** 2).sum(axis=1))
                sc = max(1.0, float(np.abs(arr).max()))
                ok = (bool(np.all(np.isfinite(X))) and abs(float(dist.mean()) - r2) < 1e-9 * sc and float(np.abs(X.mean(axis=0)).max()) < 1e-9 * sc
                      and A.b == 0 and A.d == 0 and A.a == A.e
                      and float(np.abs(np.asarray([A * (float(x), float(y)) for x, y in pts]) - X).max()) < 1e-9 * sc)
            R.oracle(ok, "norm-xy-contract", {"pts": [list(q) for q in pts]},
                     f"norm_xy: X={X.tolist()} A={tuple(A)[:6]}", sig=f"normxy|{kind}")
    # 8 .. 128 points: numpy sums the distances pairwise (eight accumulators, fixed tree, leftover one by one) -- `normXyP`
    for _ in range(R.pick(60, 600)):
        n = rng.choice([8, 9, 15, 16, 17, 24, 31, 40, 64, 100, 127, 128, rng.randint(8, 128)])
        if rng.random() < 0.5:
            pts = [(rng.uniform(-1e3, 1e3), rng.uniform(-1e3, 1e3)) for _ in range(n)]
        else:
            pts = [(float(rng.randint(-50, 50)), float(rng.randint(-50, 50))) for _ in range(n)]
        arr = np.asarray(pts, dtype="float64")
        XXn = arr - arr.mean(axis=0)
        ds = [math.sqrt(float(v)) for v in (XXn ** 2).sum(axis=1)]
        pts_s = list_s(pts, lambda q: frac_s(q[0]) + ";" + frac_s(q[1]))

        def fnp():
            X, A = M.norm_xy(arr.copy())
            return (list_s(X.tolist(), lambda q: frac_s(q[0]) + ";" + frac_s(q[1])) + f" {frac_s(float(A.a))} {frac_s(float(A.c))} {frac_s(float(A.f))}")

        soft.add(f"c20 normxyp {pts_s} {list_s(ds, frac_s)} {frac_s(r2)}", guarded(fnp), {"pts": [list(q) for q in pts]}, f"normxyp|n{8 * (n // 8)}")
    soft.flush()
    for bad in (np.zeros((3,)), np.zeros((3, 3)), np.zeros((2, 2, 2))):
        r = guarded(lambda: str(M.norm_xy(bad)))
        R.oracle(r == "ERR:AssertionError", "norm-xy-accepts-wrong-shape", {"shape": list(bad.shape)}, r, trivial=True)
    r = guarded(lambda: str(M.norm_xy(np.zeros((3, 2)), out=np.zeros((4, 2)))))
    R.oracle(r == "ERR:AssertionError", "norm-xy-accepts-wrong-shape", {"out": "mismatched"}, r, trivial=True)


def sec_int_types(R: Run, M):
    """numeric-type axis of the integer helpers: align_down / align_up / align_up_pow2 / align_down_pow2 with numpy scalars
    AND arrays of u1, u2, u4, u8, i1, i2, i4, i8 (values and every intermediate of today's formulas inside the type's range,
    alignments incl. non powers of two): the result equals the Python-int answer or the call raises; scalars are also
    compared with the Lean model on the ordinary `alup` / `aldown` / `up2` / `down2` lines."""
    rng = R.rng
    import warnings
    dts = ["u1", "u2", "u4", "u8", "i1", "i2", "i4", "i8"]

    def py_up(x, a):
        return -((-x) // a) * a

    def py_down(x, a):
        return (x // a) * a

    for dt in dts:
        info = np.iinfo(dt)
        for _ in range(R.pick(60, 600)):
            a = rng.choice([1, 2, 3, 5, 6, 7, 10, 12, 16, 100, 127])
            a = min(a, info.max // 2)
            hi = int(info.max) - a
            lo = int(info.min) + a if info.min < 0 else 0
            x = rng.choice([0, 1, a - 1, a, a + 1, 10, hi, hi - 1, lo, rng.randint(lo, hi), rng.randint(lo, min(hi, 300))])
            x = max(lo, min(hi, x))
            xs = np.dtype(dt).type(x)
            a_sp = rng.choice([a, np.dtype(dt).type(a)])
            case = {"x": x, "align": a, "dtype": dt, "align_type": type(a_sp).__name__}
            for fn, want, op in ((M.align_up, py_up(x, a), "alup"), (M.align_down, py_down(x, a), "aldown")):
                with warnings.catch_warnings():
                    warnings.simplefilter("error")
                    o = R.corr(f"c20 {op} {x} {a}", lambda: str(int(fn(xs, a_sp))), sig=f"int-types|{op}|{dt}")
                R.oracle(o.startswith("ERR:") or int(o) == want, "align-numpy-integer-differs-from-python-int", dict(case, fn=op),
                         f"{fn.__name__}(np.{dt}({x}), {a_sp!r}) = {o}, Python ints give {want}", sig=f"int-types|{op}|{dt}")
            if x >= 1:
                for fn, op in ((M.align_up_pow2, "up2"), (M.align_down_pow2, "down2")):
                    o = R.corr(f"c20 {op} {x}", lambda: str(int(fn(xs))), sig=f"int-types|{op}|{dt}")
                    want = (1 << (x - 1).bit_length()) if op == "up2" else (1 << (x.bit_length() - 1))
                    R.oracle(o.startswith("ERR:") or int(o) == want, "align-numpy-integer-differs-from-python-int", dict(case, fn=op),
                             f"{fn.__name__}(np.{dt}({x})) = {o}, Python ints give {want}", sig=f"int-types|{op}|{dt}")
        # arrays (element-wise use of the same formulas)
        for _ in range(R.pick(6, 60)):
            a = min(rng.choice([3, 5, 6, 7, 10, 12, 16, 100]), info.max // 2)
            hi = int(info.max) - a
            lo = int(info.min) + a if info.min < 0 else 0
            vals = [max(lo, min(hi, v)) for v in [0, 1, a, a + 1, 10, hi, lo] + [rng.randint(lo, hi) for _ in range(9)]]
            arr = np.asarray(vals, dtype=dt)
            for fn, py in ((M.align_up, py_up), (M.align_down, py_down)):
                try:
                    with warnings.catch_warnings():
                        warnings.simplefilter("error")
                        got = [int(v) for v in np.asarray(fn(arr, a)).ravel()]
                except Exception:  # pylint: disable=broad-except
                    R.count(f"int-types:array-call-raises|{dt}")
                    continue
                want = [py(v, a) for v in vals]
                R.oracle(got == want, "align-numpy-integer-differs-from-python-int", {"fn": fn.__name__, "dtype": dt, "align": a, "values": vals},
                         f"{fn.__name__}(array[{dt}] {vals}, {a}) = {got}, Python ints give {want}", sig=f"int-types|array|{dt}")


def sec_rws_small(R: Run, M, Affine):
    """decompose_rws on fine grids: pixel sizes 1e-3 .. 1e-7 with rotation / shear terms 1e-6 .. 1e-14 of the scale (so small in
    ABSOLUTE terms that an absolute tolerance mistakes them for zero): the reconstruction R*W*S = A, orthonormal R, unit
    upper W, diagonal S are judged RELATIVE to the matrix scale, and the Affine calling form must agree with the ndarray
    form (also relative)."""
    rng = R.rng
    REL = F(1, 10**11)
    for _ in range(R.pick(600, 6000)):
        s1 = rng.choice([-1, 1]) * 10.0 ** rng.uniform(-7, -3)
        s2 = rng.choice([-1, 1]) * abs(s1) * rng.choice([1.0, 1.0, rng.uniform(0.5, 2.0)])
        e1 = rng.choice([0.0, 1.0, -1.0]) * 10.0 ** rng.uniform(-14, -6)
        e2 = rng.choice([0.0, 1.0, -1.0]) * 10.0 ** rng.uniform(-14, -6)
        A = Affine(s1, abs(s1) * e1, rng.uniform(-180, 180), abs(s1) * e2, s2, rng.uniform(-90, 90))
        case = {"A": aff_s(A), "floats": repr(tuple(A)[:6])}
        try:
            out = M.decompose_rws(A)
            nd = M.decompose_rws(np.asarray([[A.a, A.b], [A.d, A.e]], dtype="float64"))
        except Exception as ex:  # pylint: disable=broad-except
            R.oracle(False, "decompose-rws-raises", case, f"{ex!r}")
            continue
        rws_oracle(R, A, out, REL)
        sc = max(abs(A.a), abs(A.e))
        ok = True
        for Ma, Mn, scale in zip(out, nd, (1.0, 1.0, sc)):
            ea = (Ma.a, Ma.b, Ma.d, Ma.e)
            en = (Mn[0, 0], Mn[0, 1], Mn[1, 0], Mn[1, 1])
            ok = ok and all(abs(F(float(x)) - F(float(y))) <= REL * F(scale) * 100 for x, y in zip(ea, en))
        R.oracle(ok, "decompose-rws-affine-form-differs-from-ndarray-form", case,
                 f"Affine form {[tuple(m)[:6] for m in out]} vs ndarray form {[m.tolist() for m in nd]}", sig="rws-small-forms")


def sec_growth(R: Run, M, Affine):
    """split_translation; Poly2d.fit dispatch and design matrices (norm_xy and lstsq substituted from the harness so that the
    rows LAPACK receives are observable and exact)"""
    from odc.geo import xy_
    rng = R.rng
    # split_translation: exact for every finite double (it is split_float per axis)
    vals = [0.0, 0.5, -0.5, 1.5, -2.5, 0.49999999999999994, 1e15 + 0.5, -3.25, 7.75]
    for _ in range(R.pick(600, 6000)):
        x = rng.choice(vals) if rng.random() < 0.3 else rnd_double(rng)
        y = rng.choice(vals) if rng.random() < 0.3 else rnd_double(rng)
        if not (math.isfinite(x) and math.isfinite(y)):
            continue
        out = []

        def f():
            w, p = M.split_translation(xy_(x, y))
            out.append((w, p))
            return f"{frac_s(w.x)};{frac_s(w.y)} {frac_s(p.x)};{frac_s(p.y)}"

        R.corr(f"c20 splittr {frac_s(x)} {frac_s(y)}", f, sig="splittr")
        if out:
            w, p = out[0]
            ok = (F(w.x) + F(p.x) == F(x) and F(w.y) + F(p.y) == F(y) and abs(F(p.x)) <= F(1, 2) and abs(F(p.y)) <= F(1, 2)
                  and F(w.x).denominator == 1 and F(w.y).denominator == 1)
            R.oracle(ok, "split-translation-contract", {"x": frac_s(x), "y": frac_s(y)}, f"{w} {p}", sig="splittr")
    # Poly2d.fit: which family for N points, and the design-matrix rows
    orig_norm, orig_lstsq = M.norm_xy, np.linalg.lstsq
    for N in list(range(0, 13)) + [16, 20, 30]:
        for rep in range(R.pick(2, 10)):
            pts = set()
            while len(pts) < N:
                pts.add((rng.randint(-16, 16) / 4, rng.randint(-16, 16) / 4))
            pts = sorted(pts)
            rng.shuffle(pts)
            aa = np.asarray(pts, dtype="float64").reshape(-1, 2)
            bb = aa * 2 + 1
            seen = []

            def fake_norm(p, out=None):
                return np.array(p, dtype="float64", copy=True), Affine.identity()

            hook = {"norm": 0}

            def fake_norm2(p, out=None):
                hook["norm"] += 1
                return fake_norm(p, out)

            def spy(AA, B, rcond=None):
                seen.append(np.array(AA, copy=True))
                return orig_lstsq(AA, B, rcond=rcond)

            def fk():
                M.norm_xy = fake_norm2
                np.linalg.lstsq = spy
                try:
                    P = M.Poly2d.fit(aa, bb)
                finally:
                    M.norm_xy = orig_norm
                    np.linalg.lstsq = orig_lstsq
                if not seen or hook["norm"] != 2:
                    return "HOOK-BYPASSED"
                AA = seen[-1]
                cc_ = getattr(P, "_cc", None)
                k = cc_.shape[0] if cc_ is not None else (3 if AA.shape[1] == 9 else 2)
                name = {3: "affine", 4: "bilinear", 9: "biquadratic"}.get(AA.shape[1], f"cols{AA.shape[1]}")
                return f"{name} {AA.shape[1]} {k}"

            o_fk = guarded(fk)
            if o_fk == "HOOK-BYPASSED":
                # the fit no longer goes through math.norm_xy / numpy.linalg.lstsq as module-level names: the design rows
                # are not observable this way; the behavioural fit oracles (sec_fit, sec_fit_types) still apply
                if "fitkind stream skipped: Poly2d.fit bypasses the norm_xy / lstsq interception points" not in R.notes:
                    R.notes.append("fitkind stream skipped: Poly2d.fit bypasses the norm_xy / lstsq interception points")
                R.count("fitkind:hook-bypassed")
                continue
            R.corr(f"c20 fitkind {N}", lambda: o_fk, sig=f"fitkind|{min(N, 10)}")
            if seen and seen[-1].shape[0] == N:
                AA = seen[-1]
                for i in rng.sample(range(N), min(N, 3)):
                    x, y = pts[i]
                    R.corr(f"c20 designs {N} {frac_s(x)} {frac_s(y)}", lambda: list_s(sorted(float(v) for v in AA[i]), frac_s),
                           sig=f"design|{AA.shape[1]}")
    assert M.norm_xy is orig_norm and np.linalg.lstsq is orig_lstsq


def run(R: Run):
    M, Affine = _import()
    sec_split_int(R, M)
    sec_snap_scale(R, M)
    sec_pow2(R, M)
    sec_snap_grid(R, M)
    sec_axis(R, M, Affine)
    sec_affine(R, M, Affine)
    sec_rws(R, M, Affine)
    sec_fit(R, M, Affine)
    sec_fit_types(R, M, Affine)
    sec_bin(R, M)
    sec_poly(R, M, Affine)
    sec_poly_routes(R, M, Affine)
    sec_glue(R, M, Affine)
    sec_nonfinite(R, M, Affine)
    sec_seq(R, M)
    sec_normxy(R, M)
    sec_int_types(R, M)
    sec_rws_small(R, M, Affine)
    sec_growth(R, M, Affine)
    R.exhaustive = False


def replay(R: Run, rec) -> int:
    M, Affine = _import()
    case = rec.get("case") or {}
    key = rec.get("key", "")
    print("replay key:", key)
    print("replay case:", case)

    def fr(s):
        return None if s == "N" else F(s)

    if key.startswith("snap-grid"):
        x0, x1, res, off, tol = (fr(case[k]) for k in ("x0", "x1", "res", "off", "tol"))
        tx, nx = M.snap_grid(float(x0), float(x1), float(res), None if off is None else float(off), float(tol))
        print(f"snap_grid({float(x0)!r}, {float(x1)!r}, {float(res)!r}, {None if off is None else float(off)!r}, tol={float(tol)!r}) = {(tx, nx)}")
        R2 = Run("C20", "quick", 0)
        sl = F(0) if "float" not in key else max(abs(x0), abs(x1), abs(res)) * F(1, 10**9)
        grid_oracle(R2, x0, x1, res, off, tol, F(tx), int(nx), sl, key_prefix=key.rsplit("-not-", 1)[0].rsplit("-empty", 1)[0].rsplit("-floating", 1)[0])
        for f in R2.oracle_failures:
            print("FAILS:", f["key"], f["what"])
        return 1 if R2.oracle_failures else 0
    if key.startswith("poly2d-input-transform"):
        k = case["k"]
        cc = [tuple(F(v) for v in c.split(";")) for c in case["cc"].strip("[]").split(",")]
        A1 = [F(v) for v in case["A"].split(";")]
        A2 = [F(v) for v in case["A2"].split(";")]
        x, y = F(case["x"]), F(case["y"])
        arr = np.asarray([[float(c[0]), float(c[1])] for c in cc], dtype="float64").reshape(k, k, 2)
        P = M.Poly2d(arr, Affine(*[float(v) for v in A1]))
        A2a = Affine(*[float(v) for v in A2])
        got = P.with_input_transform(A2a)(float(x), float(y))
        want = P(*(A2a * (float(x), float(y))))
        print("p.with_input_transform(A2)(x,y) =", got, "  p(A2*(x,y)) =", want)
        return 0 if list(got) == list(want) else 1
    if key == "maybe-int-vs-almost-int-vs-tol":
        x, tol = float(F(case["x"])), float(F(case["tol"]))
        print("maybe_int:", M.maybe_int(x, tol), "is_almost_int:", M.is_almost_int(x, tol))
    if key == "split-float-contract":
        x = float(F(case["x"]))
        w, p = M.split_float(x)
        print("split_float:", (w, p))
        return 0 if (F(w) + F(p) == F(x) and abs(F(p)) <= F(1, 2) and F(w).denominator == 1) else 1
    if key.startswith("snap-scale"):
        s, tol = float(F(case["s"])), float(F(case["tol"]))
        print("snap_scale:", guarded(lambda: repr(M.snap_scale(s, tol))))
    if "line" in case:
        print("model:", run_driver("C20", [case["line"]]))
    # generic: re-run the whole check; the failing key must not reappear
    R3 = Run("C20", rec.get("tier", "quick"), int(rec.get("seed", 0)))
    run(R3)
    bad = [f for f in R3.oracle_failures if f["key"] == key]
    for f in bad[:3]:
        print("FAILS:", f["key"], f["case"], f["what"])
    return 1 if bad else 0
