"""C03 — the glue around the planning core, driven through the public entry points:
decompose_rws / get_scale_from_linear_transform, GbxPointTransform.__call__ (with an exact stand-in for the CRS
transformer), native_pix_transform's dispatch, compute_reproject_roi for GeoBoxes in DIFFERENT CRSs (model:
OdcGeo.Model.C03Top)."""
from __future__ import annotations

import math
from contextlib import contextmanager
from fractions import Fraction

import numpy as np
from affine import Affine

from .common import Run, bool_s, frac_s, guarded, list_s, opt_s

LAT = 20  # lattice 2^-20 for values that are exact rationals but not dyadic


def aff_s(A) -> str:
    return ";".join(frac_s(v) for v in (A.a, A.b, A.c, A.d, A.e, A.f))


def aff_lat(A) -> str:
    return ";".join(str(int(math.floor(float(v) * 2**LAT + 0.5))) for v in (A.a, A.b, A.c, A.d, A.e, A.f))


def lat(v) -> str:
    return str(int(math.floor(float(v) * 2**LAT + 0.5)))


def ns(s) -> str:
    return f"{int(s.start)}:{int(s.stop)}"


def roi_s(r) -> str:
    return f"{ns(r[0])} {ns(r[1])}"


def faff(A):
    return tuple(Fraction(v) for v in (A.a, A.b, A.c, A.d, A.e, A.f))


def fapply(A6, p):
    a, b, c, d, e, f = A6
    return (a * p[0] + b * p[1] + c, d * p[0] + e * p[1] + f)


def finv(A6):
    a, b, c, d, e, f = A6
    det = a * e - b * d
    ra, rb, rd, re = e / det, -b / det, -d / det, a / det
    return (ra, rb, -c * ra - f * rb, rd, re, -c * rd - f * re)


def is_sq(q: Fraction) -> bool:
    return q >= 0 and math.isqrt(q.numerator) ** 2 == q.numerator and math.isqrt(q.denominator) ** 2 == q.denominator


# ------------------------------------------------------------------ exact stand-ins for a CRS transformer
class Proj:
    """(spec string for the driver, numpy function for the real code, exact Fraction function for the oracle)"""

    def __init__(self, spec, fn, ffn):
        self.spec, self.fn, self.ffn = spec, fn, ffn

    def __call__(self, x, y, **kw):
        x, y = np.asarray(x, dtype="float64"), np.asarray(y, dtype="float64")
        return self.fn(x, y)


def proj_aff(kx, ky, ox, oy):
    return Proj(f"aff:{frac_s(kx)}:{frac_s(ky)}:{frac_s(ox)}:{frac_s(oy)}", lambda x, y: (kx * x + ox, ky * y + oy),
                lambda p: (Fraction(kx) * p[0] + Fraction(ox), Fraction(ky) * p[1] + Fraction(oy)))


def proj_swap(k):
    return Proj(f"swap:{frac_s(k)}", lambda x, y: (k * y, k * x), lambda p: (Fraction(k) * p[1], Fraction(k) * p[0]))


def proj_quad(j, sign=1):
    nm = "quad" if sign > 0 else "unquad"
    return Proj(f"{nm}:{frac_s(j)}", lambda x, y: (x + sign * j * y * y, y),
                lambda p: (p[0] + sign * Fraction(j) * p[1] * p[1], p[1]))


def proj_cut(x0, k):
    def fn(x, y):
        ok = x <= x0
        return np.where(ok, k * x, np.inf), np.where(ok, k * y, np.inf)

    return Proj(f"cut:{frac_s(x0)}:{frac_s(k)}", fn, lambda p: (Fraction(k) * p[0], Fraction(k) * p[1]) if p[0] <= x0 else None)


def proj_pair(rng):
    """(forward, backward, kind): exact inverses of each other where both are finite"""
    kind = rng.choice(["aff", "aff", "aff", "swap", "quad", "cut", "cutb"])
    if kind == "cutb":  # the BACK transformer has no answer beyond a meridian (fixed up by the caller once the grid is known)
        k = 2.0 ** rng.randint(-2, 2)
        return proj_aff(k, k, 0, 0), None, kind
    if kind == "aff":
        kx, ky = (2.0 ** rng.randint(-3, 3) * rng.choice([1, 1, -1]) for _ in range(2))
        ox, oy = rng.randint(-64, 64) / 4, rng.randint(-64, 64) / 4
        return proj_aff(kx, ky, ox, oy), proj_aff(1 / kx, 1 / ky, -ox / kx, -oy / ky), kind
    if kind == "swap":
        k = 2.0 ** rng.randint(-2, 2)
        return proj_swap(k), proj_swap(1 / k), kind
    if kind == "quad":
        j = 2.0 ** rng.randint(-8, -4) * rng.choice([1, -1])
        return proj_quad(j), proj_quad(j, -1), kind
    k = 2.0 ** rng.randint(-2, 2)
    x0 = rng.randint(-20, 60) / 2
    return proj_cut(x0, k), proj_aff(1 / k, 1 / k, 0, 0), kind


@contextmanager
def fake_transformers(CRS, table):
    """install exact functions in place of the pyproj transformers of the listed (source CRS, destination CRS) pairs"""
    orig = CRS.transformer_to_crs

    def patched(self, other, always_xy=True):
        fn = table.get((str(self), str(other)))
        return fn if fn is not None else orig(self, other, always_xy)

    CRS.transformer_to_crs = patched
    try:
        yield
    finally:
        CRS.transformer_to_crs = orig


def clamp_geo(p):
    return (min(max(p[0], -180), 180), min(max(p[1], -90), 90))


def corners_in_range(A6, shape):
    for x in (0, shape[1]):
        for y in (0, shape[0]):
            w = fapply(A6, (Fraction(x), Fraction(y)))
            if clamp_geo(w) != w:
                return False
    return True


def judge_top(R, case, r, S6, D6, sshape, dshape, sgeo, dgeo, pb, kind, pad, same, singular):
    """model-independent oracles (exact rationals) where the envelope of the boundary samples is the envelope of the whole
    image: affine / axis-swapping transformers.  A clamp that is active on either side makes tr.back o tr differ from the
    identity: then only the source side is judged (destination-side clamp) or nothing (source side)"""
    if same or kind not in ("aff", "swap") or singular or (sgeo and not corners_in_range(S6, sshape)):
        return
    dst_clamped = dgeo and not corners_in_range(D6, dshape)
    if dst_clamped and not ((S6[1] == 0 and S6[3] == 0 or S6[0] == 0 and S6[4] == 0) and (D6[1] == 0 and D6[3] == 0 or D6[0] == 0 and D6[4] == 0)):
        return  # clamp + shear: the image of the rectangle is no longer spanned by the corner images
    if dst_clamped and pad == 0:
        return  # a clamp plateau puts many centres exactly ON the extreme sample: with no padding the half-open region ends there
    Si = finv(S6)
    (ys, xs), (yd, xd) = r.roi_src, r.roi_dst
    within = (0 <= yd.start <= dshape[0] and 0 <= yd.stop <= dshape[0] and 0 <= xd.start <= dshape[1] and 0 <= xd.stop <= dshape[1]
              and 0 <= ys.start and ys.stop <= sshape[0] and 0 <= xs.start and xs.stop <= sshape[1])
    R.oracle(within, "gbx-plan-outside-image", case, f"roi_src={r.roi_src} roi_dst={r.roi_dst}", sig="top|gbx|within")

    def back_exact(p):
        w = fapply(D6, p)
        if dgeo:
            w = clamp_geo(w)
        return fapply(Si, pb.ffn(w))

    # separated by more than the padding margin => both regions have zero area
    cs = [back_exact((Fraction(x), Fraction(y))) for x in (0, dshape[1]) for y in (0, dshape[0])]
    margin = 1 if pad is None else pad
    sep = (max(c_[0] for c_ in cs) + margin < 0 or min(c_[0] for c_ in cs) - margin > sshape[1]
           or max(c_[1] for c_ in cs) + margin < 0 or min(c_[1] for c_ in cs) - margin > sshape[0])
    if sep:
        area = lambda r_: max(0, r_[0].stop - r_[0].start) * max(0, r_[1].stop - r_[1].start)  # noqa: E731
        R.oracle(area(r.roi_src) == 0 and area(r.roi_dst) == 0, "gbx-plan-separated-not-empty", case,
                 f"the image of the destination lies more than the padding margin {margin} outside the source "
                 f"(corner images {[(float(u), float(v)) for u, v in cs]}, source {sshape}) but roi_src={r.roi_src} "
                 f"roi_dst={r.roi_dst}", sig="top|gbx|separated")
    if dshape[0] * dshape[1] > 2500:
        return
    bad = None
    anyin = False
    for iy in range(dshape[0]):
        for ix in range(dshape[1]):
            q = back_exact((Fraction(2 * ix + 1, 2), Fraction(2 * iy + 1, 2)))
            if 0 <= q[0] < sshape[1] and 0 <= q[1] < sshape[0]:
                anyin = True
                in_dst = dst_clamped or (yd.start <= iy < yd.stop and xd.start <= ix < xd.stop)
                if not (in_dst and xs.start <= math.floor(q[0]) < xs.stop and ys.start <= math.floor(q[1]) < ys.stop):
                    bad = (iy, ix, float(q[0]), float(q[1]))
                    break
        if bad:
            break
    R.oracle(bad is None, "gbx-plan-pixel-dropped", case,
             f"dst pixel (row {bad and bad[0]}, col {bad and bad[1]}) maps to src ({bad and bad[2]}, {bad and bad[3]}) inside the "
             f"source but roi_src={r.roi_src} roi_dst={r.roi_dst}", sig="top|gbx|covers", trivial=not anyin)


def npt_sides():
    from odc.geo import gcp as GCP
    from odc.geo.geobox import GeoBox
    from odc.geo.types import wh_

    B0 = Affine(32.0, 0, 5e5, 0, -32.0, 6e6)
    pix = np.asarray([(x, y) for x in np.linspace(0, 16, 4) for y in np.linspace(0, 12, 4)], dtype="float64")
    wld = np.asarray([B0 * (float(x), float(y)) for x, y in pix], dtype="float64")
    return {
        ("T", "a"): GeoBox(wh_(16, 12), B0, "EPSG:32633"), ("T", "b"): GeoBox(wh_(16, 12), B0, "EPSG:3857"),
        ("F", "a"): GCP.GCPGeoBox((12, 16), GCP.GCPMapping(pix, wld, "EPSG:32633")),
        ("F", "b"): GCP.GCPGeoBox((12, 16), GCP.GCPMapping(pix, wld, "EPSG:3857")),
    }


def replay_npt(R, case) -> None:
    from odc.geo import overlap as O

    sides = npt_sides()
    sgb, dgb, eq = case["src_is_geobox"], case["dst_is_geobox"], case["same_crs"]
    try:
        tr = O.native_pix_transform(sides[(sgb, "a")], sides[(dgb, "a" if eq == "T" else "b")])
        out = "linear" if tr.linear is not None else "gbx"
    except Exception as ex:  # pylint: disable=broad-except
        out = "ERR:" + type(ex).__name__
    print("native_pix_transform ->", out)
    R.oracle(not out.startswith("ERR"), "pix-transform-raises", case, out)
    R.oracle(out != "linear" or (sgb, dgb, eq) == ("T", "T", "T"), "non-linear-pair-planned-as-linear", case, out)


def proj_from_spec(spec):
    t = spec.split(":")
    v = [float(Fraction(x)) for x in t[1:]]
    return {"aff": lambda: proj_aff(*v), "swap": lambda: proj_swap(*v), "quad": lambda: proj_quad(v[0]),
            "unquad": lambda: proj_quad(v[0], -1), "cut": lambda: proj_cut(*v)}[t[0]]()


def replay_top(R, case) -> None:
    """re-run one compute_reproject_roi/fake-transformer case and judge it"""
    from odc.geo import overlap as O
    from odc.geo.crs import CRS
    from odc.geo.geobox import GeoBox
    from odc.geo.types import wh_

    from . import c03

    ca, cb = CRS(case["src_crs"]), CRS(case["dst_crs"])
    S, D = Affine(*case["src_affine"]), Affine(*case["dst_affine"])
    ss, ds = tuple(case["src_shape"]), tuple(case["dst_shape"])
    pf, pb = proj_from_spec(case["proj_fwd"]), proj_from_spec(case["proj_back"])
    src, dst = GeoBox(wh_(ss[1], ss[0]), S, ca), GeoBox(wh_(ds[1], ds[0]), D, cb)
    with fake_transformers(CRS, {(str(ca), str(cb)): pf, (str(cb), str(ca)): pb}):
        r = c03.call_plan(O, case.get("positional", False), src, dst, ttol=case["ttol"], stol=case["stol"],
                          padding=case["padding"], align=case["align"])
    print("roi_src", r.roi_src, "roi_dst", r.roi_dst, "paste_ok", r.paste_ok, "read_shrink", r.read_shrink)
    same = case["src_crs"] == case["dst_crs"]
    R.oracle(same or not r.paste_ok, "paste-ok-for-different-crs", case, "paste_ok for GeoBoxes in different CRSs")
    R.oracle((r.transform.linear is not None) == same, "crs-sameness-misjudged", case, "dispatch")
    judge_top(R, case, r, faff(S), faff(D), ss, ds, ca.geographic, cb.geographic, pb, case["proj_fwd"].split(":")[0],
              case["padding"], same, False)


CRS_PAIRS = [("EPSG:4326", "EPSG:3857"), ("EPSG:3857", "EPSG:4326"), ("EPSG:3857", "EPSG:32633"), ("EPSG:32633", "EPSG:3577"),
             ("EPSG:4326", "EPSG:4269"), ("EPSG:4326", "EPSG:3857"), ("EPSG:3857", "EPSG:3857"), ("EPSG:4326", "EPSG:4326")]


def run_top(R: Run, only_plans=False):
    from odc.geo import gcp as GCP
    from odc.geo import math as M
    from odc.geo import overlap as O
    from odc.geo.crs import CRS
    from odc.geo.geobox import GeoBox
    from odc.geo.types import wh_, xy_

    rng = R.rng

    def gb(shape, A, crs):
        return GeoBox(wh_(shape[1], shape[0]), A, crs)

    def dyq(k, lo, hi):
        return rng.randint(lo * 2**k, hi * 2**k) / 2**k

    # does replacing the public CRS.transformer_to_crs reach the planner's pixel transform on this tree?  (it is the only
    # internal seam used here; if a refactoring routes around it the cross-CRS glue streams are skipped, not failed)
    probe_calls = []

    def probe(x, y, **kw):
        probe_calls.append(1)
        return np.asarray(x, dtype="float64") * 1.0, np.asarray(y, dtype="float64") * 1.0

    try:
        with fake_transformers(CRS, {(str(CRS("EPSG:3857")), str(CRS("EPSG:32633"))): probe,
                                     (str(CRS("EPSG:32633")), str(CRS("EPSG:3857"))): probe}):
            O.compute_reproject_roi(gb((4, 4), Affine.identity(), CRS("EPSG:3857")), gb((4, 4), Affine.identity(), CRS("EPSG:32633")))
    except Exception:  # pylint: disable=broad-except
        pass
    seam_ok = bool(probe_calls)
    if not seam_ok:
        R.count("top|transformer-seam-not-reached")
        R.notes.append("CRS.transformer_to_crs is not what the planner's pixel transform calls on this tree: the exact cross-CRS "
                       "glue streams (gbx, top|gbx) were skipped; pyproj-based oracles still ran")

    # ================================================================ decompose_rws / get_scale_from_linear_transform
    def rws_out(A, fmt):
        Rm, Wm, Sm = M.decompose_rws(A)
        return f"{fmt(Rm)} {fmt(Wm)} {fmt(Sm)}"

    for _ in range(0 if only_plans else R.pick(700, 7000)):
        fam = rng.choice(["st", "rot90", "shear-x", "shear-y", "pyth", "pyth", "singular"])
        n2 = 2.0 ** rng.randint(-3, 4)
        sg = lambda: rng.choice([1, 1, -1])  # noqa: E731
        c, f = dyq(4, -100, 100), dyq(4, -100, 100)
        exact = True
        if fam == "st":
            A = Affine(n2 * sg(), 0, c, 0, 2.0 ** rng.randint(-3, 4) * sg(), f)
        elif fam == "rot90":
            A = Affine(0, 2.0 ** rng.randint(-3, 4) * sg(), c, n2 * sg(), 0, f)
        elif fam == "shear-x":  # (a, d) = (±2^k, 0): det = a e
            A = Affine(n2 * sg(), dyq(3, -8, 8), c, 0, 2.0 ** rng.randint(-3, 4) * sg(), f)
        elif fam == "shear-y":  # (a, d) = (0, ±2^k): det = -b d
            A = Affine(0, 2.0 ** rng.randint(-3, 4) * sg(), c, n2 * sg(), dyq(3, -8, 8), f)
        elif fam == "pyth":  # rational root that is not a power of two: compared on the 2^-20 lattice
            p_, q_ = rng.choice([(3, 4), (4, 3), (5, 12), (8, 15), (6, 8), (20, 21), (3, 0), (0, 7), (1.5, 2)])
            A = Affine(p_ * sg(), rng.randint(-9, 9), c, q_ * sg(), rng.randint(-9, 9), f)
            exact = False
        else:  # singular: second column a multiple of the first (or zero); integer entries keep the Cholesky pivot exactly 0
            p_, q_ = rng.choice([(3, 4), (4, 3), (1, 0), (0, 2), (5, 12), (0, 0), (2, 0)])
            lam = rng.choice([0, 1, -2, 3])
            A = Affine(p_, lam * p_, c, q_, lam * q_, f)
        det = Fraction(A.a) * Fraction(A.e) - Fraction(A.b) * Fraction(A.d)
        if fam != "singular" and det == 0:
            continue
        tag = fam + ("|mirrored" if det < 0 else "")
        if exact:
            R.corr(f"c03 rws {aff_s(A)}", lambda: rws_out(A, aff_s), sig="rws|" + tag)
            R.corr(f"c03 getscale {aff_s(A)}",
                   lambda: " ".join(frac_s(v) for v in O.get_scale_from_linear_transform(A).xy), sig="getscale|" + tag)
        else:
            R.corr(f"c03 rwsl {LAT} {aff_s(A)}", lambda: rws_out(A, aff_lat), sig="rwsl|" + tag)
        if fam != "singular":  # model-independent: A = R W S, R a proper rotation, W unit upper triangular, S diagonal
            try:
                Rm, Wm, Sm = M.decompose_rws(A)
                back = Rm * Wm * Sm
                ok = (all(abs(u - v) <= 1e-9 * max(1, abs(v)) for u, v in zip(back[:6], A[:6]))
                      and abs(Rm.a * Rm.e - Rm.b * Rm.d - 1) < 1e-9 and abs(Rm.a * Rm.b + Rm.d * Rm.e) < 1e-9
                      and abs(Wm.a - 1) < 1e-12 and abs(Wm.e - 1) < 1e-12 and (Wm.d, Wm.c, Wm.f) == (0, 0, 0)
                      and (Sm.b, Sm.d, Sm.c, Sm.f) == (0, 0, 0, 0)
                      and Sm.a > 0 and (Sm.e < 0) == (det < 0))
                R.oracle(ok, "rws-not-a-decomposition", {"fn": "decompose_rws", "A": list(A)[:6]},
                         f"R={Rm[:6]} W={Wm[:6]} S={Sm[:6]}", sig="rws|" + tag)
            except Exception as ex:  # pylint: disable=broad-except
                R.oracle(False, "rws-raises", {"fn": "decompose_rws", "A": list(A)[:6]}, f"{type(ex).__name__}: {ex}", sig="rws|raises")

    # ================================================================ native_pix_transform: dispatch on classes and CRS equality
    sides = npt_sides()
    for sgb in ("" if only_plans else "TF"):
        for dgb in "TF":
            for eq in "TF":
                s_, d_ = sides[(sgb, "a")], sides[(dgb, "a" if eq == "T" else "b")]

                def fnpt():
                    tr = O.native_pix_transform(s_, d_)
                    kind = {O.LinearPointTransform: "linear", O.GbxPointTransform: "gbx"}[type(tr)]
                    assert (tr.linear is not None) == (kind == "linear")
                    return kind

                out_ = R.corr(f"c03 npt {sgb} {dgb} {eq}", fnpt, sig=f"npt|{sgb}{dgb}{eq}")
                # a side that is not a GeoBox has a non-linear pixel <-> world mapping: planning it as a linear (paste-able)
                # pair drops pixels; different CRSs are never linear either
                R.oracle(not out_.startswith("ERR"), "pix-transform-raises",
                         {"fn": "native_pix_transform", "src_is_geobox": sgb, "dst_is_geobox": dgb, "same_crs": eq},
                         f"native_pix_transform raised {out_} for src GeoBox={sgb} dst GeoBox={dgb} equal CRS={eq}", sig="npt")
                R.oracle(out_ != "linear" or (sgb, dgb, eq) == ("T", "T", "T"), "non-linear-pair-planned-as-linear",
                         {"fn": "native_pix_transform", "src_is_geobox": sgb, "dst_is_geobox": dgb, "same_crs": eq},
                         f"native_pix_transform returned {out_} for src GeoBox={sgb} dst GeoBox={dgb} equal CRS={eq}", sig="npt")

    # ================================================================ GbxPointTransform.__call__ with an exact transformer
    def world_affine(geo):
        """pixel -> world: a lon/lat-like grid that reaches beyond ±180 / ±90 half of the time for geographic CRSs"""
        res = 2.0 ** rng.randint(-3, 1)
        sx, sy = res * rng.choice([1, 1, -1]), res * rng.choice([-1, -1, 1])
        if geo:
            x0 = rng.choice([170, 176, -184, -90, 0, 178.5, 100]) + rng.randint(-8, 8) / 4
            y0 = rng.choice([88, 80, -86, 0, 45, 91.5]) + rng.randint(-8, 8) / 4
        else:
            x0, y0 = rng.randint(-400, 400) / 4, rng.randint(-400, 400) / 4
        A = Affine(sx, 0, x0, 0, sy, y0)
        if rng.random() < 0.15:
            A = A * Affine(0, 1, 0, 1, 0, 0)  # axes swapped (rotated grid)
        if rng.random() < 0.1:
            A = A * Affine(1, 0.5, 0, 0, 1, 0)  # sheared
        return A

    for _ in range(0 if (only_plans or not seam_ok) else R.pick(500, 5000)):
        a, b = rng.choice(CRS_PAIRS[:6])
        ca, cb = CRS(a), CRS(b)
        S, D = world_affine(ca.geographic), world_affine(cb.geographic)
        pf, pb, kind = proj_pair(rng)
        if pb is None:
            pb = proj_cut(rng.randint(-40, 120) / 2, 1 / float(pf.ffn((Fraction(1), Fraction(1)))[0]))
        src, dst = gb((8, 8), S, ca), gb((8, 8), D, cb)
        pts = [(dyq(2, -10, 30), dyq(2, -10, 30)) for _ in range(rng.randint(1, 8))]
        for (P_, Q_, g_, pj, which) in ((S, D, ca.geographic, pf, "fwd"), (D, S, cb.geographic, pb, "back")):
            def fgbx():
                with fake_transformers(CRS, {(str(ca), str(cb)): pf, (str(cb), str(ca)): pb}):
                    tr = O.native_pix_transform(src, dst)
                    t = tr if which == "fwd" else tr.back
                    out = t([xy_(float(x), float(y)) for x, y in pts])
                return list_s([f"{frac_s(p.x)};{frac_s(p.y)}" if (math.isfinite(p.x) and math.isfinite(p.y)) else "nf" for p in out])

            # does the clamp move one of the points?  (distribution only)
            act = g_ and any(clamp_geo(fapply(faff(P_), (Fraction(x), Fraction(y)))) != fapply(faff(P_), (Fraction(x), Fraction(y)))
                             for x, y in pts)
            R.corr(f"c03 gbx {aff_s(P_)} {bool_s(g_)} {pj.spec} {aff_s(Q_)} {list_s([f'{frac_s(x)};{frac_s(y)}' for x, y in pts])}",
                   fgbx, sig=f"gbx|{which}|{kind}|" + ("geo-clamped" if act else "geo" if g_ else "proj"))

    # ================================================================ compute_reproject_roi, GeoBoxes in different CRSs
    from . import c03

    n_top = R.pick(900, 9000)
    for _ in range(n_top):
        a, b = rng.choice(CRS_PAIRS if seam_ok else CRS_PAIRS[-2:])
        ca, cb = CRS(a), CRS(b)
        same = a == b
        pf, pb, kind = proj_pair(rng)
        sshape, dshape = (rng.randint(1, 30), rng.randint(1, 30)), (rng.randint(1, 30), rng.randint(1, 30))
        if rng.random() < 0.15:
            dshape = (rng.choice([1, 2, 3]), rng.randint(40, 400))[:: rng.choice([1, -1])]
        S = world_affine(ca.geographic)
        Mx, mkind = c03.gen_M_exact(rng, sshape, dshape)
        twin = rng.random() < 0.08  # numerically identical grids: same shape, same affine numbers (in the same or another CRS)
        if twin:
            dshape, Mx, mkind = sshape, Affine.identity(), "twin"
        elif rng.random() < 0.6:  # the image of the destination's centre lands inside or just next to the source
            qx, qy = Mx * (dshape[1] / 2, dshape[0] / 2)
            Mx = Affine.translation(rng.randint(-2, sshape[1] + 2) - round(qx), rng.randint(-2, sshape[0] + 2) - round(qy)) * Mx
        if rng.random() < 0.25:  # disjoint, a fraction of a pixel (or a little more than a padding) beyond one source edge
            cxs = [(Mx * (x, y))[0] for x in (0, dshape[1]) for y in (0, dshape[0])]
            cys = [(Mx * (x, y))[1] for x in (0, dshape[1]) for y in (0, dshape[0])]
            gap = rng.choice([0, 1, 1, 2, 5]) + rng.choice([0.25, 0.5, 0.5, 0.75, 1.0])
            sd = rng.choice(["right", "left", "below", "above"])
            sh = {"right": (sshape[1] + gap - min(cxs), 0), "left": (-gap - max(cxs), 0), "below": (0, sshape[0] + gap - min(cys)),
                  "above": (0, -gap - max(cys))}[sd]
            Mx = Affine.translation(*sh) * Mx
            mkind += "|gap"
        if any(Fraction(v) * 64 % 1 != 0 for v in (Mx.c, Mx.f)):
            Mx = Affine(Mx.a, Mx.b, round(Mx.c * 4) / 4, Mx.d, Mx.e, round(Mx.f * 4) / 4)
        # destination grid: the forward transformer's linear part applied to the source grid, then the relative placement
        if same or twin:
            D = S * Mx
        elif kind == "aff":
            L = Affine(*[float(v) for v in (pf.ffn((1, 0))[0] - pf.ffn((0, 0))[0], 0, pf.ffn((0, 0))[0], 0,
                                              pf.ffn((0, 1))[1] - pf.ffn((0, 0))[1], pf.ffn((0, 0))[1])])
            D = L * S * Mx
        elif kind == "swap":
            k = float(pf.ffn((0, 1))[0])
            D = Affine(0, k, 0, k, 0, 0) * S * Mx
        elif kind in ("cut", "cutb"):
            k = float(pf.ffn((Fraction(-10**6), Fraction(1)))[1])
            D = Affine.scale(k) * S * Mx
            if kind == "cutb":  # no image for destination world x beyond the meridian through a random destination pixel corner
                cx0 = (D * (rng.randint(0, dshape[1]), rng.randint(0, dshape[0])))[0]
                pb = proj_cut(cx0, 1 / k)
        else:
            D = S * Mx
        if pb is None:
            pb = proj_cut(0.0, 1.0)
        if rng.random() < 0.03:  # singular grids: TransformNotInvertibleError on one side or the other
            if rng.random() < 0.5:
                S = Affine(S.a, S.b, S.c, 0, 0, S.f)
            else:
                D = Affine(D.a, D.b, D.c, 0, 0, D.f)
        if any(Fraction(v) * 2**12 % 1 != 0 or abs(v) > 2**20 for v in list(D)[:6] + list(S)[:6]):
            R.count("top-skipped-inexact")
            continue
        pad = rng.choice([None, None, None, 0, 1, 2, 5])
        al = rng.choice([None, None, None, 0, 2, 4, 16])
        if twin and rng.random() < 0.8:
            pad, al = rng.choice([None, None, 0]), rng.choice([None, None, 0])
        ttol, stol = rng.choice([0.05, 0.05, 2**-4, 0.26]), rng.choice([1e-3, 1e-3, 2**-7])
        src, dst = gb(sshape, S, ca), gb(dshape, D, cb)
        S6, D6 = faff(S), faff(D)
        singular = (S6[0] * S6[4] - S6[1] * S6[3] == 0) or (D6[0] * D6[4] - D6[1] * D6[3] == 0)
        # full plan (with read_shrink and the scale) when the pixel transform is affine where the scale is estimated:
        # affine transformer and no clamp in reach; otherwise the two regions and paste_ok
        clamp_free = ((not ca.geographic or corners_in_range(S6, sshape)) and (not cb.geographic or corners_in_range(D6, dshape)))
        full = same or (kind in ("aff", "swap") and clamp_free and not singular)
        if full and not same and not singular:
            Bk = None
            try:
                o0 = fapply(finv(S6), pb.ffn(fapply(D6, (Fraction(0), Fraction(0)))))
                ox = fapply(finv(S6), pb.ffn(fapply(D6, (Fraction(1), Fraction(0)))))
                Bk = (ox[0] - o0[0]) ** 2 + (ox[1] - o0[1]) ** 2
            except Exception:  # pylint: disable=broad-except
                pass
            full = Bk is not None and is_sq(Bk)
        if full and same and not singular:
            A6 = c03.fmul(finv(S6), D6)
            full = is_sq(A6[0] ** 2 + A6[3] ** 2)
        res = []
        conv = rng.random() < 0.3  # positional arguments in the documented order
        pad_v, al_v = c03.num_variant(rng, pad), c03.num_variant(rng, al, floats=False)

        def ftop():
            with fake_transformers(CRS, {(str(ca), str(cb)): pf, (str(cb), str(ca)): pb}):
                try:
                    r = c03.call_plan(O, conv, src, dst, ttol=ttol, stol=stol, padding=pad_v, align=al_v)
                except Exception as ex:  # pylint: disable=broad-except
                    if type(ex).__name__ == "TransformNotInvertibleError":
                        return "ERR:ValueError"
                    raise
            res.append(r)
            base = f"{roi_s(r.roi_src)} {roi_s(r.roi_dst)} {bool_s(r.paste_ok)}"
            if not full:
                return base
            return f"{base} {int(r.read_shrink)} {lat(r.scale)} {lat(r.scale2.x)} {lat(r.scale2.y)}"

        out = guarded(ftop)
        if res and not same and not singular:
            # where the fitted local map at the centre of roi_dst is exactly singular (a clamp collapses the neighbourhood)
            # the real code lives on rounding noise of lstsq (it may or may not raise LinAlgError): not an exact-stream case
            (yd_, xd_) = res[0].roi_dst
            if yd_.stop > yd_.start and xd_.stop > xd_.start:
                cx_, cy_ = Fraction(xd_.start + xd_.stop, 2), Fraction(yd_.start + yd_.stop, 2)
                Si_ = finv(S6)

                def bk(p_):
                    w_ = fapply(D6, p_)
                    if cb.geographic:
                        w_ = clamp_geo(w_)
                    return fapply(Si_, pb.ffn(w_))

                try:
                    xr, xl, yu, yd2 = bk((cx_ + 1, cy_)), bk((cx_ - 1, cy_)), bk((cx_, cy_ + 1)), bk((cx_, cy_ - 1))
                    degenerate = (xr[0] - xl[0]) * (yu[1] - yd2[1]) - (yu[0] - yd2[0]) * (xr[1] - xl[1]) == 0
                except TypeError:  # a stencil point without image: not this class
                    degenerate = False
                if degenerate:
                    R.count("top|gbx|degenerate-local-map-not-compared")
                    continue
        if (not res and out == "ERR:ValueError" and not same and not singular and cb.geographic
                and not corners_in_range(D6, dshape)):
            R.count("top|gbx|degenerate-local-map-not-compared")  # LinAlgError out of the same rounding-noise class
            continue
        placement = c03.placement(res[0], sshape, dshape) if res else "raises"
        branch = "linear" if same else "gbx"
        tag = f"top|{branch}|{(kind if not same else mkind) + ('-twin' if twin else '')}|{'full' if full else 'rois'}|{placement}" + (
            "|clamp" if not clamp_free else "") + ("|singular" if singular else "") + ("|align" if al else "") + ("|pad" if pad else "")
        R.corr(f"c03 top {'full' if full else 'rois'} {sshape[0]} {sshape[1]} {aff_s(S)} {bool_s(ca.geographic)} T "
               f"{dshape[0]} {dshape[1]} {aff_s(D)} {bool_s(cb.geographic)} T {bool_s(same)} {pf.spec} {pb.spec} "
               f"{frac_s(ttol)} {frac_s(stol)} {opt_s(pad)} {opt_s(al)}", lambda: out, sig=tag)
        if not res:
            continue
        r = res[0]
        case = {"fn": "compute_reproject_roi/fake-transformer", "src_crs": a, "dst_crs": b, "src_shape": sshape, "dst_shape": dshape,
                "src_affine": list(S)[:6], "dst_affine": list(D)[:6], "proj_fwd": pf.spec, "proj_back": pb.spec,
                "padding": pad, "align": al, "ttol": ttol, "stol": stol, "positional": conv,
                "padding_type": type(pad_v).__name__, "align_type": type(al_v).__name__}
        R.oracle(same or not r.paste_ok, "paste-ok-for-different-crs", case, "paste_ok for GeoBoxes in different CRSs",
                 sig="top|nopaste", trivial=same)
        R.oracle((r.transform.linear is not None) == same, "crs-sameness-misjudged", case,
                 f"CRSs equal: {same}; planned as a same-CRS pair: {r.transform.linear is not None}", sig="top|dispatch")
        judge_top(R, case, r, S6, D6, sshape, dshape, ca.geographic, cb.geographic, pb, kind, pad, same, singular)

    R.assumptions.append("cross-CRS glue (GbxPointTransform, native_pix_transform, the cross-CRS branch of compute_reproject_roi) is "
                         "compared exactly with an exact function installed in place of the pyproj transformer (affine, axis "
                         "swapping, quadratic, partially non-finite); pyproj itself is exercised by the float-stream oracle")
