"""C13 — chunked (dask) reprojection equals whole-array reprojection."""
from __future__ import annotations

import concurrent.futures
import math
import random
import threading
import time
from fractions import Fraction as F

import numpy as np

from .common import Run, frac_s, list_s, opt_s, run_driver

META = {
    "claimed": True,
    "text": "Lean 4 theorems about a hand model of _dask_rio_reproject / _do_chunked_reproject / "
    "BlockAssembler.extract / GeoboxTiles.clip / rio_reproject / resolve_fill_value and of the glue around them "
    "(_xr_reproject_da nodata defaulting and dispatch, the chunks= argument, with_yx, warp_affine, the keywords that reach GDAL; "
    "code of /repo main incl. fix2-C13): for grids of one CRS and nearest-neighbour resampling the chunked result equals the "
    "whole-array result pixel for pixel for EVERY source and destination chunking and every complete "
    "dependency map (chunked_eq_whole_nn); from the ARGUMENTS of xr_reproject — nodata attribute, src_nodata=, dst_nodata=, every "
    "accepted form of chunks= (None / pair / tuple of tuples) — dask-backed equals numpy-backed (xr_entry_chunked_eq_whole), on "
    "the linear path with NO named hypothesis left (xr_entry_linear_total: C04 tilings, C12 linear dependencies and their "
    "validity composed in; the default chunks= never fails: xrDask_default_ok; N-d arrays with the spatial axes anywhere: xr_entry_nd_linear; with the SNAPPED dependency transform that _check_linear "
    "really uses, under the drift bound |a-a'|*dstW+|c-c'| <= |a'|/4 per axis: xr_entry_linear_snapped — K17 / K23 are exactly "
    "the points outside the bound; on ROTATED / SHEARED / MIRRORED grids of one CRS (general path of grid_intersect) with the "
    "dependency table of the C12Gi model and no dependency / footprint hypothesis: xr_entry_same_crs_general, composing builder "
    "C12's chunked_eq_whole_same_crs_general; xr_reproject(Dataset): every georegistered variable is its own DataArray result "
    "under its name and position, plain variables pass through, dask == numpy variable by variable: ds_var_eq_da, "
    "ds_names_kept, ds_plain_passthrough, ds_chunked_eq_whole); every pixel that no source pixel reaches holds "
    "resolve_fill(dst_nodata, src_nodata, dtype) in task chunks and constant chunks alike for ANY dependency "
    "map (fill_uniform, disjoint_all_fill), and for integer rasters with ANY caller nodata (fractional, negative, out of range) "
    "the constant chunks hold exactly what the warp writes (const_fill_eq_warp_fill; as found they did not: "
    "const_fill_as_found_cex, fixed in /repo), and a nodata the integer type cannot hold is refused alike by both back-ends, "
    "the int8 -> int16 -> int8 detour included (xr_fill_agree, code of fix3-C13; as found int8_wrap_as_found_cex / "
    "unrepresentable_as_found_cex); every schedule that respects the task dependencies yields the same "
    "blocks (order_independent, topo_order_runs).  The model is tied to the code on every run: exact stream "
    "(dyadic placements, all dtypes/nodata settings, 1-pixel and ragged chunks, mirrored, scaled, rotated, "
    "disjoint, injected dependency maps, recorded execution orders; the public entry point with every argument form incl. "
    "rejected chunks=; conversions of raw nodata; declared shape/chunks; keywords observed at rasterio.warp.reproject) real "
    "chunked and real in-memory results "
    "are compared pixel for pixel with the model; the property itself (dask == numpy under {sync, threads, "
    "seeded random-topological get, holding executor}; unreached pixels == fill computed with exact "
    "rationals / pyproj) is evaluated on real outputs for same-CRS and cross-CRS pairs, extra axes, every numpy dtype the code "
    "accepts (bool, ints to 64 bit, float16-64, complex) x the nodata option matrix x scalar types, fractional nodata, "
    "non-nearest resampling (fill claim only).",
    "note": "Trusted: Lean kernel + {propext, Classical.choice, Quot.sound}; the GDAL nearest-neighbour "
    "reference semantics (samplePix/gdalNearest/effNodata/initVal; for raw nodata roundHAZ / rioCheckInt / warpMasks; all "
    "validated against rasterio every run); "
    "same-CRS linear path: dependency completeness is PROVED through the C12 model (Props/C13C12: unsnapped, "
    "snapped translation, snapped scale under the drift bound |a-a'|*dstW+|c-c'| <= |a'|/4; K17/K23 are the "
    "real-code violations outside the bound) and the tilings through the C04 model (Props/C13GlueC12; chunk sums < 2^31); "
    "DepsValid (listed source tiles exist) is proved from the C12 model as well (depsValid_of_linear); rotated / cross-CRS: chunked==whole is proved with the "
    "transformer as a parameter (Props/C13P) under the single named hypothesis FootprintsSuperset; N-d arrays "
    "(any ydim, any chunk tables) are proved plane by plane (Props/C13Nd).  Harness discipline: odc-geo internals "
    "(_dask_rio_reproject, _rio_reproject, _check_linear, resolve_fill_value, BlockAssembler) are looked up defensively and probed; "
    "when one is gone or has another calling convention the stream goes through xr_reproject / warp_affine or is skipped with "
    "a note — graph key names, task binding and layer structure are not looked at.  ORACLE-ONLY because of GDAL's APPROXIMATE TRANSFORMER (rows of >= 5 destination pixels are "
    "mapped by linear interpolation between exactly transformed points, error threshold 0.125 px): (1) for grids of DIFFERENT "
    "CRSs the value claim 'chunked == whole pixel for pixel' — the Lean theorem (chunked_eq_whole_cross) is about the EXACT "
    "transformer pixMapP, real GDAL may sample a neighbouring source pixel where the mapped centre lies within 0.125 px of a "
    "source pixel edge, and may do so differently per chunk because the interpolation nodes depend on the chunk's row length; "
    "the harness therefore compares values only where the exactly mapped centre is > 0.3 px from every source pixel edge "
    "(cross-crs-sampled-pixel-differs) and the fill only > 0.3 px outside the source (unreached-pixel-not-fill-cross-*); "
    "(2) for grids of ONE CRS the pixel map is affine, interpolation of an affine map is exact up to rounding, and the "
    "theorems apply — except for a destination pixel centre mapping EXACTLY onto the source's left/top edge, where exact "
    "and approximate transformer disagree by rounding: known finding K10, excluded from the exact stream by edge_zero; "
    "(3) every non-nearest resampling kernel: only the fill claim and keyword forwarding are checked, plus exactness on linear "
    "fields.  Everything else stated above is proved and tied.  NOT MODELLED (inventory of the anchor files): the resampling "
    "kernels themselves; IEEE rounding (non-dyadic placements are oracle-only: lindeps would need a float-rounding model of "
    "affine multiplication/inversion); which exception class rejects a NEGATIVE tile size (ValueError or IndexError, one error "
    "kind in the model; chunk tuples that do not add up are a ValueError from GeoboxTiles on HEAD: dstTilingsH, exact class "
    "compared); nodata conversion for float / complex dtypes is modelled as round-to-nearest-even "
    "to the type's precision (roundFloat in the normal range, roundIEEE with subnormal spacing and overflow to +-inf, both "
    "pinned on float16/32/64, complex64/128 through the public entry / resolve_fill_value), the int8 wrap-around is modelled (wrapInt, pinned); keywords of "
    "xr_reproject that are not warp options (dtype=, axis=) reach only the dask task: known finding "
    "entry-passthrough-kwarg-differs; a destination chunk of zero area wired to sources is "
    "modelled as the GDAL error it is (emptyTask), zero-length SOURCE chunks are in the model; "
    "_xr_interop._xr_reproject_da's output assembly (attrs, coords, dims, encoding, maybe_int(dst_nodata): only dask == numpy "
    "equality of attrs/dims/dtype is checked here, the content is C09's), output_geobox / _extract_output_geobox_params, "
    "the Dataset-level attrs / pass-through coordinate stripping of _xr_reproject_ds (C09's), GCPGeoBox sources; warp.py: is_resampling_nn for enum / int arguments; "
    "_blocks.py: BlockAssembler._verify_shape errors, _norm_roi / extract with partial rois and int indices, "
    "dtype promotion (_find_common_type), casting=; _dask.py: dtype= / casting= pass-through, "
    "graph naming (uuid4), HighLevelGraph wiring beyond the task-level executor model; geobox.py: "
    "grid_intersect's footprint computation (footprint(4326, 2), to_crs, shapely disjoint) — parameters of C12's "
    "general-path model; GeoBox.compute_crop for geometry/bbox rois.",
    "technique": "Lean 4 proof over hand model + differential correspondence with real code",
    "design_ref": "DESIGN.md §4 C13",
}

CRS = "epsg:3857"

# dtype name -> (kind token of the model, minimum of the type GDAL works in)
DTYPES = {
    "float32": ("f", None),
    "float64": ("f", None),
    "uint8": ("i", 0),
    "int8": ("i", -32768),  # warped as int16
    "int16": ("i", -32768),
    "uint16": ("i", 0),
    "int32": ("i", -(2**31)),
    "bool": ("b", 0),  # warped as uint8 0/255
}


class Skip(Exception):
    """a stream needs an odc-geo internal that is not there (renamed / moved / other calling convention): the case is
    skipped with a note in the evidence — only behaviour observed through public entry points can be a violation"""


_NOTES = []


def note_once(msg: str):
    if msg not in _NOTES:
        _NOTES.append(msg)


def _try(fn):
    try:
        return fn()
    except Exception:  # pylint: disable=broad-except
        return None


def _import(probe=True):
    """`probe=False`: no odc-geo call is made (fresh-interpreter reference runs must start pristine); the internals are then
    not available to that namespace"""
    import importlib

    import dask
    import dask.array as da
    from affine import Affine

    from odc.geo import warp as W
    from odc.geo.geobox import GeoBox, GeoboxTiles
    from odc.geo.roi import Tiles
    from odc.geo.xr import wrap_xr, xr_reproject

    class NS:
        pass

    ns = NS()
    ns.dask, ns.da, ns.Affine, ns.W = dask, da, Affine, W
    ns.xr_reproject, ns.GeoBox, ns.GeoboxTiles = xr_reproject, GeoBox, GeoboxTiles
    ns.Tiles, ns.wrap_xr = Tiles, wrap_xr
    # internals (private module / private names): looked up defensively, never required
    ns.D = _try(lambda: importlib.import_module("odc.geo._dask"))
    ns.BlockAssembler = _try(lambda: getattr(importlib.import_module("odc.geo._blocks"), "BlockAssembler"))
    ns.resolve_fill = getattr(ns.D, "resolve_fill_value", None) if ns.D is not None else None
    ns.lowlevel = _probe_lowlevel(ns) if probe else None
    ns.rio_plane = _probe_rio_plane(ns) if probe else None
    return ns


def _probe_lowlevel(ns):
    """`_dask_rio_reproject` with today's calling convention, or None: one tiny call must agree with the public route"""
    fn = getattr(ns.D, "_dask_rio_reproject", None) if ns.D is not None else None
    if fn is None:
        note_once("odc.geo._dask._dask_rio_reproject not found: low-level streams go through xr_reproject")
        return None
    try:
        sg = ns.GeoBox((2, 3), ns.Affine(1, 0, 0, 0, -1, 2), CRS)
        dg = ns.GeoBox((3, 3), ns.Affine(1, 0, 1, 0, -1, 3), CRS)
        data = np.arange(6, dtype="int16").reshape(2, 3) + 1
        a = fn(ns.da.from_array(data, chunks=(1, 2)), sg, dg, "nearest", 5, 7, ydim=0, chunks=(2, 2)).compute(scheduler="synchronous")
        b = ns.xr_reproject(ns.wrap_xr(ns.da.from_array(data, chunks=(1, 2)), sg), dg, src_nodata=5, dst_nodata=7,
                            chunks=(2, 2)).data.compute(scheduler="synchronous")
        if a.shape == b.shape and np.array_equal(a, b):
            return fn
    except Exception:  # pylint: disable=broad-except
        pass
    note_once("odc.geo._dask._dask_rio_reproject has another calling convention: low-level streams go through xr_reproject")
    return None


def _probe_rio_plane(ns):
    """`warp._rio_reproject` with today's calling convention, or None (then the public `warp_affine` is used)"""
    fn = getattr(ns.W, "_rio_reproject", None)
    try:
        sg = ns.GeoBox((1, 3), ns.Affine(1, 0, 0, 0, 1, 0), CRS)
        dg = ns.GeoBox((1, 4), ns.Affine(1, 0, -1, 0, 1, 0), CRS)
        a, b = np.full((1, 4), 55, dtype="int16"), np.full((1, 4), 55, dtype="int16")
        fn(np.array([[1, 2, 3]], dtype="int16"), a, sg, dg, "nearest", 2, 9)
        ns.W.warp_affine(np.array([[1, 2, 3]], dtype="int16"), b, ns.Affine(1, 0, -1, 0, 1, 0), "nearest", src_nodata=2, dst_nodata=9)
        if np.array_equal(a, b):
            return fn
    except Exception:  # pylint: disable=broad-except
        pass
    note_once("odc.geo.warp._rio_reproject not usable: single-plane warps go through the public warp_affine")
    return None


def dask_reproject(ns, src, sg, dg, resampling, sn, dn, ydim=0, chunks=None, **kw):
    """the dask back-end with explicit (src_nodata, dst_nodata): the private helper when it is there, else the public
    route (which cannot express `src_nodata` given + `dst_nodata` left None: Skip)"""
    if ns.lowlevel is not None:
        return ns.lowlevel(src, sg, dg, resampling, sn, dn, ydim=ydim, chunks=chunks, **kw)
    if sn is not None and dn is None:
        raise Skip("(src_nodata, None) pairs need the low-level dask entry point")
    try:
        xd = ns.wrap_xr(src, sg, axis=ydim)
        assert xd.odc.ydim == ydim
    except Exception:  # pylint: disable=broad-except
        raise Skip("the public route (wrap_xr + xr_reproject) cannot express this array layout") from None
    extra = {} if chunks is None else {"chunks": chunks}
    return ns.xr_reproject(xd, dg, resampling=resampling, src_nodata=sn, dst_nodata=dn, **extra, **kw).data


def rio_plane(ns, src, dst, sg, dg, resampling, sn, dn, **kw):
    """one 2-d warp into a caller buffer without the NaN default of rio_reproject"""
    if ns.rio_plane is not None:
        return ns.rio_plane(src, dst, sg, dg, resampling, sn, dn, **kw)
    return ns.W.warp_affine(src, dst, (~sg.transform) * dg.transform, resampling, src_nodata=sn, dst_nodata=dn, **kw)


def corr_skip(R: Run, line, fn, sig=None):
    """R.corr, unless the real side says Skip (an internal it needs is not available): then a note, no case"""
    try:
        out = fn()
    except Skip as e:
        note_once(str(e))
        return None
    except BaseException as e:  # pylint: disable=broad-except
        exc = e

        def again():
            raise exc

        return R.corr(line, again, sig=sig)
    return R.corr(line, lambda: out, sig=sig)


# ------------------------------------------------------------------ canonical text
def val_s(v) -> str:
    if v is None:
        return "N"
    if isinstance(v, (bool, np.bool_)):
        return "1" if v else "0"
    f = float(v)
    if math.isnan(f):
        return "n"
    assert f == int(f), f
    return str(int(f))


def img_s(a: np.ndarray) -> str:
    if a.size == 0:
        return "-"
    return ";".join(",".join(val_s(v) for v in row) for row in a)


def aff_s(A) -> str:
    return ";".join(frac_s(v) for v in (A.a, A.b, A.c, A.d, A.e, A.f))


def idx_s(i) -> str:
    return f"{int(i[0])}.{int(i[1])}"


def deps_s(deps: dict) -> str:
    if not deps:
        return "-"
    return "|".join(f"{idx_s(k)}=" + "+".join(idx_s(i) for i in v) for k, v in deps.items())


def compositions(rng: random.Random, n: int):
    """random chunking of n (1-pixel chunks, ragged, single chunk)"""
    r = rng.random()
    if r < 0.2:
        return (n,)
    if r < 0.35:
        return (1,) * n
    if r < 0.6:
        k = rng.randint(1, n)
        return tuple([k] * (n // k) + ([n % k] if n % k else []))
    out = []
    left = n
    while left > 0:
        k = rng.randint(1, left)
        out.append(k)
        left -= k
    return tuple(out)


# ------------------------------------------------------------------ schedulers
class RandomTopo:
    """dask `get`: executes the graph one task at a time in a seeded random topological order."""

    def __init__(self, seed: int):
        self.rng = random.Random(seed)
        self.order = []

    def __call__(self, dsk, keys, **kw):
        from collections.abc import Mapping

        import dask._task_spec as ts

        if not isinstance(dsk, Mapping):
            dsk = dsk.__dask_graph__()
        dsk = ts.convert_legacy_graph(dict(dsk))
        deps = {k: set(v.dependencies) for k, v in dsk.items()}
        cache, done, todo = {}, set(), set(dsk)
        while todo:
            ready = sorted((k for k in todo if deps[k] <= done), key=str)
            k = self.rng.choice(ready)
            node = dsk[k]
            cache[k] = node.value if isinstance(node, ts.DataNode) else node(cache)
            self.order.append(k)
            done.add(k)
            todo.remove(k)

        def rec(k):
            if isinstance(k, list):
                return [rec(i) for i in k]
            return cache[k]

        return rec(keys)


class HoldingExecutor(concurrent.futures.Executor):
    """Holds every submitted (ready) task; one thread releases them one at a time in seeded random
    order — dask.threaded.get(pool=...) then executes a random topological order of the graph."""

    def __init__(self, seed: int):
        self._max_workers = 10**6  # dask submits every ready task
        self.rng = random.Random(seed)
        self.pending = []
        self.cv = threading.Condition()
        self.stop = False
        self.last_submit = 0.0
        self.th = threading.Thread(target=self._loop, daemon=True)
        self.th.start()

    def submit(self, fn, *args, **kwargs):
        fut = concurrent.futures.Future()
        with self.cv:
            self.pending.append((fut, fn, args, kwargs))
            self.last_submit = time.time()
            self.cv.notify()
        return fut

    def _loop(self):
        while True:
            with self.cv:
                while not self.pending and not self.stop:
                    self.cv.wait(0.05)
                if self.stop and not self.pending:
                    return
                # let dask finish submitting what became ready
                while time.time() - self.last_submit < 0.0005:
                    self.cv.wait(0.0005)
                i = self.rng.randrange(len(self.pending))
                fut, fn, args, kwargs = self.pending.pop(i)
            try:
                fut.set_result(fn(*args, **kwargs))
            except BaseException as e:  # pylint: disable=broad-except
                fut.set_exception(e)

    def shutdown(self, wait=True, **kw):
        with self.cv:
            self.stop = True
            self.cv.notify()


def compute(ns, arr, sched: str, seed: int):
    if sched == "sync":
        return arr.compute(scheduler="synchronous")
    if sched == "threads":
        return arr.compute(scheduler="threads", num_workers=4)
    if sched == "rtopo":
        return arr.compute(scheduler=RandomTopo(seed))
    if sched == "hold":
        ex = HoldingExecutor(seed)
        try:
            return arr.compute(scheduler="threads", pool=ex)
        finally:
            ex.shutdown()
    raise ValueError(sched)


SCHEDS = ["sync", "threads", "rtopo", "hold"]


# ------------------------------------------------------------------ exact-stream cases
def pow2(rng, lo=-2, hi=2):
    return F(2) ** rng.randint(lo, hi)


def gen_case(rng: random.Random, rotated=False, small=False, edge_ok=False, minsize=1):
    """A same-CRS pair on which every float operation is exact (power-of-two scales, k/8 shifts);
    unless `edge_ok`, no destination pixel centre maps exactly onto the source's x=0 / y=0 line."""
    while True:
        c = _gen_case(rng, rotated, small, minsize)
        if edge_ok or not edge_zero(c).any():
            return c


def _gen_case(rng: random.Random, rotated=False, small=False, minsize=1):
    mx = max(5 if small else 7, minsize + 3)
    sh, sw = rng.randint(minsize, mx), rng.randint(minsize, mx)
    dh, dw = rng.randint(1, mx + 2), rng.randint(1, mx + 2)
    # A : destination pixel -> source pixel
    ax = rng.choice([1, 1, 1, -1]) * pow2(rng)
    ay = rng.choice([1, 1, 1, -1]) * pow2(rng)
    kind = rng.random()

    def shift(n_src, n_dst, a):
        # put the image of the destination around / across / away from the source
        span = abs(a) * n_dst
        lo, hi = -span - 2, n_src + 2
        if kind < 0.12:  # disjoint
            base = rng.choice([hi + 1 + rng.randint(0, 3), lo - 1 - rng.randint(0, 3) - span])
        else:
            base = rng.randint(int(math.floor(lo)), int(math.ceil(hi)))
        t = F(base) + F(rng.randint(0, 7), 8) * rng.choice([0, 0, 1])
        if a < 0:
            t += span
        return t

    tx, ty = shift(sw, dw, ax), shift(sh, dh, ay)
    fam = "st"
    if rotated:
        # the rest of the linear family, by WHICH coefficients are non-zero: 90 degree rotation (diagonal zero),
        # shear in x only (b), in y only (d), both off-diagonals, with scale / mirror; magnitudes from below
        # snap_affine's rotation tolerance 1e-8 (2^-27), just above it (2^-26), small, to large
        fam = rng.choice(["rot90", "rot90", "b", "d", "both", "b", "d"])
        mag = lambda: rng.choice([1, -1]) * rng.choice([F(1, 4), F(1, 2), F(1), F(2), F(1, 2**20), F(1, 2**26), F(1, 2**27)])  # noqa: E731
        if fam == "rot90":
            A = (F(0), ax, shift(sw, dh, ax), ay, F(0), shift(sh, dw, ay))
        elif fam == "b":
            A = (ax, mag(), tx, F(0), ay, ty)
        elif fam == "d":
            A = (ax, F(0), tx, mag(), ay, ty)
        else:
            while True:
                b_, d_ = mag(), mag()
                if ax * ay - b_ * d_ != 0:
                    break
            A = (ax, b_, tx, d_, ay, ty)
    else:
        A = (ax, F(0), tx, F(0), ay, ty)
    # source world transform: axis-aligned dyadic (it has to survive the xarray coordinate round trip);
    # destination D = S * A (rotated when A is)
    ssx = rng.choice([1, -1]) * pow2(rng, -1, 3)
    ssy = rng.choice([1, -1]) * pow2(rng, -1, 3)
    St = (ssx, F(0), F(rng.randint(-64, 64), 4), F(0), ssy, F(rng.randint(-64, 64), 4))
    return {
        "sh": sh, "sw": sw, "dh": dh, "dw": dw, "A": A, "D": amul(St, A), "S": St,
        "sy": compositions(rng, sh), "sx": compositions(rng, sw),
        "cy": rng.randint(1, dh + 1), "cx": rng.randint(1, dw + 1), "fam": fam,
    }


def amul(A, B):
    a, b, c, d, e, f = A
    a2, b2, c2, d2, e2, f2 = B
    return (a * a2 + b * d2, a * b2 + b * e2, a * c2 + b * f2 + c, d * a2 + e * d2, d * b2 + e * e2, d * c2 + e * f2 + f)


def ainv(A):
    a, b, c, d, e, f = A
    det = a * e - b * d
    ra, rb, rd, re = e / det, -b / det, -d / det, a / det
    return (ra, rb, -c * ra - f * rb, rd, re, -c * rd - f * re)


def to_affine(ns, A):
    fl = [float(v) for v in A]
    assert all(F(x) == v for x, v in zip(fl, A)), "not exactly representable"
    return ns.Affine(*fl)


def geoboxes(ns, case):
    S = case["S"] if "S" in case else amul(case["D"], ainv(case["A"]))
    sg = ns.GeoBox((case["sh"], case["sw"]), to_affine(ns, S), CRS)
    dg = ns.GeoBox((case["dh"], case["dw"]), to_affine(ns, case["D"]), CRS)
    return sg, dg, S


def gen_data(rng, shape, dtype, nds):
    """pixel values hitting the nodata values often"""
    # (floats: GDAL moves a valid value that equals the destination nodata by one ulp, which the
    # integer-valued model cannot express -> only the source nodata is planted into float data)
    plant = nds[:1] if dtype.startswith("float") else nds
    pool = [0, 1, 2, 3, 4, 5, 6, 7, 9] + [v for v in plant if v is not None and not (isinstance(v, float) and math.isnan(v))]
    if dtype == "bool":
        a = np.array([[rng.random() < 0.5 for _ in range(shape[1])] for _ in range(shape[0])], dtype=bool)
        return a.reshape(shape)
    a = np.array([[rng.choice(pool) for _ in range(shape[1])] for _ in range(shape[0])], dtype=dtype).reshape(shape)
    if dtype.startswith("float") and rng.random() < 0.4:
        for _ in range(rng.randint(1, 3)):
            a[rng.randrange(shape[0]), rng.randrange(shape[1])] = np.nan
    return a


def gen_nodata(rng, dtype):
    """(src_nodata, dst_nodata) for the low-level entry points"""
    if dtype == "bool":
        c = [None, 0, 1]
        return rng.choice(c), rng.choice(c)
    if dtype.startswith("float"):
        r = rng.random()
        if r < 0.3:
            return None, None
        s = rng.choice([None, 3, float("nan"), -9999])
        # GDAL nudges a valid float that equals dst nodata by one ulp (not representable in the
        # integer-valued model): keep dst nodata off the data unless it is also the source nodata
        d = rng.choice([None, s, float("nan"), -9999, -7777])
        return s, d
    c = [None, None, 0, 3, 5, 255 if dtype in ("uint8", "uint16", "int16", "int32") else 7]
    return rng.choice(c), rng.choice(c)


def common_line(case, S, kind, lo, sn, dn, deps, data, variant="fix") -> str:
    return " ".join([
        variant, kind, opt_s(lo), val_s(sn), val_s(dn), ";".join(frac_s(v) for v in S),
        ";".join(frac_s(v) for v in case["D"]),
        str(case["sh"]), str(case["sw"]), str(case["dh"]), str(case["dw"]),
        list_s(case["sy"]), list_s(case["sx"]), str(case["cy"]), str(case["cx"]), deps, img_s(data),
    ])


def cast_nd(v, dtype):
    """nodata as the model sees it: cast to the dtype (`dtype.type(v)`)"""
    if v is None:
        return None
    if dtype == "bool":
        return bool(v)
    return v


def real_deps(ns, sg, dg, case):
    gs = ns.GeoboxTiles(sg, (case["sy"], case["sx"]))
    gd = ns.GeoboxTiles(dg, (case["cy"], case["cx"]))
    return gd.grid_intersect(gs)


# ------------------------------------------------------------------ independent oracle
def round_haz(v):
    """round to nearest, halves away from zero (what GDAL writes for a fractional nodata of an integer raster)"""
    q = F(v)
    return math.floor(q + F(1, 2)) if q >= 0 else -math.floor(-q + F(1, 2))


def is_fractional(dtype, v) -> bool:
    """a nodata value that the integer dtype cannot hold exactly"""
    if v is None or np.dtype(dtype).kind not in "iu":
        return False
    f = float(v)
    return math.isfinite(f) and f != int(f)


def spec_fill(dtype, sn, dn):
    """the fill value of the property statement (an integer raster cannot hold a fractional nodata: the reference is the
    value of the in-memory path's warp, nearest integer with halves away from zero)"""
    np_dt = np.dtype(dtype)
    eff = dn if dn is not None else sn
    if is_fractional(dtype, eff):
        return np_dt.type(round_haz(eff))
    if dn is not None:
        return np_dt.type(dn)
    if sn is not None:
        return np_dt.type(sn)
    if np_dt.kind == "f":
        return np_dt.type("nan")
    return np_dt.type(0)


def same(a, b) -> bool:
    a, b = np.asarray(a), np.asarray(b)
    if a.dtype.kind == "f":
        return bool(np.array_equal(a, b, equal_nan=True))
    return bool(np.array_equal(a, b))


def eqv(a, b) -> bool:
    fa, fb = float(a), float(b)
    return (math.isnan(fa) and math.isnan(fb)) or fa == fb


def unreached_exact(case):
    """mask of destination pixels whose centre maps outside the source (exact rationals)"""
    a, b, c, d, e, f = case["A"]
    m = np.zeros((case["dh"], case["dw"]), dtype=bool)
    for y in range(case["dh"]):
        for x in range(case["dw"]):
            px = a * (x + F(1, 2)) + b * (y + F(1, 2)) + c
            py = d * (x + F(1, 2)) + e * (y + F(1, 2)) + f
            m[y, x] = not (0 <= px < case["sw"] and 0 <= py < case["sh"])
    return m


def edge_zero(case):
    """destination pixels whose centre maps EXACTLY onto the line x=0 or y=0 of the source: GDAL's exact
    transformer (rows of < 5 pixels) leaves them out, its approximate transformer (longer rows) takes them in"""
    a, b, c, d, e, f = case["A"]
    m = np.zeros((case["dh"], case["dw"]), dtype=bool)
    for y in range(case["dh"]):
        for x in range(case["dw"]):
            px = a * (x + F(1, 2)) + b * (y + F(1, 2)) + c
            py = d * (x + F(1, 2)) + e * (y + F(1, 2)) + f
            m[y, x] = (px == 0 and 0 <= py <= case["sh"]) or (py == 0 and 0 <= px <= case["sw"])
    return m


def sampled_exact(case, data, fillv):
    """exact nearest-neighbour reference without nodata (floor of the mapped centre)"""
    a, b, c, d, e, f = case["A"]
    out = np.full((case["dh"], case["dw"]), fillv, dtype=data.dtype)
    for y in range(case["dh"]):
        for x in range(case["dw"]):
            px = a * (x + F(1, 2)) + b * (y + F(1, 2)) + c
            py = d * (x + F(1, 2)) + e * (y + F(1, 2)) + f
            if 0 <= px < case["sw"] and 0 <= py < case["sh"]:
                out[y, x] = data[math.floor(py), math.floor(px)]
    return out


def case_json(case, **extra):
    j = {k: (list(map(str, v)) if isinstance(v, tuple) else v) for k, v in case.items()}
    j.update(extra)
    return j


def case_from_json(j):
    c = dict(j)
    c["A"] = tuple(F(v) for v in j["A"])
    c["D"] = tuple(F(v) for v in j["D"])
    if "S" in j:
        c["S"] = tuple(F(v) for v in j["S"])
    c["sy"] = tuple(int(v) for v in j["sy"])
    c["sx"] = tuple(int(v) for v in j["sx"])
    return c


def nd_json(v):
    return None if v is None else ("nan" if isinstance(v, float) and math.isnan(v) else v)


def nd_from_json(v):
    return float("nan") if v == "nan" else v


# ------------------------------------------------------------------ one same-CRS case through everything
def planes_of(arr, lead, trail):
    """list of the 2-d Y/X planes of an array with optional leading / trailing extra axis"""
    a = np.asarray(arr)
    if trail is not None:
        a = np.moveaxis(a, -1, 0)
    return a.reshape((-1,) + a.shape[-2:])


def xr_pair(ns, case, dtype, data, attr_nd, dst_nd, sched, seed, lead=None, trail=None):
    """real xr_reproject on numpy-backed and dask-backed copies -> (whole, chunked);
    `lead` / `trail`: dask chunks (tuple) of an extra leading (time) / trailing (band) axis of `data`"""
    sg, dg, _ = geoboxes(ns, case)
    chunks = (() if lead is None else (tuple(lead),)) + (case["sy"], case["sx"]) + (() if trail is None else (tuple(trail),))
    ax = 1 if lead is not None else 0
    xn = ns.wrap_xr(data, sg, nodata=attr_nd, axis=ax)
    xd = ns.wrap_xr(ns.da.from_array(data, chunks=chunks), sg, nodata=attr_nd, axis=ax)
    whole = ns.xr_reproject(xn, dg, resampling="nearest", dst_nodata=dst_nd).values
    lazy = ns.xr_reproject(xd, dg, resampling="nearest", dst_nodata=dst_nd, chunks=(case["cy"], case["cx"]))
    chunked = compute(ns, lazy.data, sched, seed)
    return whole, chunked, tuple(lazy.shape)


def data_json(data, dtype):
    return np.asarray(data).astype(int if dtype == "bool" else float).tolist()


def oracle_pair(R: Run, ns, case, dtype, data, attr_nd, dst_nd, sched, seed, lead=None, trail=None, tag=""):
    cj = case_json(case, dtype=dtype, data=data_json(data, dtype),
                   attr_nd=nd_json(attr_nd), dst_nd=nd_json(dst_nd), sched=sched, sseed=seed,
                   lead=None if lead is None else list(lead), trail=None if trail is None else list(trail))
    extra = lead is not None or trail is not None
    sig = f"xr|{tag}|{DTYPES[dtype][0]}|nd={'a' if attr_nd is not None else '-'}{'d' if dst_nd is not None else '-'}|{sched}" + (
        "|lead" if lead is not None else "") + ("|trail" if trail is not None else "")
    try:
        whole, chunked, declared = xr_pair(ns, case, dtype, data, attr_nd, dst_nd, sched, seed, lead, trail)
    except Exception as e:  # pylint: disable=broad-except
        R.oracle(False, "reproject-raises", cj, f"xr_reproject / compute raised {type(e).__name__}: {e}", sig=sig)
        return None
    # shape: the computed array has the declared shape = shape of the in-memory result
    want_shape = (() if lead is None else (sum(lead),)) + (case["dh"], case["dw"]) + (() if trail is None else (sum(trail),))
    ok_shape = tuple(chunked.shape) == tuple(whole.shape) == tuple(declared) == want_shape
    R.oracle(ok_shape, "result-shape-differs", cj,
             f"computed dask result has shape {tuple(chunked.shape)}, declared {tuple(declared)}, in-memory result "
             f"{tuple(whole.shape)}, expected {want_shape} (extra-axis chunks lead={lead} trail={trail}, dst chunks "
             f"{case['cy']}x{case['cx']})", sig=sig + "|shape", trivial=not extra)
    if not ok_shape:
        return None
    wp, cp = planes_of(whole, lead, trail), planes_of(chunked, lead, trail)
    ok = same(whole, chunked)
    what = ""
    key = "chunked-differs-from-whole"
    if not ok:
        diff = ~((wp == cp) | ((wp != wp) & (cp != cp)))
        ez = edge_zero(case)
        if not (diff & ~ez[None]).any():
            key = "chunked-differs-from-whole:centre-exactly-on-source-edge"
        bad = np.argwhere(diff)
        p = tuple(int(i) for i in bad[0])
        what = (f"dask-backed differs from numpy-backed at {len(bad)} pixels, first (plane, y, x)={p}: chunked={cp[p]} "
                f"whole={wp[p]} (dtype {dtype}, nodata attr={attr_nd} dst={dst_nd}, src chunks {case['sy']}x{case['sx']}, "
                f"dst chunks {case['cy']}x{case['cx']}, extra-axis chunks lead={lead} trail={trail}, scheduler {sched})")
    # fill claim, evaluated on the chunked result with exact rationals
    sn = attr_nd
    dn = dst_nd if dst_nd is not None else sn
    fv = spec_fill(dtype, sn, dn)
    un = unreached_exact(case)
    frac = is_fractional(dtype, dn)
    if not ok and frac and key == "chunked-differs-from-whole" and not (diff & ~un[None]).any():
        key = "fill-not-uniform:fractional-nodata"
    R.oracle(ok, key, cj, what, sig=sig)
    okf, whatf = True, ""
    for t, pl in enumerate(cp):
        vals = pl[un]
        good = (vals != vals) if (isinstance(fv, np.floating) and math.isnan(float(fv))) else (vals == fv)
        if not np.all(good):
            okf = False
            p = np.argwhere(un)[int(np.argmin(good))]
            whatf = (f"pixel {tuple(int(i) for i in p)} (plane {t}) is reached by no source pixel but holds {pl[tuple(p)]}, "
                     f"expected fill {fv} (dtype {dtype}, nodata attr={attr_nd} dst={dst_nd}, dst chunks {case['cy']}x{case['cx']})")
            break
    R.oracle(okf, "fill-not-uniform:fractional-nodata" if frac else "unreached-pixel-not-fill", cj, whatf, sig=sig + "|fill",
             trivial=not un.any())
    if un.all():
        R.count("disjoint-all-fill")
    # value claim against an independent exact reference when no nodata masking interferes
    if attr_nd is None and dst_nd is None:
        ez = edge_zero(case)
        okr = True
        for pl, sp in zip(cp, planes_of(data, lead, trail)):
            ref = sampled_exact(case, sp, fv)
            okr &= same(ref[~ez], pl[~ez])
        R.oracle(okr, "chunked-differs-from-exact-nearest", cj,
                 "chunked result differs from floor-of-mapped-centre reference", sig="exact-ref")
    return whole, chunked


# ------------------------------------------------------------------ every keyword reaches the chunked path
RESAMPLINGS = ["nearest", "bilinear", "cubic", "cubic_spline", "lanczos", "average", "mode", "gauss", "max", "min", "med",
               "q1", "q3", "sum", "rms"]


def kw_s(kw):
    """canonical text of the value-affecting keywords of one warp call"""
    r = kw.get("resampling")
    r = getattr(r, "name", r)
    rest = sorted((k, v) for k, v in kw.items() if k not in ("resampling", "src_nodata", "dst_nodata", "axis"))
    return (f"resampling={str(r).lower()};src_nodata={val_s(kw.get('src_nodata'))};dst_nodata={val_s(kw.get('dst_nodata'))};"
            + (f"axis={kw['axis']};" if "axis" in kw else "") + ",".join(f"{k}={v}" for k, v in rest))


def kw_corr(R: Run, ns, rng):
    """the members of rasterio's Resampling enum are the ones the model knows (external reference).  Which keywords reach GDAL
    from the chunk tasks / the in-memory call is compared where they arrive (`glue_kw`, a spy on rasterio.warp.reproject):
    how the graph binds them (partial, closure, keyword names, layers) is internal and not looked at."""
    import rasterio.enums

    R.oracle(sorted(rasterio.enums.Resampling.__members__) == sorted(RESAMPLINGS), "resampling-enum-changed",
             {"members": sorted(rasterio.enums.Resampling.__members__)}, "rasterio.warp.Resampling has other members than the model",
             trivial=True)


class WarpSpy:
    """records the value-affecting keywords of every rasterio.warp.reproject call made by odc.geo.warp"""

    def __init__(self, ns):
        self.ns, self.calls = ns, []

    def __enter__(self):
        import sys

        import rasterio.warp

        self.orig = rasterio.warp.reproject

        def spy(source, destination=None, **kw):
            rec = {k: v for k, v in kw.items() if k not in ("src_transform", "dst_transform", "gcps")}
            rec["dtype"] = f"{np.asarray(source).dtype}->{np.asarray(destination).dtype}"
            rec["shape"] = tuple(np.asarray(source).shape)
            self.calls.append(rec)
            return self.orig(source, destination, **kw)

        # the external boundary, wherever odc-geo holds a reference to it
        self.patched = [(rasterio.warp, "reproject")]
        for name, mod in list(sys.modules.items()):
            if name.startswith("odc.geo") and mod is not None:
                for attr, val in list(vars(mod).items()):
                    if val is self.orig:
                        self.patched.append((mod, attr))
        for mod, attr in self.patched:
            setattr(mod, attr, spy)
        return self

    def __exit__(self, *a):
        for mod, attr in self.patched:
            setattr(mod, attr, self.orig)

    def canon(self):
        def c(v):
            v = getattr(v, "name", v)
            return "nan" if isinstance(v, float) and math.isnan(v) else str(v)

        return sorted({";".join(f"{k}={c(v)}" for k, v in sorted(rec.items()) if k != "shape") for rec in self.calls})


def forwarding_one(R: Run, ns, cj):
    """every keyword that reaches GDAL in the in-memory path reaches it identically in every chunk of the dask path"""
    case = case_from_json(cj["case"])
    dtype = cj["dtype"]
    data = np.asarray(cj["data"]).astype(dtype)
    attr, dn = nd_from_json(cj["attr"]), nd_from_json(cj["dn"])
    sig = f"forward|{cj['resampling']}|{DTYPES[dtype][0]}|extras={len(cj['extras'])}"
    try:
        sg, dg, _ = geoboxes(ns, case)
        with WarpSpy(ns) as w:
            ns.xr_reproject(ns.wrap_xr(data, sg, nodata=attr), dg, resampling=cj["resampling"], dst_nodata=dn, **cj["extras"])
        with WarpSpy(ns) as c:
            lz = ns.xr_reproject(ns.wrap_xr(ns.da.from_array(data, chunks=(case["sy"], case["sx"])), sg, nodata=attr), dg,
                                 resampling=cj["resampling"], dst_nodata=dn, chunks=(case["cy"], case["cx"]), **cj["extras"])
            lz.data.compute(scheduler="synchronous")
    except Exception as e:  # pylint: disable=broad-except
        R.oracle(False, "reproject-raises", cj, f"{type(e).__name__}: {e}", sig=sig)
        return False
    wk, ck = w.canon(), c.canon()
    if not wk:
        note_once("no call of rasterio.warp.reproject observed from the in-memory path: keyword-forwarding oracle skipped")
        return True
    ok = len(wk) == 1 and (not ck or ck == wk)
    R.oracle(ok, "chunk-keywords-differ-from-whole", cj,
             ("keywords reaching rasterio.warp.reproject differ: in-memory only "
              f"{sorted(set(';'.join(wk).split(';')) - set(';'.join(ck).split(';')))[:6]}, chunk tasks only "
              f"{sorted(set(';'.join(ck).split(';')) - set(';'.join(wk).split(';')))[:6]}") if not ok else "", sig=sig, trivial=not ck)
    return ok


def gen_forwarding(rng, dts):
    case = gen_case(rng, rotated=rng.random() < 0.3, small=True)
    dtype = rng.choice([d for d in dts if d != "bool"])
    attr = rng.choice([None, None, 0, 3])
    dn = rng.choice([None, None, attr, 5 if not dtype.startswith("float") else -7777])
    extras = rng.choice([{}, {}, {"num_threads": 2}, {"warp_mem_limit": 32}, {"XSCALE": 1, "YSCALE": 1}, {"init_dest_nodata": True}])
    return {"kind": "forward", "case": case_json(case), "dtype": dtype, "data": data_json(gen_data(rng, (case["sh"], case["sw"]), dtype, (attr,)), dtype),
            "attr": nd_json(attr), "dn": nd_json(dn), "resampling": rng.choice([r for r in RESAMPLINGS if r != "gauss"]), "extras": extras}


# ------------------------------------------------------------------ linear fields: bilinear / cubic are exact on them
def linear_one(R: Run, ns, cj):
    """source = affine-linear field, float64, no nodata: bilinear and cubic reproduce it exactly (up to rounding) in BOTH
    paths wherever the kernel sees real data only; nearest would give a step function"""
    case = case_from_json(cj["case"])
    ga, gb, gc = cj["coef"]
    r_in = 2 if cj["resampling"] == "bilinear" else 3
    sig = f"linear|{cj['resampling']}|{case.get('fam', 'st')}"
    jj, ii = np.meshgrid(np.arange(case["sw"]) + 0.5, np.arange(case["sh"]) + 0.5)
    data = (ga * jj + gb * ii + gc).astype("float64")
    try:
        sg, dg, _ = geoboxes(ns, case)
        whole = ns.xr_reproject(ns.wrap_xr(data, sg), dg, resampling=cj["resampling"]).values
        chunked = ns.xr_reproject(ns.wrap_xr(ns.da.from_array(data, chunks=(case["sy"], case["sx"])), sg), dg,
                                  resampling=cj["resampling"], chunks=(case["cy"], case["cx"])).data.compute(scheduler="synchronous")
        deps = real_deps(ns, sg, dg, case)
    except Exception as e:  # pylint: disable=broad-except
        R.oracle(False, "reproject-raises", cj, f"{type(e).__name__}: {e}", sig=sig)
        return False
    a, b, c, d, e, f = (float(v) for v in case["A"])
    X, Y = np.meshgrid(np.arange(case["dw"]) + 0.5, np.arange(case["dh"]) + 0.5)
    px, py = a * X + b * Y + c, d * X + e * Y + f
    exact = ga * px + gb * py + gc
    in_w = (px >= r_in) & (px <= case["sw"] - r_in) & (py >= r_in) & (py <= case["sh"] - r_in)
    # chunked: every source tile under the kernel footprint must be wired to the pixel's destination tile
    oy, ox = np.cumsum((0,) + case["sy"]), np.cumsum((0,) + case["sx"])
    in_c = np.zeros_like(in_w)
    for y, x in np.argwhere(in_w):
        have = set(map(tuple, deps.get((int(y) // case["cy"], int(x) // case["cx"]), [])))
        ys = {int(np.searchsorted(oy[1:], v, "right")) for v in (math.floor(py[y, x] - r_in), math.floor(py[y, x] + r_in))}
        xs = {int(np.searchsorted(ox[1:], v, "right")) for v in (math.floor(px[y, x] - r_in), math.floor(px[y, x] + r_in))}
        need = {(ty, tx) for ty in range(min(ys), max(ys) + 1) for tx in range(min(xs), max(xs) + 1)}
        in_c[y, x] = need <= have
    tol = 1e-6 * (abs(ga) + abs(gb) + 1)
    okw = bool(np.all(np.abs(whole[in_w] - exact[in_w]) <= tol))
    R.oracle(okw, "whole-resampling-not-exact-on-linear-field", cj,
             f"in-memory {cj['resampling']} of a linear field is off by {float(np.nanmax(np.abs(whole[in_w] - exact[in_w]))) if in_w.any() else 0}",
             sig=sig + "|whole", trivial=not in_w.any())
    errc = np.abs(chunked[in_c] - exact[in_c])
    okc = bool(np.all(errc <= tol))
    what = ""
    if not okc:
        p = tuple(int(i) for i in np.argwhere(in_c)[int(np.nanargmax(np.where(np.isnan(errc), np.inf, errc)))])
        what = (f"{cj['resampling']} of the linear field {ga}*x+{gb}*y+{gc}: dask-backed pixel {p} holds {chunked[p]}, the field at its "
                f"mapped centre is {exact[p]} (in-memory: {whole[p]}); all source tiles under the kernel are wired to its chunk")
    R.oracle(okc, "chunked-resampling-not-exact-on-linear-field", cj, what, sig=sig + "|chunked", trivial=not in_c.any())
    return okw and okc


def gen_linear(rng):
    while True:
        case = gen_case(rng, rotated=rng.random() < 0.25, minsize=6)
        a, b, c, d, e, f = (float(v) for v in case["A"])
        if max(abs(a), abs(b), abs(d), abs(e)) > 2**-10:  # not a degenerate shear magnitude only
            break
    return {"kind": "linear", "case": case_json(case), "resampling": rng.choice(["bilinear", "bilinear", "cubic"]),
            "coef": [rng.choice([-1, 1]) * rng.uniform(0.5, 2.0), rng.choice([-1, 1]) * rng.uniform(0.5, 2.0), rng.uniform(-5, 5)]}


def resampling_stream(R: Run, ns, rng, n, dts):
    kw_corr(R, ns, rng)
    for _ in range(n):
        forwarding_one(R, ns, gen_forwarding(rng, dts))
    for _ in range(n):
        linear_one(R, ns, gen_linear(rng))


# ------------------------------------------------------------------ the identity corner: dst grid == src grid
def gen_identity(rng, dts):
    sh, sw = rng.randint(1, 7), rng.randint(1, 7)
    dtype = rng.choice(dts)
    isf, isb = dtype.startswith("float"), dtype == "bool"

    def regular(n):
        k = rng.randint(1, n)
        return tuple([k] * (n // k) + ([n % k] if n % k else []))

    reg = rng.random() < 0.75
    sy, sx = (regular(sh), regular(sw)) if reg else (compositions(rng, sh), compositions(rng, sw))
    nds = [None, 0, 1] if isb else ([None, 3, float("nan"), -9999] if isf else [None, 0, 3])
    attr = rng.choice(nds)
    src_nd = rng.choice([None, None, None] + nds[1:])
    eff = src_nd if src_nd is not None else attr
    other = (1 - int(bool(eff))) if isb else (-7777 if isf else (5 if eff != 5 else 7))
    dst_nd = rng.choice([None, eff, other, other])
    mode = rng.choice(["plain", "plain", "lead", "trail", "both"])
    lead = list(axis_chunks(rng, rng.randint(1, 4))) if mode in ("lead", "both") else None
    trail = list(axis_chunks(rng, rng.randint(1, 3))) if mode in ("trail", "both") else None
    nplanes = (sum(lead) if lead else 1) * (sum(trail) if trail else 1)
    pl = np.stack([gen_data(rng, (sh, sw), dtype, (eff, attr)) for _ in range(nplanes)])
    data = pl.reshape(((sum(lead),) if lead else ()) + ((sum(trail),) if trail else ()) + (sh, sw))
    if trail:
        data = np.moveaxis(data, -3, -1)
    S = (rng.choice([1, -1]) * pow2(rng, -1, 3), F(0), F(rng.randint(-64, 64), 4), F(0), rng.choice([1, -1]) * pow2(rng, -1, 3),
         F(rng.randint(-64, 64), 4))
    return {"kind": "identity", "sh": sh, "sw": sw, "S": [str(v) for v in S], "dtype": dtype, "data": data_json(np.ascontiguousarray(data), dtype),
            "attr": nd_json(attr), "src_nd": nd_json(src_nd), "dst_nd": nd_json(dst_nd), "sy": list(sy), "sx": list(sx),
            "dst": rng.choice(["same", "equal", "equal", "crs"]), "chunks": rng.choice(["none", "none", "equal", "other"]),
            "resampling": "nearest" if rng.random() < 0.85 else "bilinear", "lead": lead, "trail": trail,
            "sched": rng.choice(SCHEDS), "sseed": rng.randrange(10**6)}


def identity_one(R: Run, ns, cj):
    """destination grid == source grid (same object / equal object / the array's own CRS), destination chunking
    defaulted / equal / different, every nodata option: the warp still re-marks nodata -> chunked == whole"""
    dtype, lead, trail = cj["dtype"], cj["lead"], cj["trail"]
    data = np.asarray(cj["data"]).astype(dtype)
    attr, src_nd, dst_nd = (nd_from_json(cj[k]) for k in ("attr", "src_nd", "dst_nd"))
    sig = (f"identity|{cj['dst']}|chunks={cj['chunks']}|{DTYPES[dtype][0]}|nd={'a' if attr is not None else '-'}"
           f"{'s' if src_nd is not None else '-'}{'d' if dst_nd is not None else '-'}" + ("|lead" if lead else "") + ("|trail" if trail else ""))
    try:
        S = tuple(F(v) for v in cj["S"])
        sg = ns.GeoBox((cj["sh"], cj["sw"]), to_affine(ns, S), CRS)
        ax = 1 if lead else 0
        chunks = ((tuple(lead),) if lead else ()) + (tuple(cj["sy"]), tuple(cj["sx"])) + ((tuple(trail),) if trail else ())
        xn = ns.wrap_xr(data, sg, nodata=attr, axis=ax)
        xd = ns.wrap_xr(ns.da.from_array(data, chunks=chunks), sg, nodata=attr, axis=ax)
        if cj["dst"] == "same":
            how_n, how_d = xn.odc.geobox, xd.odc.geobox
        elif cj["dst"] == "equal":
            how_n = how_d = ns.GeoBox((cj["sh"], cj["sw"]), to_affine(ns, S), CRS)
        else:
            how_n = how_d = CRS
        kw = {} if src_nd is None else {"src_nodata": src_nd}
        whole = ns.xr_reproject(xn, how_n, resampling=cj["resampling"], dst_nodata=dst_nd, **kw).values
        kwc = dict(kw)
        if cj["chunks"] == "equal":
            kwc["chunks"] = (cj["sy"][0], cj["sx"][0])
        elif cj["chunks"] == "other":
            kwc["chunks"] = (max(1, cj["sy"][0] - 1) if cj["sh"] > 1 else 2, cj["sx"][0] + 1)
        lazy = ns.xr_reproject(xd, how_d, resampling=cj["resampling"], dst_nodata=dst_nd, **kwc)
        declared = tuple(lazy.shape)
        chunked = compute(ns, lazy.data, cj["sched"], cj["sseed"])
    except Exception as e:  # pylint: disable=broad-except
        R.oracle(False, "reproject-raises", cj, f"xr_reproject / compute raised {type(e).__name__}: {e}", sig=sig)
        return False
    ok_shape = tuple(chunked.shape) == tuple(whole.shape) == declared
    R.oracle(ok_shape, "result-shape-differs", cj, f"computed {chunked.shape}, declared {declared}, in-memory {whole.shape}",
             sig=sig + "|shape", trivial=True)
    if not ok_shape:
        return False
    ok = same(whole, chunked)
    what = ""
    if not ok:
        diff = ~((whole == chunked) | ((whole != whole) & (chunked != chunked)))
        p = tuple(int(i) for i in np.argwhere(diff)[0])
        what = (f"destination grid == source grid ({cj['dst']}), chunks={cj['chunks']}: dask-backed differs from numpy-backed at "
                f"{int(diff.sum())} pixels, first {p}: chunked={chunked[p]} whole={whole[p]} (dtype {dtype}, nodata attr={attr} "
                f"src_nodata={src_nd} dst_nodata={dst_nd}, {cj['resampling']}, src chunks {cj['sy']}x{cj['sx']})")
    R.oracle(ok, "chunked-differs-from-whole", cj, what, sig=sig)
    # exact stream: the same through the Lean model (A = identity, real dependency table)
    eff_s0 = src_nd if src_nd is not None else attr
    fl_collide = dtype.startswith("float") and dst_nd is not None and not (eff_s0 is not None and eqv(dst_nd, eff_s0))
    if not lead and not trail and cj["resampling"] == "nearest" and cj["dst"] != "crs" and not fl_collide:
        kind, lo = DTYPES[dtype]
        cyx = kwc.get("chunks", (max(cj["sy"]), max(cj["sx"])))
        ident = (F(1), F(0), F(0), F(0), F(1), F(0))
        case = {"sh": cj["sh"], "sw": cj["sw"], "dh": cj["sh"], "dw": cj["sw"], "A": ident, "S": S, "D": S,
                "sy": tuple(cj["sy"]), "sx": tuple(cj["sx"]), "cy": int(cyx[0]), "cx": int(cyx[1])}
        sn_m = cast_nd(eff_s0, dtype)
        dn_m = cast_nd(dst_nd if dst_nd is not None else eff_s0, dtype)
        deps = real_deps(ns, sg, sg, case)
        R.corr("c13 dask " + common_line(case, S, kind, lo, sn_m, dn_m, deps_s(deps), data), lambda: img_s(chunked),
               sig=f"identity-dask|{kind}|chunks={cj['chunks']}")
        R.corr("c13 numpy " + common_line(case, S, kind, lo, sn_m, dn_m, "-", data), lambda: img_s(whole),
               sig=f"identity-numpy|{kind}")
    # the in-memory result itself: source-nodata pixels are re-marked with the destination nodata, the rest is kept
    if cj["resampling"] == "nearest" and cj["dst"] != "crs" and not dtype.startswith("float") and dtype != "bool":
        eff_s = src_nd if src_nd is not None else attr
        eff_d = dst_nd if dst_nd is not None else eff_s
        if eff_s is not None:
            src_planes, out_planes = planes_of(data, lead, trail), planes_of(chunked, lead, trail)
            m = src_planes == eff_s
            okm = bool(np.all(out_planes[m] == eff_d))
            R.oracle(okm, "identity-nodata-not-remarked", cj,
                     f"pixels equal to the source nodata {eff_s} must come out as {eff_d} even when destination grid == source grid; "
                     f"got {np.unique(out_planes[m]).tolist()[:5]}" if not okm else "", sig=sig + "|remark", trivial=not m.any())
            ok &= okm
    return ok


def identity_corner(R: Run, ns, rng, n, dts):
    for _ in range(n):
        identity_one(R, ns, gen_identity(rng, dts))


# ------------------------------------------------------------------ zoom-in x sub-pixel shift x chunk boundaries
ZOOMS = [1, 2, 3, 7, 11, 16, 32, 64]
K17 = "chunked-differs-from-whole:translation-snapped-at-extreme-zoom"
K10 = "chunked-differs-from-whole:centre-exactly-on-source-edge"


def zoom_shifts(rng, N):
    """sub-pixel misalignment as a fraction of a SOURCE pixel"""
    pool = [0.0] + [sg * 2.0 ** -k for k in range(1, 11) for sg in (1, -1)] + [0.04, -0.04, 0.049, -0.049, 0.0009, -0.0009]
    half = 1.0 / (2 * N)
    pool += [half + d for d in (1e-4, -1e-4, 2.0 ** -12, -(2.0 ** -12))] + [-(half + 1e-4), -(half - 1e-4)]
    return rng.choice(pool)


def gen_zoom(rng, N=None, shift=None):
    """same CRS, no rotation: destination pixels N times smaller than the source pixels, grids misaligned by a
    small fraction of a source pixel, destination window laid over an interior source-chunk boundary"""
    N = N or rng.choice(ZOOMS)
    sh, sw = rng.randint(2, 5), rng.randint(2, 5)

    def chunks(n):
        if rng.random() < 0.5:
            return (1,) * n
        c = compositions(rng, n)
        return c if len(c) > 1 else (1, n - 1)

    sy, sx = chunks(sh), chunks(sw)
    bx = rng.choice(list(np.cumsum(sx)[:-1]))  # interior chunk boundary (source pixel index)
    by = rng.choice(list(np.cumsum(sy)[:-1]))
    mx, my = rng.randint(1, int(bx)), rng.randint(1, int(by))  # window starts m source pixels before it
    if N >= 32:
        mx = my = 1
    fx = zoom_shifts(rng, N) if shift is None else shift
    fy = zoom_shifts(rng, N) if shift is None else 0.0
    X0, Y0 = float(N * rng.randint(-3, 3)), float(N * rng.randint(-3, 3))
    S = (F(N), F(0), F(X0), F(0), F(N), F(Y0))
    after = max(2, N // 4) + rng.randint(0, 3)
    dw, dh = mx * N + after, (my * N + after if N <= 64 else 2)
    Dc = X0 + float((bx - mx) * N) + fx * N
    Df = Y0 + float((by - my) * N) + fy * N if N <= 64 else Y0 + N / 2
    D = (F(1), F(0), F(Dc), F(0), F(1), F(Df))
    pick = lambda m: rng.choice([N, m * N, max(1, N // 2), rng.randint(1, m * N + after)])  # noqa: E731
    return {"sh": sh, "sw": sw, "dh": dh, "dw": dw, "S": S, "D": D, "A": amul(ainv(S), D), "sy": sy, "sx": sx,
            "cy": pick(my) if N <= 64 else 2, "cx": pick(mx), "N": N, "shift": [fx, fy]}


def axis_exact(a, c, n, size):
    """per destination index: sampled source index (-1 outside), ambiguous (float rounding could move it), on x=0"""
    idx, amb, ez = np.full(n, -1), np.zeros(n, bool), np.zeros(n, bool)
    for x in range(n):
        p = a * F(2 * x + 1, 2) + c
        fl = math.floor(p)
        if 0 <= p < size:
            idx[x] = fl
        amb[x] = abs(p - round(p)) < F(1, 10**9) or abs(p - size) < F(1, 10**9)
        ez[x] = p == 0
    return idx, amb, ez


def zoom_one(R: Run, ns, cj):
    case = case_from_json(cj["case"])
    dtype, attr = cj["dtype"], cj["attr"]
    N, (fx, fy) = cj["case"]["N"], cj["case"]["shift"]
    sig = f"zoom|N={N}|{'aligned' if fx == 0 and fy == 0 else 'shift<1e-3' if max(abs(fx), abs(fy)) < 1e-3 else 'shift<0.05' if max(abs(fx), abs(fy)) < 0.05 else 'shift'}"
    data = ((np.arange(case["sh"] * case["sw"]).reshape(case["sh"], case["sw"]) * 7) % 97 + 1).astype(dtype)
    try:
        sg, dg, _ = geoboxes(ns, case)
        whole = ns.xr_reproject(ns.wrap_xr(data, sg, nodata=attr), dg, resampling="nearest").values
        lazy = ns.xr_reproject(ns.wrap_xr(ns.da.from_array(data, chunks=(case["sy"], case["sx"])), sg, nodata=attr), dg,
                               resampling="nearest", chunks=(case["cy"], case["cx"]))
        chunked = compute(ns, lazy.data, cj["sched"], cj["sseed"])
    except Exception as e:  # pylint: disable=broad-except
        R.oracle(False, "reproject-raises", cj, f"xr_reproject / compute raised {type(e).__name__}: {e}", sig=sig)
        return False
    # exact stream: the dependency table of the real grid_intersect versus the C12 model of _check_linear
    # (snap_affine with the real tolerances) + _grid_intersect_linear, for dyadic placements
    def dyadic(v):
        return F(v).denominator & (F(v).denominator - 1) == 0 and F(v).denominator <= 2**12

    if N & (N - 1) == 0 and dyadic(fx) and dyadic(fy):
        _, _, S = geoboxes(ns, case)
        R.corr("c13 lindeps " + " ".join([
            ";".join(frac_s(v) for v in S), ";".join(frac_s(v) for v in case["D"]), str(case["sh"]), str(case["sw"]),
            str(case["dh"]), str(case["dw"]), list_s(case["sy"]), list_s(case["sx"]), str(case["cy"]), str(case["cx"]),
            frac_s(1e-3), frac_s(1e-6), frac_s(1e-8), frac_s(1e-10)]),
            lambda: deps_s(real_deps(ns, sg, dg, case)),
            sig=f"lindeps|N={N}|" + ("snapped" if 0 < max(abs(fx), abs(fy)) < 1e-3 else "aligned" if fx == 0 == fy else "kept"))
    a, _, c, _, e, f = case["A"]
    ix, ambx, ezx = axis_exact(a, c, case["dw"], case["sw"])
    iy, amby, ezy = axis_exact(e, f, case["dh"], case["sh"])
    fv = spec_fill(dtype, attr, attr)
    ref = np.full((case["dh"], case["dw"]), fv, dtype=dtype)
    rows, cols = np.nonzero(iy >= 0)[0], np.nonzero(ix >= 0)[0]
    if len(rows) and len(cols):
        ref[np.ix_(rows, cols)] = data[np.ix_(iy[rows], ix[cols])]
    amb = amby[:, None] | ambx[None, :]
    sure = ~amb & ~(ezy[:, None] | ezx[None, :])
    ok_shape = chunked.shape == whole.shape == ref.shape
    R.oracle(ok_shape, "result-shape-differs", cj, f"{chunked.shape} {whole.shape} expected {ref.shape}", sig=sig + "|shape", trivial=True)
    if not ok_shape:
        return False

    def neq(x, y):
        return ~((x == y) | ((x != x) & (y != y)))

    # K17 guard: extreme zoom, translation below snap_affine's 1e-3, differences only right at a source-chunk boundary
    def near_chunk_boundary(diff):
        okc = np.zeros(case["dw"], bool)
        for b in np.cumsum(case["sx"])[:-1]:
            for x in range(case["dw"]):
                p = a * F(2 * x + 1, 2) + c
                if abs(p - int(b)) <= F(1, 1000):  # within snap_affine's translation tolerance (source px) of the boundary
                    okc[x] = True
        okr = np.zeros(case["dh"], bool)
        for b in np.cumsum(case["sy"])[:-1]:
            for y in range(case["dh"]):
                p = e * F(2 * y + 1, 2) + f
                if abs(p - int(b)) <= F(1, 1000):
                    okr[y] = True
        return not (diff & ~(okr[:, None] | okc[None, :])).any()

    def route(diff):
        if N > 500 and max(abs(fx), abs(fy)) < 1e-3 and near_chunk_boundary(diff):
            return K17
        return None

    okall = True
    # chunked vs the exact reference (floor of the exactly mapped centre)
    d1 = neq(chunked, ref) & sure
    key = route(d1) or "chunked-differs-from-exact-nearest"
    what = ""
    if d1.any():
        p = tuple(int(i) for i in np.argwhere(d1)[0])
        what = (f"zoom {N}x, shift ({fx}, {fy}) source px: pixel {p} holds {chunked[p]}, its centre maps into source pixel "
                f"({iy[p[0]]}, {ix[p[1]]}) = {ref[p]} ({int(d1.sum())} px; src chunks {case['sy']}x{case['sx']}, dst chunks "
                f"{case['cy']}x{case['cx']})")
    R.oracle(not d1.any(), key, cj, what, sig=sig + "|exact")
    okall &= not d1.any()
    d0 = neq(whole, ref) & sure
    R.oracle(not d0.any(), "whole-differs-from-exact-nearest", cj,
             f"in-memory result differs from the exact nearest reference at {int(d0.sum())} px" if d0.any() else "", sig=sig + "|whole")
    okall &= not d0.any()
    # chunked vs whole
    d2 = neq(chunked, whole) & ~amb
    key = "chunked-differs-from-whole"
    if d2.any():
        if not (d2 & ~(ezy[:, None] | ezx[None, :])).any():
            key = K10
        else:
            key = route(d2) or key
    R.oracle(not d2.any(), key, cj,
             f"zoom {N}x, shift ({fx}, {fy}) source px: dask-backed differs from numpy-backed at {int(d2.sum())} px, first "
             f"{tuple(int(i) for i in np.argwhere(d2)[0])}" if d2.any() else "", sig=sig + "|vs-whole")
    okall &= not d2.any()
    return okall


K23 = "chunked-differs-from-whole:scale-snapped-on-huge-raster"


def scale_snap_probe(R: Run, ns):
    """deterministic witness of known finding K23: a 2^21 px wide raster whose relative scale 1 + 2^-21 is snapped
    to 1 by snap_affine (stol = 1e-6) before the chunk dependencies are computed"""
    W, C = 2**21, 4096
    cj = {"kind": "scale-snap", "W": W, "chunk": C, "scale": "1+2^-21"}
    try:
        src = (np.arange(W + C, dtype="int64") // C % 100 + 1).astype("int16")[None, :]
        sg = ns.GeoBox((1, W + C), ns.Affine(1, 0, 0, 0, 1, 0), CRS)
        dg = ns.GeoBox((1, W + 8), ns.Affine(1 + 2.0**-21, 0, 0, 0, 1, 0), CRS)
        whole = ns.xr_reproject(ns.wrap_xr(src, sg, nodata=-1), dg).values
        chunked = ns.xr_reproject(ns.wrap_xr(ns.da.from_array(src, chunks=(1, C)), sg, nodata=-1), dg,
                                  chunks=(1, C)).data.compute(scheduler="synchronous")
    except Exception as e:  # pylint: disable=broad-except
        R.oracle(False, "reproject-raises", cj, f"{type(e).__name__}: {e}", sig="scale-snap")
        return
    diff = (whole != chunked)[0]
    key, what = "chunked-differs-from-whole", ""
    if diff.any():
        x = np.nonzero(diff)[0].astype("int64")
        # exact mapped centre: px = (2x+1)(2^21+1) / 2^22
        num = (2 * x + 1) * (W + 1)
        px = num / float(2**22)
        drift = x * 2.0**-21
        m = np.mod(px, C)
        near = np.minimum(m, C - m) <= drift + 1e-3
        # guard: |scale - snapped scale| < 1e-6 (2^-21), drift over the raster >= 1/4 px, every differing pixel within
        # its own drift of a source-chunk boundary
        if 2.0**-21 < 1e-6 and (W + 8) * 2.0**-21 >= 0.25 and bool(near.all()):
            key = K23
        what = (f"{int(diff.sum())} pixels differ, first column {int(x[0])} last {int(x[-1])}: chunked="
                f"{chunked[0, x[0]]} whole={whole[0, x[0]]} (1 x {W + 8} destination with scale 1+2^-21, chunks (1,{C}))")
    R.oracle(not diff.any(), key, cj, what, sig="scale-snap|K23")


def zoom_stream(R: Run, ns, rng, n):
    # deterministic witness of known finding K17 (always in the quick tier)
    w = {"sh": 4, "sw": 4, "dh": 2, "dw": 2056, "S": (F(2048), F(0), F(0), F(0), F(2048), F(0)),
         "D": (F(1), F(0), F(2049), F(0), F(1), F(1024)), "sy": (4,), "sx": (2, 2), "cy": 2, "cx": 2048, "N": 2048,
         "shift": [2.0 ** -11, 0.0]}
    w["A"] = amul(ainv(w["S"]), w["D"])
    zoom_one(R, ns, {"kind": "zoom", "case": case_json(w), "dtype": "int16", "attr": -1, "sched": "sync", "sseed": 0})
    scale_snap_probe(R, ns)
    for i in range(n):
        if i % 25 == 24:
            case = gen_zoom(rng, N=rng.choice([1024, 2048, 4096]), shift=rng.choice([2.0 ** -11, 0.0009, -0.0009, 0.0, 2.0 ** -13]))
        else:
            case = gen_zoom(rng)
        dtype = rng.choice(["int16", "uint8", "float32", "int32"])
        attr = rng.choice([None, None, -1 if dtype != "uint8" else 255])
        zoom_one(R, ns, {"kind": "zoom", "case": case_json(case), "dtype": dtype, "attr": attr,
                         "sched": rng.choice(["sync", "sync", "threads", "rtopo"]), "sseed": rng.randrange(10**6)})


# ------------------------------------------------------------------ long-lived process: CRS churn
def churn_specs(rng):
    """endless supply of distinct CRS definitions with a centre (lon, lat) inside their area of use"""
    utm = [(32600 + z, -177 + 6 * (z - 1), lat) for z in range(1, 61) for lat in (rng.uniform(5, 60),)] + \
          [(32700 + z, -177 + 6 * (z - 1), -rng.uniform(5, 60)) for z in range(1, 61)]
    rng.shuffle(utm)
    for epsg, lon, lat in utm:
        yield f"EPSG:{epsg}", lon, lat
    while True:
        lon, lat = round(rng.uniform(-170, 170), 3), round(rng.uniform(-60, 60), 3)
        if rng.random() < 0.5:
            yield (f"+proj=tmerc +lat_0={lat} +lon_0={lon} +k=0.9996 +x_0=500000 +y_0=0 +datum=WGS84 +units=m +no_defs", lon, lat)
        else:
            yield f"+proj=laea +lat_0={lat} +lon_0={lon} +x_0=0 +y_0=0 +datum=WGS84 +units=m +no_defs", lon, lat


def crs_churn(R: Run, ns, rng, n):
    """hundreds of scenes, each in a different CRS, in this one process; more distinct CRSs are normalised and used
    for point transforms in between; garbage collected regularly (ambient caches must not leak between scenes)"""
    import gc

    import pyproj
    from odc.geo import CRS

    specs = churn_specs(rng)
    wgs = "EPSG:4326"
    for i in range(n):
        spec, lon, lat = next(specs)
        fwd = pyproj.Transformer.from_crs(wgs, spec, always_xy=True)
        cx, cy = fwd.transform(lon, lat)
        to_geo = i % 3 != 2
        if to_geo:
            cj = {"kind": "cross", "scrs": spec, "dcrs": wgs, "sg": [8, 8, 1000.0, cx - 4000, cy + 4000],
                  "dg": [10, 10, 0.01, lon - 0.05, lat + 0.05]}
        else:
            cj = {"kind": "cross", "scrs": wgs, "dcrs": spec, "sg": [8, 8, 0.01, lon - 0.04, lat + 0.04],
                  "dg": [10, 10, 1000.0, cx - 5000, cy + 5000]}
        cj.update({"lead": None, "dtype": "int16", "attr_nd": -1, "dst_nd": None, "sy": (4, 4), "sx": (4, 4), "cy": 5, "cx": 5,
                   "sched": "sync", "sseed": 0, "resampling": "nearest", "scene": i})
        cross_one(R, ns, cj)
        # more distinct CRSs in between, each used for one transform (compared with pyproj itself)
        for _ in range(2):
            s2, lon2, lat2 = next(specs)
            try:
                got = CRS(s2).transformer_to_crs(CRS(wgs))(*pyproj.Transformer.from_crs(wgs, s2, always_xy=True).transform(lon2, lat2))
                ok = abs(got[0] - lon2) < 1e-6 and abs(got[1] - lat2) < 1e-6
                R.oracle(ok, "crs-transform-wrong-in-long-lived-process", {"kind": "churn-point", "spec": s2, "lon": lon2, "lat": lat2, "n": i},
                         f"after {i} scenes: ({lon2}, {lat2}) projected to {s2} and back gives {got}", sig="churn|point", trivial=True)
            except Exception as e:  # pylint: disable=broad-except
                R.oracle(False, "crs-transform-wrong-in-long-lived-process", {"kind": "churn-point", "spec": s2, "n": i},
                         f"{type(e).__name__}: {e}", sig="churn|point")
        if i % 8 == 7:
            gc.collect()


# ------------------------------------------------------------------ call histories inside one process
def layout_family(rng, n):
    """chunk layouts of an axis of length n that share the first chunk: regular, irregular, permuted tails"""
    f = rng.randint(1, max(1, n // 2))
    fam = {tuple([f] * (n // f) + ([n % f] if n % f else []))}
    for _ in range(4):
        tail = list(compositions(rng, n - f)) if n > f else []
        fam.add((f, *tail))
        rng.shuffle(tail)
        fam.add((f, *tail))
        fam.add((f, *reversed(tail)))
    fam = sorted(fam)
    other = compositions(rng, n)  # occasionally a layout with another first chunk
    return fam, other


def gen_history(rng, dts):
    while True:
        case = gen_case(rng, rotated=rng.random() < 0.25, minsize=4)
        if (~unreached_exact(case)).mean() >= 0.3:  # the grids really overlap
            break
    fy, oy = layout_family(rng, case["sh"])
    fx, ox = layout_family(rng, case["sw"])
    # destination tiles small enough to depend on only some of the source tiles
    dst_chunks = [(rng.randint(1, max(1, case["dh"] // 2)), rng.randint(1, max(1, case["dw"] // 2))) for _ in range(2)]
    base_dtype = rng.choice([d for d in dts if d != "bool"])
    calls = []
    for i in range(rng.randint(3, 5) if rng.random() < 0.8 else 2):
        dtype = base_dtype if rng.random() < 0.7 else rng.choice([d for d in dts if d != "bool"])
        attr = rng.choice([None, None, 0, 3])
        dn = rng.choice([None, None, attr, 5 if not dtype.startswith("float") else -7777])
        calls.append({
            "op": "reproject" if (i == 0 or rng.random() < 0.75) else "grid_intersect",
            "sy": list(rng.choice(fy) if rng.random() < 0.85 else oy), "sx": list(rng.choice(fx) if rng.random() < 0.85 else ox),
            "cyx": list(dst_chunks[0] if rng.random() < 0.85 else dst_chunks[1]),
            "dtype": dtype, "attr": nd_json(attr), "dn": nd_json(dn),
            "resampling": "nearest" if rng.random() < 0.8 else rng.choice(["bilinear", "cubic"]),
        })
    data = gen_data(rng, (case["sh"], case["sw"]), "int16", (0, 3))  # cast per call
    return {"kind": "history", "case": case_json(case), "data": data_json(data, "int16"), "calls": calls}


def deps_canon(deps):
    return sorted((tuple(k), sorted(tuple(i) for i in v)) for k, v in deps.items() if v)


def history_call(ns, case, data, call):
    """one call of a history on the real code -> dict(whole, chunked, deps)"""
    c = dict(case)
    c["sy"], c["sx"] = tuple(call["sy"]), tuple(call["sx"])
    c["cy"], c["cx"] = call["cyx"]
    sg, dg, _ = geoboxes(ns, c)
    out = {"deps": deps_canon(real_deps(ns, sg, dg, c))}
    if call["op"] == "reproject":
        arr = data.astype(call["dtype"])
        attr, dn = nd_from_json(call["attr"]), nd_from_json(call["dn"])
        out["whole"] = ns.xr_reproject(ns.wrap_xr(arr, sg, nodata=attr), dg, resampling=call["resampling"], dst_nodata=dn).values
        lazy = ns.xr_reproject(ns.wrap_xr(ns.da.from_array(arr, chunks=(c["sy"], c["sx"])), sg, nodata=attr), dg,
                               resampling=call["resampling"], dst_nodata=dn, chunks=(c["cy"], c["cx"]))
        out["chunked"] = lazy.data.compute(scheduler="synchronous")
    return out


def _fresh_call(payload):
    """runs in a brand-new interpreter: the call is the first thing that process ever does with odc-geo"""
    import os
    import sys
    import warnings

    warnings.filterwarnings("ignore")
    if os.environ.get("ODC_GEO_REPO") and os.environ["ODC_GEO_REPO"] not in sys.path:
        sys.path.insert(0, os.environ["ODC_GEO_REPO"])
    cj, i = payload
    try:
        ns = _import(probe=False)
        case = case_from_json(cj["case"])
        data = np.asarray(cj["data"]).astype("int16")
        return history_call(ns, case, data, cj["calls"][i])
    except Exception as e:  # pylint: disable=broad-except
        return {"error": f"{type(e).__name__}: {e}"}


def needed_tiles(case):
    """per destination tile: the source tiles holding a pixel that some destination pixel samples (exact)"""
    a, b, c, d, e, f = case["A"]
    oy, ox = np.cumsum((0,) + tuple(case["sy"])), np.cumsum((0,) + tuple(case["sx"]))
    out = {}
    for y in range(case["dh"]):
        for x in range(case["dw"]):
            px = a * (x + F(1, 2)) + b * (y + F(1, 2)) + c
            py = d * (x + F(1, 2)) + e * (y + F(1, 2)) + f
            if 0 <= px < case["sw"] and 0 <= py < case["sh"]:
                out.setdefault((y // case["cy"], x // case["cx"]), set()).add(
                    (int(np.searchsorted(oy[1:], math.floor(py), "right")), int(np.searchsorted(ox[1:], math.floor(px), "right"))))
    return out


def history_eval(R: Run, ns, cj, fresh):
    """run the history in THIS process; compare every call with its in-memory result and with the same call
    made first in a fresh process (`fresh[i]`)"""
    case = case_from_json(cj["case"])
    data = np.asarray(cj["data"]).astype("int16")
    sig = f"history|n={len(cj['calls'])}"
    okall = True
    for i, call in enumerate(cj["calls"]):
        tag = f"call {i + 1}/{len(cj['calls'])} {call}"
        try:
            got = history_call(ns, case, data, call)
        except Exception as e:  # pylint: disable=broad-except
            R.oracle(False, "history-call-raises", cj, f"{tag}: {type(e).__name__}: {e}", sig=sig)
            return False
        fr = fresh[i]
        if "error" in fr:
            R.oracle(False, "history-call-raises", cj, f"{tag} as the first call of a fresh process: {fr['error']}", sig=sig)
            return False
        ok, what = True, ""
        if got["deps"] != fr["deps"]:
            ok, what = False, f"{tag}: grid_intersect returns a different dependency table than in a fresh process"
        for name in ("chunked", "whole"):
            if name in got and not (got[name].shape == fr[name].shape and same(got[name], fr[name])):
                ok = False
                what = what or (f"{tag}: the {'dask-backed' if name == 'chunked' else 'numpy-backed'} result differs from the same "
                                f"call made first in a fresh process")
        okall &= ok
        R.oracle(ok, "result-depends-on-call-history", cj, what, sig=sig + "|" + call["op"])
        c = dict(case)
        c["sy"], c["sx"] = tuple(call["sy"]), tuple(call["sx"])
        c["cy"], c["cx"] = call["cyx"]
        have = dict(got["deps"])
        miss = [(k, sorted(v - set(have.get(k, [])))) for k, v in needed_tiles(c).items() if not v <= set(have.get(k, []))]
        R.oracle(not miss, "grid-intersect-misses-needed-tile", cj,
                 f"{tag}: destination tile {miss[0][0]} samples source tiles {miss[0][1]} that grid_intersect does not list"
                 if miss else "", sig=sig + "|deps")
        okall &= not miss
        if "chunked" in got and call["resampling"] == "nearest":
            okn = got["chunked"].shape == got["whole"].shape and same(got["chunked"], got["whole"])
            okall &= okn
            R.oracle(okn, "chunked-differs-from-whole", cj,
                     f"{tag}: dask-backed differs from numpy-backed (src chunks {call['sy']}x{call['sx']}, dst chunks {call['cyx']})"
                     if not okn else "", sig=sig + "|vs-whole")
    return okall


def fresh_pool(workers=12):
    import multiprocessing as mp

    return concurrent.futures.ProcessPoolExecutor(max_workers=workers, mp_context=mp.get_context("spawn"), max_tasks_per_child=1)


def histories_start(rng, n, dts, workers=5):
    """generate the call histories and start their fresh-interpreter reference calls right away: the child processes
    (one brand-new interpreter per call) run while the main process works through the other streams"""
    cjs = [gen_history(rng, dts) for _ in range(n)]
    pool = fresh_pool(workers)  # few workers: they run beside the main process and must not starve it
    futs = [[pool.submit(_fresh_call, (cj, i)) for i in range(len(cj["calls"]))] for cj in cjs]
    return pool, cjs, futs


def histories_finish(R: Run, ns, started):
    pool, cjs, futs = started
    try:
        for cj, fs in zip(cjs, futs):
            fresh = []
            for f in fs:
                try:
                    fresh.append(f.result(timeout=600))
                except Exception as e:  # pylint: disable=broad-except
                    fresh.append({"error": f"fresh process failed: {type(e).__name__}: {e}"})
            history_eval(R, ns, cj, fresh)
    finally:
        pool.shutdown(wait=True, cancel_futures=True)


def histories(R: Run, ns, rng, n, dts):
    histories_finish(R, ns, histories_start(rng, n, dts))


# ------------------------------------------------------------------ several products of one dask source, one graph
def variant_case(rng, case):
    """another destination for the same source: shifted by whole destination pixels, other size / chunks"""
    for _ in range(20):
        c = dict(case)
        a, b, cc, d, e, f = case["A"]
        kx, ky = rng.randint(-2, 2), rng.randint(-2, 2)
        c["A"] = (a, b, cc + a * kx + b * ky, d, e, f + d * kx + e * ky)
        c["D"] = amul(case["S"], c["A"])
        c["dh"], c["dw"] = rng.randint(1, 7), rng.randint(1, 7)
        c["cy"], c["cx"] = rng.randint(1, c["dh"] + 1), rng.randint(1, c["dw"] + 1)
        if not edge_zero(c).any():
            return c
    return case


def gen_joint(rng, dts):
    case = gen_case(rng, rotated=rng.random() < 0.3, small=True)
    dtype = rng.choice([d for d in dts if d != "bool"])
    isf = dtype.startswith("float")
    nd = rng.choice([0, 3])
    other = rng.choice([255 if dtype in ("uint8", "uint16", "int16", "int32") else 7, 5]) if not isf else -7777
    # nodata pairs (attribute, dst_nodata); several resolve to the same fill value
    pool = [(nd, other), (None, other), (nd, None), (None, nd), (None, None), (nd, nd)]
    if not isf:
        pool.append((3 - nd, other))
    rng.shuffle(pool)
    k = rng.randint(2, 4)
    prods = []
    alt = variant_case(rng, case)
    for attr, dn in pool[:k]:
        prods.append({"attr": attr, "dn": dn, "resampling": "nearest" if rng.random() < 0.8 else rng.choice(["bilinear", "cubic"]),
                      "alt": rng.random() < 0.25})
    data = gen_data(rng, (case["sh"], case["sw"]), dtype, (nd,))
    return {"kind": "joint", "case": case_json(case), "alt": case_json(alt), "dtype": dtype, "data": data_json(data, dtype),
            "prods": prods, "sched": rng.choice(SCHEDS), "sseed": rng.randrange(10**6), "dataset": rng.random() < 0.5}


def joint_one(R: Run, ns, cj):
    """every product of ONE dask source, computed together in one graph, equals (a) the same product computed
    on its own and (b), nearest, its own in-memory reprojection"""
    import xarray as xr

    case, alt = case_from_json(cj["case"]), case_from_json(cj["alt"])
    dtype = cj["dtype"]
    data = np.asarray(cj["data"]).astype(dtype)
    sig = f"joint|n={len(cj['prods'])}|{cj['sched']}" + ("|dataset" if cj["dataset"] else "")
    try:
        sg, dg, _ = geoboxes(ns, case)
        _, dg2, _ = geoboxes(ns, alt)
        darr = ns.da.from_array(data, chunks=(case["sy"], case["sx"]))
        lazies, wholes, alone = [], [], []
        for pr in cj["prods"]:
            c = alt if pr["alt"] else case
            g = dg2 if pr["alt"] else dg
            attr, dn = nd_from_json(pr["attr"]), nd_from_json(pr["dn"])
            wholes.append(ns.xr_reproject(ns.wrap_xr(data, sg, nodata=attr), g, resampling=pr["resampling"], dst_nodata=dn).values)
            lz = ns.xr_reproject(ns.wrap_xr(darr, sg, nodata=attr), g, resampling=pr["resampling"], dst_nodata=dn,
                                 chunks=(c["cy"], c["cx"]))
            lazies.append(lz)
            alone.append(lz.data.compute(scheduler="synchronous"))
        runs = []
        for order in (list(range(len(lazies))), list(reversed(range(len(lazies))))):
            arrs = [lazies[i].data for i in order]
            if cj["sched"] == "rtopo":
                got = ns.dask.compute(*arrs, scheduler=RandomTopo(cj["sseed"]))
            elif cj["sched"] == "sync":
                got = ns.dask.compute(*arrs, scheduler="synchronous")
            else:
                got = ns.dask.compute(*arrs, scheduler="threads", num_workers=4)
            runs.append(("dask.compute" + str(tuple(order)), dict(zip(order, got))))
        same_dst = [i for i, pr in enumerate(cj["prods"]) if not pr["alt"]]
        if cj["dataset"] and len(same_dst) >= 2:
            ds = xr.Dataset({f"v{i}": lazies[i] for i in same_dst}).compute(scheduler="synchronous")
            runs.append(("Dataset.compute", {i: ds[f"v{i}"].values for i in same_dst}))
    except Exception as e:  # pylint: disable=broad-except
        R.oracle(False, "joint-compute-raises", cj, f"{type(e).__name__}: {e}", sig=sig)
        return False
    ok, what = True, ""
    for how, res in runs:
        for i, got in res.items():
            pr = cj["prods"][i]
            if not (got.shape == alone[i].shape and same(got, alone[i])):
                ok = False
                what = what or (f"product {i} {pr} computed together with the others ({how}) differs from the same dask "
                                f"array computed on its own ({int(np.sum(got != alone[i])) if got.shape == alone[i].shape else 'shape'} px)")
            if pr["resampling"] == "nearest" and not (got.shape == wholes[i].shape and same(got, wholes[i])):
                ok = False
                what = what or (f"product {i} {pr} computed together with the others ({how}) differs from its in-memory "
                                f"reprojection at {int(np.sum(~((got == wholes[i]) | ((got != got) & (wholes[i] != wholes[i])))))} pixels")
    R.oracle(ok, "joint-compute-differs", cj, what, sig=sig)
    # distinct products must not share task keys unless they are the same computation
    names = [lz.data.name for lz in lazies]
    for i in range(len(names)):
        for j in range(i + 1, len(names)):
            if names[i] == names[j] and not (alone[i].shape == alone[j].shape and same(alone[i], alone[j])):
                R.oracle(False, "joint-compute-differs", cj,
                         f"products {i} and {j} have different pixels but the same dask graph name {names[i]}", sig=sig + "|name")
    return ok


def joint_pairs(R: Run, ns, rng):
    """on EVERY run: several reprojections of ONE dask source that differ in exactly one argument while derived quantities
    coincide (nodata pairs with the same fill value, resampling, destination grid of the same shape and chunks, ydim, extra
    keywords, an explicit name=), computed together in one graph / one Dataset, against each of them computed on its own"""
    import xarray as xr

    S = ns.Affine(1, 0, 0, 0, -1, 6)
    sg = ns.GeoBox((6, 8), S, CRS)
    dgs = {"a": ns.GeoBox((7, 9), ns.Affine(1, 0, -2, 0, -1, 8), CRS), "b": ns.GeoBox((7, 9), ns.Affine(1, 0, 1, 0, -1, 7), CRS)}
    for rep, dtype in enumerate(["int16", "float32", "uint8"][: R.pick(2, 3)]):
        data = np.array([[rng.choice([0, 3, 5, 1, 2, 9]) for _ in range(8)] for _ in range(6)]).astype(dtype)
        darr = ns.da.from_array(data, chunks=((2, 4), (3, 5)))
        base = {"attr": 3, "dn": 7, "resampling": "nearest", "dst": "a", "kw": {}}
        variants = [base,
                    dict(base, attr=None), dict(base, attr=5), dict(base, attr=0),            # same fill 7, other source nodata
                    dict(base, attr=3, dn=None), dict(base, attr=None, dn=3),                 # same fill 3
                    dict(base, attr=0, dn=None), dict(base, attr=None, dn=0),                 # same fill 0 (falsy)
                    dict(base, resampling="bilinear"), dict(base, resampling="average"),
                    dict(base, dst="b"),
                    dict(base, resampling="bilinear", kw={"XSCALE": 3, "YSCALE": 3}),
                    dict(base, kw={"name": "warped"}), dict(base, attr=None, kw={"name": "warped"}),
                    dict(base, attr=5, kw={"name": "warped"}), dict(base, dst="b", kw={"name": "warped"}),
                    dict(base, kw={"src_nodata": 5}), dict(base, kw={"src_nodata": 0})]
        if dtype.startswith("float"):
            variants += [dict(base, attr=None, dn=None), dict(base, attr=float("nan"), dn=None), dict(base, attr=None, dn=float("nan"))]
        cj = {"kind": "jointpairs", "dtype": dtype, "data": data_json(data, dtype),
              "variants": [{k: (nd_json(v) if k in ("attr", "dn") else v) for k, v in va.items()} for va in variants]}
        sig = f"joint-pairs|{dtype}"
        try:
            lazies = [ns.xr_reproject(ns.wrap_xr(darr, sg, nodata=va["attr"]), dgs[va["dst"]], resampling=va["resampling"],
                                      dst_nodata=va["dn"], chunks=(3, 4), **va["kw"]) for va in variants]
            alone = [lz.data.compute(scheduler="synchronous") for lz in lazies]
            idx = list(range(len(lazies)))
            runs = [("dask.compute", idx, ns.dask.compute(*[lz.data for lz in lazies], scheduler="synchronous"))]
            if rep == 0 or not R.quick:
                runs.append(("dask.compute reversed", idx,
                             tuple(reversed(ns.dask.compute(*[lz.data for lz in reversed(lazies)], scheduler="synchronous")))))
            if not R.quick:
                runs.append(("dask.compute threads", idx, ns.dask.compute(*[lz.data for lz in lazies], scheduler="threads", num_workers=4)))
            # one Dataset graph: the variables on the same destination grid (a Dataset aligns its variables' coordinates)
            on_a = [i for i, va in enumerate(variants) if va["dst"] == "a"]
            ds = xr.Dataset({f"v{i}": lazies[i] for i in on_a}).compute(scheduler="synchronous")
            runs.append(("Dataset.compute", on_a, tuple(ds[f"v{i}"].values for i in on_a)))
            # ydim: the same 3-d array warped along axes (0, 1) and along axes (1, 2)
            cube = ns.da.from_array(np.arange(64).reshape(4, 4, 4).astype(dtype), chunks=(2, 2, 2))
            g4 = ns.GeoBox((4, 4), ns.Affine(1, 0, 0, 0, -1, 4), CRS)
            g4d = ns.GeoBox((4, 4), ns.Affine(1, 0, 1, 0, -1, 5), CRS)
            try:
                yl = [dask_reproject(ns, cube, g4, g4d, "nearest", None, 7, ydim=yd, chunks=(2, 2)) for yd in (0, 1)]
                ya = [y.compute(scheduler="synchronous") for y in yl]
                yj = ns.dask.compute(*yl, scheduler="synchronous")
            except Skip as e:
                note_once(str(e))
                ya, yj = [], []
        except Exception as e:  # pylint: disable=broad-except
            R.oracle(False, "joint-compute-raises", cj, f"{type(e).__name__}: {e}", sig=sig)
            continue
        ok, what = True, ""
        for how, which, got in runs:
            for i, g_ in zip(which, got):
                a_ = alone[i]
                if not (g_.shape == a_.shape and same(g_, a_)) and ok:
                    ok = False
                    j = next((k for k, b_ in enumerate(alone) if k != i and b_.shape == g_.shape and same(g_, b_)), None)
                    what = (f"{how}: reprojection {i} {variants[i]} computed together with the others differs from the same call "
                            f"computed on its own" + (f" — it holds the pixels of reprojection {j} {variants[j]}" if j is not None else ""))
        for i, (g_, a_) in enumerate(zip(yj, ya)):
            if not same(g_, a_) and ok:
                ok, what = False, f"ydim={i}: the 3-d array warped along axes ({i}, {i + 1}) computed together with the other axis choice differs from its own result"
        R.oracle(ok, "joint-compute-differs", cj, what, sig=sig)


def joint_compute(R: Run, ns, rng, n, dts):
    joint_pairs(R, ns, rng)
    for _ in range(n):
        joint_one(R, ns, gen_joint(rng, dts))


# ------------------------------------------------------------------ correspondence pieces
def lindeps_corr(R: Run, ns, case, sg, dg, S, sig):
    """real `_check_linear` + `grid_intersect` versus the C12 model (checkLinear with snap_affine at the real
    tolerances, gridIntersectLinear): 'general' when the relative transform is not scale + translation"""
    def f():
        gs = ns.GeoboxTiles(sg, (case["sy"], case["sx"]))
        gd = ns.GeoboxTiles(dg, (case["cy"], case["cx"]))
        chk = getattr(gd, "_check_linear", None)
        if chk is None:
            raise Skip("GeoboxTiles._check_linear not found: which path grid_intersect takes is not observable, lindeps stream skipped")
        try:
            lin = chk(gs)
        except TypeError:
            raise Skip("GeoboxTiles._check_linear has another calling convention: lindeps stream skipped") from None
        if lin is None:
            return "general"
        return deps_s(gd.grid_intersect(gs))

    corr_skip(R, "c13 lindeps " + " ".join([
        ";".join(frac_s(v) for v in S), ";".join(frac_s(v) for v in case["D"]), str(case["sh"]), str(case["sw"]),
        str(case["dh"]), str(case["dw"]), list_s(case["sy"]), list_s(case["sx"]), str(case["cy"]), str(case["cx"]),
        frac_s(1e-3), frac_s(1e-6), frac_s(1e-8), frac_s(1e-10)]), f, sig=sig)


def corr_lowlevel(R: Run, ns, rng, case, dtype, rotated=False, inject=False):
    """real _dask_rio_reproject / rio_reproject versus the model, arbitrary (src_nodata, dst_nodata)"""
    kind, lo = DTYPES[dtype]
    sn, dn = gen_nodata(rng, dtype)
    data = gen_data(rng, (case["sh"], case["sw"]), dtype, (sn, dn))
    sg, dg, S = geoboxes(ns, case)
    deps = real_deps(ns, sg, dg, case)
    tag = case.get("fam", "rot" if rotated else "lin") if rotated else "lin"
    if not inject:
        lindeps_corr(R, ns, case, sg, dg, S, f"lindeps|{tag}")
    if inject:
        deps = inject_deps(rng, case, deps)
        tag += "|inj"
    n_const = sum(1 for iy in range(-(-case["dh"] // case["cy"])) for ix in range(-(-case["dw"] // case["cx"]))
                  if not deps.get((iy, ix)))
    msn, mdn = cast_nd(sn, dtype), cast_nd(dn, dtype)
    ln = common_line(case, S, kind, lo, msn, mdn, deps_s(deps), data)
    sig = f"dask|{tag}|{kind}|nd={'s' if sn is not None else '-'}{'d' if dn is not None else '-'}|const={min(n_const, 1)}"

    def f_dask():
        src = ns.da.from_array(data, chunks=(case["sy"], case["sx"]))
        if inject:
            orig = ns.GeoboxTiles.grid_intersect
            ns.GeoboxTiles.grid_intersect = lambda self, other, *a_, **k_: deps
            try:
                out = dask_reproject(ns, src, sg, dg, "nearest", sn, dn, ydim=0, chunks=(case["cy"], case["cx"]))
            finally:
                ns.GeoboxTiles.grid_intersect = orig
        else:
            out = dask_reproject(ns, src, sg, dg, "nearest", sn, dn, ydim=0, chunks=(case["cy"], case["cx"]))
        sch = RandomTopo(rng.randrange(10**6))
        res = out.compute(scheduler=sch, optimize_graph=False)
        f_dask.order = sch.order
        f_dask.names = (src.name, out.name)
        f_dask.res = res
        return img_s(res)

    f_dask.order, f_dask.res, f_dask.names = [], None, (None, None)
    corr_skip(R, "c13 dask " + ln, f_dask, sig=sig)
    if f_dask.res is not None:
        # fill_uniform on the real output of _dask_rio_reproject, every (src_nodata, dst_nodata) pair
        fv = spec_fill(dtype, sn, dn)
        un = unreached_exact(case)
        vals = f_dask.res[un]
        good = (vals != vals) if (np.dtype(dtype).kind == "f" and math.isnan(float(fv))) else (vals == fv)
        R.oracle(bool(np.all(good)), "unreached-pixel-not-fill-lowlevel",
                 case_json(case, dtype=dtype, data=np.asarray(data).astype(float).tolist(), src_nd=nd_json(sn), dst_nd=nd_json(dn),
                           deps=deps_s(deps), lowlevel=True),
                 f"_dask_rio_reproject(src_nodata={sn}, dst_nodata={dn}, {dtype}): an unreached pixel holds "
                 f"{vals[int(np.argmin(good))] if len(vals) else None}, expected fill {fv}",
                 sig="lowlevel-fill|" + tag, trivial=not un.any())

    def f_numpy():
        dst = np.full((case["dh"], case["dw"]), 77).astype(dtype)
        ns.W.rio_reproject(data, dst, sg, dg, "nearest", sn, dn)
        return img_s(dst)

    if not inject:
        R.corr("c13 numpy " + common_line(case, S, kind, lo, msn, mdn, "-", data), f_numpy,
               sig=f"numpy|{tag}|{kind}|nd={'s' if sn is not None else '-'}{'d' if dn is not None else '-'}")
    # the recorded execution order replayed through the model's executor
    if f_dask.order and f_dask.res is not None and rng.random() < 0.5:
        # the order in which the blocks of the SOURCE array and of the RESULT array (identified by the public dask names
        # of the two arrays) became available; every other key of the graph is internal and ignored
        keys, seen, dseen = [], set(), set()
        src_name, out_name = f_dask.names
        for k in f_dask.order:
            if isinstance(k, tuple) and len(k) == 3:
                if k[0] == out_name:
                    # (source getters that dask fused away are run right before their first use)
                    for s_ in deps.get((k[1], k[2]), []):
                        if s_ not in seen:
                            seen.add(s_)
                            keys.append("s" + idx_s(s_))
                    if (k[1], k[2]) not in dseen:
                        dseen.add((k[1], k[2]))
                        keys.append(f"d{k[1]}.{k[2]}")
                elif k[0] == src_name and (k[1], k[2]) not in seen:
                    seen.add((k[1], k[2]))
                    keys.append(f"s{k[1]}.{k[2]}")
        res = f_dask.res
        if len(dseen) == (-(-case["dh"] // case["cy"])) * (-(-case["dw"] // case["cx"])):
            R.corr("c13 exec " + ",".join(keys) + " " + ln, lambda: img_s(res), sig="exec|recorded-order")


def inject_deps(rng, case, deps):
    """a different complete dependency map: exactly the needed tiles (so uncovered chunks become constant
    blocks) plus random extra tiles, in random order"""
    a, b, c, d, e, f = case["A"]
    oy = np.cumsum((0,) + case["sy"])
    ox = np.cumsum((0,) + case["sx"])
    out = {}
    ny, nx = -(-case["dh"] // case["cy"]), -(-case["dw"] // case["cx"])
    for iy in range(ny):
        for ix in range(nx):
            need = set()
            for y in range(iy * case["cy"], min((iy + 1) * case["cy"], case["dh"])):
                for x in range(ix * case["cx"], min((ix + 1) * case["cx"], case["dw"])):
                    px = a * (x + F(1, 2)) + b * (y + F(1, 2)) + c
                    py = d * (x + F(1, 2)) + e * (y + F(1, 2)) + f
                    if 0 <= px < case["sw"] and 0 <= py < case["sh"]:
                        need.add((int(np.searchsorted(oy[1:], math.floor(py), "right")),
                                  int(np.searchsorted(ox[1:], math.floor(px), "right"))))
            extra = set()
            if rng.random() < 0.4:
                for _ in range(rng.randint(1, 2)):
                    extra.add((rng.randrange(len(case["sy"])), rng.randrange(len(case["sx"]))))
            lst = sorted(need | extra)
            rng.shuffle(lst)
            if lst or rng.random() < 0.5:
                out[(iy, ix)] = lst
    return out


def corr_xr(R: Run, ns, rng, case, dtype):
    """xr_reproject-level correspondence: nodata attribute / dst_nodata defaulting + dispatch"""
    kind, lo = DTYPES[dtype]
    if dtype == "bool":
        attr, dn = rng.choice([None, 0, 1]), rng.choice([None, None, 0, 1])
    elif kind == "f":
        attr = rng.choice([None, None, 3, float("nan"), -9999])
        dn = rng.choice([None, None, attr, -7777, float("nan")])
    else:
        attr, dn = rng.choice([None, None, 0, 3, 5]), rng.choice([None, None, 0, 5, 7])
    data = gen_data(rng, (case["sh"], case["sw"]), dtype, (attr, dn))
    sg, dg, S = geoboxes(ns, case)
    deps = real_deps(ns, sg, dg, case)
    sched = rng.choice(SCHEDS)
    seed = rng.randrange(10**6)
    res = oracle_pair(R, ns, case, dtype, data, attr, dn, sched, seed, tag=case.get("fam", "lin"))
    if res is None:
        return
    whole, chunked = res
    sn_m, dn_m = cast_nd(attr, dtype), cast_nd(dn if dn is not None else attr, dtype)
    # `xrnd` is the model of the defaulting; the composed model line uses its output
    R.corr(f"c13 xrnd {val_s(cast_nd(attr, dtype))} N {val_s(cast_nd(dn, dtype))}",
           lambda: f"{val_s(sn_m)} {val_s(dn_m)}", sig="xrnd|trivial")
    sig = f"xr-dask|{kind}|nd={'a' if attr is not None else '-'}{'d' if dn is not None else '-'}"
    R.corr("c13 dask " + common_line(case, S, kind, lo, sn_m, dn_m, deps_s(deps), data), lambda: img_s(chunked), sig=sig)
    R.corr("c13 numpy " + common_line(case, S, kind, lo, sn_m, dn_m, "-", data), lambda: img_s(whole),
           sig=sig.replace("xr-dask", "xr-numpy"))


# ------------------------------------------------------------------ spec validation (GDAL is the reference)
def spec_warp(R: Run, ns, rng, n):
    """`_rio_reproject` on a pre-filled buffer versus gdalNearest: init rule, half-open edges, floor,
    nodata masking, collision nudge, bool stretching"""
    cases = []
    for ax in (F(1), F(2), F(1, 2), F(-1), F(-2), F(-1, 2), F(4), F(1, 4)):
        for t8 in range(-44, 60, 3):
            cases.append((ax, F(t8, 8)))
    rng.shuffle(cases)
    for ax, tx in cases[:n]:
        dtype = rng.choice(list(DTYPES))
        kind, lo = DTYPES[dtype]
        case = _w(2, 5, 2, 9, (ax, F(0), tx, F(0), F(1), F(0)), (2,), (5,), 2, 9)
        if edge_zero(case).any():
            continue
        sn, dn = gen_nodata(rng, dtype)
        data = gen_data(rng, (2, 5), dtype, (sn, dn))
        sg, dg, S = geoboxes(ns, case)

        def f():
            dst = np.full((2, 9), 55).astype(dtype)
            rio_plane(ns, data, dst, sg, dg, "nearest", sn, dn)
            return img_s(dst)

        R.corr("c13 warp " + common_line(case, S, kind, lo, cast_nd(sn, dtype), cast_nd(dn, dtype), "-", data), f,
               sig=f"spec-warp|{kind}|nd={'s' if sn is not None else '-'}{'d' if dn is not None else '-'}")
        # the public entry points warp_affine / warp_affine_rio: the same warp with the pixel map given directly
        entry = rng.choice(["warp_affine", "warp_affine_rio"])

        def fa():
            dst = np.full((2, 9), 55).astype(dtype)
            getattr(ns.W, entry)(data, dst, to_affine(ns, case["A"]), "nearest", src_nodata=sn, dst_nodata=dn)
            return img_s(dst)

        R.corr("c13 warpaffine " + common_line(case, S, kind, lo, cast_nd(sn, dtype), cast_nd(dn, dtype), "-", data), fa,
               sig=f"{entry}|{kind}|nd={'s' if sn is not None else '-'}{'d' if dn is not None else '-'}")


def corr_small_ops(R: Run, ns, rng):
    # resolve_fill_value
    for dtype in DTYPES:
        kind, _ = DTYPES[dtype]
        nds = [None, 0, 1] if dtype == "bool" else ([None, 0, 3, float("nan")] if kind == "f" else [None, 0, 3, 200 if dtype != "int8" else 100])
        for dn in nds:
            for sn in nds:
                def f_fill(dn=dn, sn=sn, dtype=dtype):
                    if ns.resolve_fill is None:
                        raise Skip("odc.geo._dask.resolve_fill_value not found: its conversion is only seen through the constant chunks")
                    return val_s(ns.resolve_fill(dn, sn, dtype))

                corr_skip(R, f"c13 fill {kind} {val_s(cast_nd(dn, dtype))} {val_s(cast_nd(sn, dtype))}", f_fill, sig=f"fill|{kind}")
    # Tiles (destination tiling)
    for N in range(0, 12):
        for n in range(1, 13):
            def f():
                t = ns.Tiles((N, 1), (n, 1))
                return list_s([f"{t[i, 0][0].start}:{t[i, 0][0].stop}" for i in range(t.shape[0])])
            R.corr(f"c13 tiling {N} {n}", f, sig="tiling|" + ("ragged" if N % n else "even"))
    # GeoboxTiles.clip + BlockAssembler.extract
    for _ in range(R.pick(150, 1500)):
        H, W = rng.randint(1, 7), rng.randint(1, 7)
        sy, sx = compositions(rng, H), compositions(rng, W)
        allidx = [(i, j) for i in range(len(sy)) for j in range(len(sx))]
        sel = [rng.choice(allidx) for _ in range(rng.randint(1, 4))]
        if rng.random() < 0.3:
            sel = sorted(set(sel))
        gb = ns.GeoBox((H, W), ns.Affine(1, 0, 0, 0, 1, 0), CRS)

        def fc():
            gbt, new = ns.GeoboxTiles(gb, (sy, sx)).clip(sel)
            y1, x1 = min(i for i, _ in sel), min(j for _, j in sel)
            y2, x2 = max(i for i, _ in sel), max(j for _, j in sel)
            roi = ns.GeoboxTiles(gb, (sy, sx)).roi[y1:y2 + 1, x1:x2 + 1]
            # crop transform = base * translation(window start)
            assert gbt.base.transform == gb.transform * ns.Affine.translation(roi[1].start, roi[0].start)
            assert gbt.base.shape == (roi[0].stop - roi[0].start, roi[1].stop - roi[1].start)
            cy, cx = gbt.chunks
            oy, ox = np.cumsum((0,) + tuple(cy)), np.cumsum((0,) + tuple(cx))
            return (f"{roi[0].start}:{roi[0].stop} {roi[1].start}:{roi[1].stop} "
                    + list_s([f"{a}:{b}" for a, b in zip(oy[:-1], oy[1:])]) + " "
                    + list_s([f"{a}:{b}" for a, b in zip(ox[:-1], ox[1:])]) + " " + list_s([idx_s(i) for i in new]))

        R.corr(f"c13 clip {list_s(sy)} {list_s(sx)} " + "+".join(idx_s(i) for i in sel), fc, sig=f"clip|n={len(sel)}")
        dtype = rng.choice(["float32", "int16", "uint8", "bool"])
        kind, _ = DTYPES[dtype]
        sn = rng.choice([None, 0, 3]) if dtype != "bool" else rng.choice([None, 0, 1])
        data = gen_data(rng, (H, W), dtype, (sn,))
        present = sorted(set(sel))
        rng.shuffle(present)

        def fa():
            oy, ox = np.cumsum((0,) + sy), np.cumsum((0,) + sx)
            blocks = {(i, j): data[oy[i]:oy[i + 1], ox[j]:ox[j + 1]] for i, j in present}
            if ns.BlockAssembler is None:
                raise Skip("odc.geo._blocks.BlockAssembler not found: block assembly is only seen through the chunked results")
            ba = ns.BlockAssembler(blocks, (sy, sx))
            return img_s(ba.extract(sn, dtype=ba.dtype))

        corr_skip(R, f"c13 asm {kind} {val_s(cast_nd(sn, dtype))} {list_s(sy)} {list_s(sx)} " + "+".join(idx_s(i) for i in present)
               + " " + img_s(data), fa, sig=f"asm|{kind}|fill={'nd' if sn is not None else 'default'}")


# ------------------------------------------------------------------ float stream: cross CRS, time axis, resampling
def cross_crs(R: Run, ns, rng, n):
    import pyproj

    for _ in range(n):
        sh, sw = rng.randint(8, 24), rng.randint(8, 24)
        lon0, lat0 = rng.uniform(-150, 150), rng.uniform(-55, 55)
        res = rng.choice([0.01, 0.02, 0.005])
        sg = ns.GeoBox((sh, sw), ns.Affine(res, 0, lon0, 0, -res, lat0), "epsg:4326")
        # destination in web mercator around (and beyond) the source
        tr = pyproj.Transformer.from_crs("epsg:4326", "epsg:3857", always_xy=True)
        x0, y0 = tr.transform(lon0, lat0)
        x1, y1 = tr.transform(lon0 + res * sw, lat0 - res * sh)
        dres = abs(x1 - x0) / sw * rng.choice([0.7, 1.0, 1.6])
        dh, dw = rng.randint(6, 30), rng.randint(6, 30)
        offx, offy = rng.uniform(-0.7, 0.7) * dw * dres, rng.uniform(-0.7, 0.7) * dh * dres
        if rng.random() < 0.12:
            offx += 3 * dw * dres  # disjoint
        dg = ns.GeoBox((dh, dw), ns.Affine(dres, 0, x0 + offx, 0, -dres, y0 + offy), "epsg:3857")
        dtype = rng.choice(["float32", "int16", "uint8", "float64", "int32"])
        attr = rng.choice([None, None, 0 if dtype.startswith("f") else 255 if dtype == "uint8" else -1])
        dn = rng.choice([None, None, attr])
        # every source pixel carries its own id -> which pixel was sampled is visible
        data = (np.arange(sh * sw).reshape(sh, sw) % 250 + 1).astype(dtype)
        sy, sx = compositions(rng, sh), compositions(rng, sw)
        cy, cx = rng.randint(1, dh + 1), rng.randint(1, dw + 1)
        sched, seed = rng.choice(SCHEDS), rng.randrange(10**6)
        resampling = rng.choice(["nearest", "nearest", "bilinear", "cubic"])
        lead = list(axis_chunks(rng, rng.randint(2, 5))) if rng.random() < 0.35 else None
        cj = {"kind": "cross", "lead": lead, "sg": [sh, sw, res, lon0, lat0], "dg": [dh, dw, dres, x0 + offx, y0 + offy], "dtype": dtype,
              "attr_nd": attr, "dst_nd": dn, "sy": sy, "sx": sx, "cy": cy, "cx": cx, "sched": sched, "sseed": seed,
              "resampling": resampling}
        cross_one(R, ns, cj)


def cross_one(R: Run, ns, cj):
    import pyproj

    sh, sw, res, lon0, lat0 = cj["sg"]
    dh, dw, dres, X0, Y0 = cj["dg"]
    dtype, attr, dn = cj["dtype"], cj["attr_nd"], cj["dst_nd"]
    scrs, dcrs = cj.get("scrs", "epsg:4326"), cj.get("dcrs", "epsg:3857")
    sg = ns.GeoBox((sh, sw), ns.Affine(res, 0, lon0, 0, -res, lat0), scrs)
    dg = ns.GeoBox((dh, dw), ns.Affine(dres, 0, X0, 0, -dres, Y0), dcrs)
    lead = cj.get("lead")
    base = np.arange(sh * sw).reshape(sh, sw)
    # every source pixel carries its own id (per plane) -> which pixel was sampled is visible
    src_planes = [((base + 37 * t) % 250 + 1).astype(dtype) for t in range(sum(lead) if lead else 1)]
    data = np.stack(src_planes) if lead else src_planes[0]
    ax = 1 if lead else 0
    chunks = ((tuple(lead),) if lead else ()) + (tuple(cj["sy"]), tuple(cj["sx"]))
    sig = f"cross|{cj['resampling']}|{np.dtype(dtype).kind}|{cj['sched']}" + ("|lead" if lead else "") + ("|churn" if "scrs" in cj else "")
    try:
        whole = ns.xr_reproject(ns.wrap_xr(data, sg, nodata=attr, axis=ax), dg, resampling=cj["resampling"], dst_nodata=dn).values
        lazy = ns.xr_reproject(ns.wrap_xr(ns.da.from_array(data, chunks=chunks), sg, nodata=attr, axis=ax), dg,
                               resampling=cj["resampling"], dst_nodata=dn, chunks=(cj["cy"], cj["cx"]))
        chunked = compute(ns, lazy.data, cj["sched"], cj["sseed"])
    except Exception as e:  # pylint: disable=broad-except
        R.oracle(False, "reproject-raises", cj, f"xr_reproject / compute raised {type(e).__name__}: {e}", sig=sig)
        return False
    want_shape = ((sum(lead),) if lead else ()) + (dh, dw)
    ok_shape = tuple(chunked.shape) == tuple(whole.shape) == tuple(lazy.shape) == want_shape
    R.oracle(ok_shape, "result-shape-differs", cj,
             f"computed dask result has shape {tuple(chunked.shape)}, declared {tuple(lazy.shape)}, in-memory "
             f"{tuple(whole.shape)}, expected {want_shape} (time chunks {lead})", sig=sig + "|shape", trivial=not lead)
    if not ok_shape:
        return False
    cps, wps = planes_of(chunked, lead, None), planes_of(whole, lead, None)
    # exact-ish source position of every destination pixel centre
    tr = pyproj.Transformer.from_crs(dcrs, scrs, always_xy=True)
    xs = X0 + (np.arange(dw) + 0.5) * dres
    ys = Y0 - (np.arange(dh) + 0.5) * dres
    XX, YY = np.meshgrid(xs, ys)
    lon, lat = tr.transform(XX, YY)
    px, py = (lon - lon0) / res, (lat0 - lat) / res
    fv = spec_fill(dtype, attr, dn if dn is not None else attr)
    margin = 0.3 if cj["resampling"] == "nearest" else 2.5  # kernel support for non-nearest
    far = (px < -margin) | (px > sw + margin) | (py < -margin) | (py > sh + margin)
    okall = True
    for name, arrs in (("chunked", cps), ("whole", wps)):
        ok, what = True, ""
        for t, arr in enumerate(arrs):
            vals = arr[far]
            good = (vals != vals) if np.dtype(dtype).kind == "f" and math.isnan(float(fv)) else (vals == fv)
            if not bool(np.all(good)):
                ok = False
                p = np.argwhere(far)[int(np.argmin(good))]
                what = (f"{name} result: pixel {tuple(int(i) for i in p)} (plane {t}) lies {margin}+ px outside the source "
                        f"but holds {arr[tuple(p)]}, expected fill {fv}")
                break
        okall &= ok
        R.oracle(ok, f"unreached-pixel-not-fill-cross-{name}", cj, what, sig=sig + "|fill", trivial=not far.any())
    if cj["resampling"] == "nearest":
        # unambiguous pixels: centre at least 0.3 px away from every source pixel edge and inside
        fx, fy = px - np.floor(px), py - np.floor(py)
        clear = (np.minimum(fx, 1 - fx) > 0.3) & (np.minimum(fy, 1 - fy) > 0.3)
        ins = clear & (px > 0) & (px < sw) & (py > 0) & (py < sh)
        ok, any_use = True, False
        for sp, cpl, wpl in zip(src_planes, cps, wps):
            want = sp[np.clip(np.floor(py).astype(int), 0, sh - 1), np.clip(np.floor(px).astype(int), 0, sw - 1)]
            use = ins & (want != (attr if attr is not None else -12345))
            any_use |= bool(use.any())
            ok &= bool(np.all(cpl[use] == want[use])) and bool(np.all(wpl[use] == want[use]))
        okall &= ok
        R.oracle(ok, "cross-crs-sampled-pixel-differs", cj,
                 "a destination pixel whose centre maps well inside one source pixel does not hold that pixel's value"
                 if not ok else "", sig=sig + "|value", trivial=not any_use)
    return okall


NONUNIFORM = {5: [(2, 2, 1), (1, 4), (4, 1), (1, 1, 3)], 4: [(3, 1), (1, 3), (1, 2, 1)], 3: [(2, 1), (1, 2)], 2: [(1, 1)]}


def axis_chunks(rng, n):
    r = rng.random()
    if r < 0.55 and n in NONUNIFORM:
        return rng.choice(NONUNIFORM[n])
    return compositions(rng, n)


def extra_axes(R: Run, ns, rng, n):
    """leading (time) and / or trailing (band) axis with non-uniform and 1-long chunks, on destinations that
    have chunks without any source (rotated -> general path, shifted, disjoint)"""
    for i in range(n):
        case = gen_case(rng, rotated=(i % 2 == 0), small=True)
        if i % 2 == 0:
            # many small destination chunks: some of them get no source at all
            case["cy"], case["cx"] = rng.randint(1, 3), rng.randint(1, 3)
        dtype = rng.choice(["float32", "int16", "uint8", "bool", "float64"])
        mode = rng.choice(["lead", "lead", "trail", "both"])
        T = rng.randint(2, 5) if mode != "trail" else None
        B = rng.randint(1, 4) if mode != "lead" else None
        lead = axis_chunks(rng, T) if T else None
        trail = axis_chunks(rng, B) if B else None
        attr = rng.choice([None, None, 3]) if dtype != "bool" else rng.choice([None, 0, 1])
        dn = rng.choice([None, None, attr])
        nplanes = (T or 1) * (B or 1)
        pl = np.stack([gen_data(rng, (case["sh"], case["sw"]), dtype, (attr, dn)) for _ in range(nplanes)])
        data = pl.reshape(((T,) if T else ()) + ((B,) if B else ()) + pl.shape[-2:])
        if B:
            data = np.moveaxis(data, -3, -1)  # (..., H, W, B)
        res = oracle_pair(R, ns, case, dtype, np.ascontiguousarray(data), attr, dn, rng.choice(SCHEDS), rng.randrange(10**6),
                          lead=lead, trail=trail, tag="axes")
        # exact stream: the N-d model (Model/C13Nd: spatial axes at `ydim`, one chunk table per other axis)
        isf = dtype.startswith("float")
        if res is not None and not edge_zero(case).any() and not (isf and dn is not None and not (attr is not None and eqv(dn, attr))):
            kind, lo = DTYPES[dtype]
            sg, dg, S = geoboxes(ns, case)
            deps = real_deps(ns, sg, dg, case)
            sn_m, dn_m = cast_nd(attr, dtype), cast_nd(dn if dn is not None else attr, dtype)
            tabs = "/".join(list_s(t) for t in ([lead] if lead else []) + ([trail] if trail else []))
            src_pl, out_pl = planes_of(data, lead, None if not trail else trail), planes_of(res[1], lead, trail)
            # planes_of orders (band, time); the model wants row-major over (time, band)
            if lead and trail:
                nb, nt = sum(trail), sum(lead)
                order = [b * nt + t for t in range(nt) for b in range(nb)]
                src_pl, out_pl = src_pl[order], out_pl[order]
            line = " ".join(["c13 nd", "1" if lead else "0", tabs or "-", "/".join(img_s(p_) for p_ in src_pl),
                             common_line(case, S, kind, lo, sn_m, dn_m, deps_s(deps), np.zeros((0, 0)))])
            got = "/".join(img_s(p_) for p_ in out_pl)
            R.corr(line, lambda got=got: got, sig=f"nd|ydim={'1' if lead else '0'}|axes={int(bool(lead)) + int(bool(trail))}|{kind}")


# ------------------------------------------------------------------ nodata the dtype cannot hold
UNREP = {"uint8": [-1, -9999, 256, 300, -0.5], "int8": [-129, -200, 128, 200], "int16": [-32769, 70000], "uint16": [-1, 65536],
         "int32": [2**31, -(2**31) - 1], "float16": [70000.0, -1e6], "float32": [1e40, -1e39]}


def gen_unrep(rng, i):
    dtype = list(UNREP)[i % len(UNREP)]
    nd = rng.choice(UNREP[dtype])
    where = ["attr", "src", "dst", "attr+dst-ok", "src+dst-ok"][(i // len(UNREP)) % 5]
    case = gen_case(rng, small=True)
    if i % 2 == 0:
        # disjoint rasters: every destination chunk is a constant block
        a, b, c, d, e, f = case["A"]
        case = _w(case["sh"], case["sw"], case["dh"], case["dw"], (a, b, c + 1000, d, e, f), case["sy"], case["sx"], case["cy"], case["cx"])
    base = [[rng.choice([0, 1, 2, 3, 4]) for _ in range(case["sw"])] for _ in range(case["sh"])]
    return {"kind": "unrep", "case": case_json(case), "dtype": dtype, "nd": nd, "where": where, "base": base,
            "sched": rng.choice(SCHEDS), "sseed": rng.randrange(10**6)}


def unrep_one(R: Run, ns, cj):
    """a nodata value that the raster's dtype cannot represent (out of the integer range, beyond the largest float):
    numpy-backed and dask-backed calls either both refuse, or both answer with the same pixels — overlapping or disjoint"""
    case, dtype, nd, where = case_from_json(cj["case"]), cj["dtype"], cj["nd"], cj["where"]
    data = np.asarray(cj["base"]).astype(dtype)
    attr = nd if where.startswith("attr") else None
    kw = {"src_nodata": nd} if where.startswith("src") else {}
    dn = nd if where == "dst" else (0 if where.endswith("dst-ok") else None)
    sg, dg, _ = geoboxes(ns, case)
    sig = f"unrep|{dtype}|{where}|" + ("disjoint" if unreached_exact(case).all() else "overlap")
    res, errs = {}, {}
    for path in ("whole", "chunked"):
        try:
            if path == "whole":
                res[path] = ns.xr_reproject(ns.wrap_xr(data, sg, nodata=attr), dg, dst_nodata=dn, **kw).values
            else:
                lz = ns.xr_reproject(ns.wrap_xr(ns.da.from_array(data, chunks=(case["sy"], case["sx"])), sg, nodata=attr), dg,
                                     dst_nodata=dn, chunks=(case["cy"], case["cx"]), **kw)
                res[path] = compute(ns, lz.data, cj["sched"], cj["sseed"])
        except Exception as e:  # pylint: disable=broad-except
            errs[path] = f"{type(e).__name__}: {str(e)[:100]}"
    if len(errs) == 2:
        R.oracle(True, "unrepresentable-nodata-one-path-refuses", cj, "", sig=sig + "|both-refuse")
        return True
    if errs:
        got = {k: (f"answers, fill {np.unique(v).tolist()[:4]}") for k, v in res.items()}
        R.oracle(False, "unrepresentable-nodata-one-path-refuses", cj,
                 f"{dtype} raster, nodata {nd!r} ({where}), destination {'disjoint from' if unreached_exact(case).all() else 'overlapping'} "
                 f"the source: {errs} but {got}", sig=sig)
        return False
    ok = same(res["whole"], res["chunked"])
    R.oracle(ok, "chunked-differs-from-whole", cj, f"{dtype}, nodata {nd!r} ({where}): both answer, with different pixels" if not ok else "",
             sig=sig + "|both-answer")
    return ok


def unrepresentable_nodata(R: Run, ns, rng, n):
    for i in range(n):
        unrep_one(R, ns, gen_unrep(rng, i))


# ------------------------------------------------------------------ every dtype x the nodata option matrix, public entry
ALL_DTYPES = ["bool", "int8", "uint8", "int16", "uint16", "int32", "uint32", "int64", "uint64", "float16", "float32", "float64",
              "complex64", "complex128"]
ND_MODES = ["none", "attr", "src", "dst", "attr+dst", "src+dst", "attr+src", "attr+src+dst"]


def nd_scalar(rng, v, dtype):
    """the same nodata value as a Python int / Python float / numpy scalar of the raster's dtype / numpy float64"""
    form = rng.choice(["int", "float", "np-dtype", "np-f8"])
    if form == "int":
        return int(v), form
    if form == "float":
        return float(v), form
    if form == "np-dtype":
        return np.dtype(dtype).type(v), form
    return np.float64(v), form


def gen_matrix(rng, i):
    dtype = ALL_DTYPES[i % len(ALL_DTYPES)]
    mode = ND_MODES[(i // len(ALL_DTYPES)) % len(ND_MODES)]
    case = gen_case(rng, rotated=(i % 4 == 3), small=True)
    if i % 2 == 0:
        case["cy"], case["cx"] = rng.randint(1, 3), rng.randint(1, 3)  # chunks without any source next to partial ones
    # (zero is a nodata value like any other: falsy values must not be mistaken for "not given")
    a, b, c = rng.choice([(1, 1, 1), (0, 1, 0), (1, 0, 1)]) if dtype == "bool" else rng.sample([0, 3, 5, 7], 3)
    attr = nd_scalar(rng, a, dtype) if "attr" in mode else (None, "-")
    kw_sn = nd_scalar(rng, b if "attr" in mode else a, dtype) if "src" in mode else (None, "-")
    dn = nd_scalar(rng, rng.choice([c, a]), dtype) if "dst" in mode else (None, "-")
    base = np.array([[rng.choice([0, 1, 2, 3, 4, 5, 6, 7, 9]) for _ in range(case["sw"])] for _ in range(case["sh"])])
    lead = list(axis_chunks(rng, rng.randint(1, 3))) if rng.random() < 0.25 else None
    return {"kind": "matrix", "case": case_json(case), "dtype": dtype, "mode": mode, "base": base.tolist(), "lead": lead,
            "attr": [None if attr[0] is None else float(np.real(attr[0])), attr[1]],
            "src_nd": [None if kw_sn[0] is None else float(np.real(kw_sn[0])), kw_sn[1]],
            "dst_nd": [None if dn[0] is None else float(np.real(dn[0])), dn[1]],
            "sched": rng.choice(SCHEDS), "sseed": rng.randrange(10**6)}


def _scalar_from(v, form, dtype):
    if v is None:
        return None
    return {"int": int, "float": float, "np-dtype": np.dtype(dtype).type, "np-f8": np.float64}[form](v)


def matrix_one(R: Run, ns, cj):
    """public xr_reproject, numpy-backed versus dask-backed, over dtype x (nodata attribute / src_nodata= / dst_nodata= given
    or not) x scalar type of the nodata: both refuse loudly, or both give the same pixels and every unreached pixel holds
    the fill of the property statement"""
    case, dtype = case_from_json(cj["case"]), cj["dtype"]
    attr, kw_sn, dn = (_scalar_from(cj[k][0], cj[k][1], dtype) for k in ("attr", "src_nd", "dst_nd"))
    base = np.asarray(cj["base"])
    lead = cj.get("lead")
    nt = sum(lead) if lead else 1
    planes = [((base + t) % 10) for t in range(nt)]
    if np.dtype(dtype).kind == "c":
        planes = [pl + 1j * ((pl * 3) % 4) * (pl != 3) for pl in planes]  # nodata candidates stay purely real
    data = np.stack(planes).astype(dtype) if lead else planes[0].astype(dtype)
    sig = f"matrix|{dtype}|{cj['mode']}"
    sg, dg, _ = geoboxes(ns, case)
    kw = {} if kw_sn is None else {"src_nodata": kw_sn}
    ax = 1 if lead else 0
    chunks = ((tuple(lead),) if lead else ()) + (case["sy"], case["sx"])
    res, errs = {}, {}
    for path in ("whole", "chunked"):
        try:
            if path == "whole":
                res[path] = ns.xr_reproject(ns.wrap_xr(data, sg, nodata=attr, axis=ax), dg, dst_nodata=dn, **kw).values
            else:
                lz = ns.xr_reproject(ns.wrap_xr(ns.da.from_array(data, chunks=chunks), sg, nodata=attr, axis=ax), dg, dst_nodata=dn,
                                     chunks=(case["cy"], case["cx"]), **kw)
                res[path] = compute(ns, lz.data, cj["sched"], cj["sseed"])
        except Exception as e:  # pylint: disable=broad-except
            errs[path] = f"{type(e).__name__}: {str(e)[:120]}"
    if len(errs) == 2:
        R.oracle(True, "dtype-refused-by-one-path-only", cj, "", sig=sig + "|both-refuse", trivial=True)
        return True
    if errs:
        R.oracle(False, "dtype-refused-by-one-path-only", cj,
                 f"{dtype}, nodata attr={attr!r} src_nodata={kw_sn!r} dst_nodata={dn!r}: one back-end refuses, the other answers: {errs}", sig=sig)
        return False
    whole, chunked = res["whole"], res["chunked"]
    ok = whole.shape == chunked.shape and whole.dtype == chunked.dtype == np.dtype(dtype) and same(whole, chunked)
    what = ""
    if not ok:
        if whole.shape == chunked.shape:
            diff = ~((whole == chunked) | ((whole != whole) & (chunked != chunked)))
            p = tuple(int(i) for i in np.argwhere(diff)[0]) if diff.any() else None
            what = (f"{dtype}, nodata attr={attr!r} src_nodata={kw_sn!r} dst_nodata={dn!r}: dask-backed differs from numpy-backed at "
                    f"{int(diff.sum())} pixels, first {p}: chunked={chunked[p] if p else None} whole={whole[p] if p else None}; dtypes "
                    f"{chunked.dtype}/{whole.dtype}")
        else:
            what = f"shapes differ: {chunked.shape} vs {whole.shape}"
    key = "chunked-differs-from-whole"
    if not ok and whole.shape == chunked.shape and not (diff & ~edge_zero(case)[None if lead else ...]).any():
        key = "chunked-differs-from-whole:centre-exactly-on-source-edge"
    R.oracle(ok, key, cj, what, sig=sig)
    # the fill of the statement: destination nodata, else source nodata (keyword, else attribute), else NaN for floating
    # point data and zero otherwise
    eff_s = kw_sn if kw_sn is not None else attr
    eff_d = dn if dn is not None else eff_s
    fv = spec_fill(dtype, eff_s, eff_d)
    un = unreached_exact(case)
    okf = True
    for name, arr in (("chunked", chunked), ("whole", whole)):
        for pl in planes_of(arr, lead, None):
            vals = pl[un]
            good = (vals != vals) if (np.dtype(dtype).kind == "f" and fv != fv) else (vals == fv)
            if not bool(np.all(good)):
                okf = False
                R.oracle(False, "unreached-pixel-not-fill" if name == "chunked" else "unreached-pixel-not-fill-whole", cj,
                         f"{name} result ({dtype}, nodata attr={attr!r} src_nodata={kw_sn!r} dst_nodata={dn!r}): an unreached pixel holds "
                         f"{vals[int(np.argmin(good))]!r}, the statement's fill is {fv!r}", sig=sig + "|fill")
                break
    if okf:
        R.oracle(True, "unreached-pixel-not-fill", cj, "", sig=sig + "|fill", trivial=not un.any())
    return ok and okf


def dtype_matrix(R: Run, ns, rng, n):
    for i in range(n):
        matrix_one(R, ns, gen_matrix(rng, i))


# ------------------------------------------------------------------ glue between the public entry points and the core
INT_RANGES = {"uint8": (0, 255), "int8": (-128, 127), "int16": (-32768, 32767), "uint16": (0, 65535), "int32": (-(2**31), 2**31 - 1)}


def raw_s(v) -> str:
    """a nodata value as the caller passes it: N / n (NaN) / exact rational of the Python number"""
    if v is None:
        return "N"
    if isinstance(v, float) and math.isnan(v):
        return "n"
    return frac_s(F(v))


def rejected_arg(arg, dh, dw) -> bool:
    """a `chunks=` argument the code rejects with ValueError or IndexError (which of the two depends on the tile count
    and on the path of grid_intersect): negative tile size, variable chunks that do not add up / are empty"""
    if arg is None:
        return False
    if isinstance(arg[0], (tuple, list)):
        return len(arg[0]) == 0 or len(arg[1]) == 0 or sum(arg[0]) != dh or sum(arg[1]) != dw
    return 0 not in arg and min(arg) < 0


def guard_bad(arg, dh, dw, fn):
    """the model has one error kind for the rejected forms"""
    def g():
        if not rejected_arg(arg, dh, dw):
            return fn()
        try:
            return fn()
        except (ValueError, IndexError):
            return "ERR:ValueError|IndexError"
    return g


def chunk_arg_s(arg) -> str:
    if arg is None:
        return "N"
    if isinstance(arg[0], (tuple, list)):
        return "v:" + list_s(arg[0]) + ":" + list_s(arg[1])
    return f"p:{int(arg[0])}:{int(arg[1])}"


def spans_s(chunks) -> str:
    o = np.cumsum((0,) + tuple(int(c) for c in chunks))
    return list_s([f"{a}:{b}" for a, b in zip(o[:-1], o[1:])])


def gen_chunk_arg(rng, dh, dw, sy, sx, bad=0.0):
    """a `chunks=` argument: None, (ny, nx), tuple of tuples (zero-length chunks included); with probability `bad`
    one that the code must reject (zero / negative tile size, chunks that do not add up)"""
    r = rng.random()
    if r < bad:
        k = rng.random()
        if k < 0.3:
            return rng.choice([(0, rng.randint(-1, 3)), (rng.randint(-1, 3), 0), (0, 0)])
        if k < 0.6:
            return rng.choice([(-rng.randint(1, 3), rng.randint(1, 3)), (rng.randint(1, 3), -rng.randint(1, 3)), (-1, -2)])
        ys, xs = list(compositions(rng, dh)), list(compositions(rng, dw))
        which = rng.choice(["y", "x", "both"])
        if which in ("y", "both"):
            ys = ys + [rng.randint(1, 2)] if rng.random() < 0.5 or len(ys) == 1 else ys[:-1]
        if which in ("x", "both"):
            xs = xs + [rng.randint(1, 2)] if rng.random() < 0.5 or len(xs) == 1 else xs[:-1]
        return (tuple(ys), tuple(xs))
    r = rng.random()
    if r < 0.25:
        return None
    if r < 0.6:
        return (rng.randint(1, dh + 2), rng.randint(1, dw + 2))

    def with_zeros(c):
        c = list(c)
        if rng.random() < 0.3:
            c.insert(rng.randrange(len(c) + 1), 0)
        return tuple(c)

    return (with_zeros(compositions(rng, dh)), with_zeros(compositions(rng, dw)))


def glue_small(R: Run, ns, rng):
    """conversions and argument normalisers one by one (Model/C13Glue): resolve_fill_value on raw nodata, what the warp
    leaves in an unreached pixel, which pixels a fractional nodata masks, the chunks= argument, the declared array,
    is_resampling_nn, rio_reproject's ydim default"""
    sg1 = ns.GeoBox((1, 1), ns.Affine(1, 0, 0, 0, -1, 1), CRS)
    dg1 = ns.GeoBox((1, 1), ns.Affine(1, 0, 100, 0, -1, 1), CRS)
    for dtype, (lo, hi) in INT_RANGES.items():
        vals = [None, 0, 3, 2.5, 3.5, 2.25, 2.75, 0.5, float("nan"), hi, hi + 0.4, hi + 0.5, hi + 1, lo, lo - 0.4, lo - 0.5, lo - 1,
                -0.5, -0.25, -1.5, -2.5, 1e10, 3.0, rng.randint(lo, hi) + rng.choice([0.5, 0.25, 0.75])]
        pairs = [(v, None) for v in vals] + [(None, v) for v in vals] + [(rng.choice(vals), rng.choice(vals)) for _ in range(12)]
        for dn, sn in pairs:
            def f_fill(dn=dn, sn=sn, dtype=dtype):
                if ns.resolve_fill is None:
                    raise Skip("odc.geo._dask.resolve_fill_value not found: its conversion is only seen through the constant chunks")
                return str(int(ns.resolve_fill(dn, sn, dtype)))

            frac = any(is_fractional(dtype, v) for v in (dn, sn))
            corr_skip(R, f"c13 fillraw T {lo} {hi} {raw_s(dn)} {raw_s(sn)}", f_fill, sig=f"fillraw|{dtype}|{'frac' if frac else 'int'}")
            if dtype == "int8":
                continue  # warped as int16 and copied back with casting="unsafe" (wrap-around not modelled)

            def f_whole(dn=dn, sn=sn, dtype=dtype):
                dst = np.full((1, 1), 77, dtype=dtype)
                rio_plane(ns, np.ones((1, 1), dtype=dtype), dst, sg1, dg1, "nearest", sn, dn)
                return str(int(dst[0, 0]))

            R.corr(f"c13 wholefill {lo} {hi} {raw_s(dn)} {raw_s(sn)}", f_whole, sig=f"wholefill|{dtype}|{'frac' if frac else 'int'}")
    sg3 = ns.GeoBox((1, 3), ns.Affine(1, 0, 0, 0, -1, 1), CRS)
    for dtype in ("uint8", "int16", "int32"):
        for p in (2, 7):
            for q in (p, p + 0.5, p - 0.25, p + 1, None):
                def f_mask(p=p, q=q, dtype=dtype):
                    dst = np.full((1, 3), 77, dtype=dtype)
                    rio_plane(ns, np.array([[p - 1, p, p + 1]], dtype=dtype), dst, sg3, sg3, "nearest", q, 99)
                    return "T" if dst[0, 1] == 99 else "F"

                R.corr(f"c13 masks {raw_s(q)} {p}", f_mask, sig="masks|" + ("frac" if is_fractional(dtype, q) else "int"))
    # the chunks= argument through the public entry point
    for i in range(R.pick(60, 900)):
        sh, sw, dh, dw = (rng.randint(1, 6) for _ in range(4))
        sy, sx = compositions(rng, sh), compositions(rng, sw)
        arg = gen_chunk_arg(rng, dh, dw, sy, sx, bad=0.35)
        sg = ns.GeoBox((sh, sw), ns.Affine(1, 0, 0, 0, -1, sh), CRS)
        dg = ns.GeoBox((dh, dw), ns.Affine(1, 0, rng.randint(-2, 2), 0, -1, sh + rng.randint(-2, 2)), CRS)

        def f_chunks(sg=sg, dg=dg, sy=sy, sx=sx, arg=arg, sh=sh, sw=sw):
            xd = ns.wrap_xr(ns.da.zeros((sh, sw), chunks=(sy, sx), dtype="int16"), sg)
            lz = ns.xr_reproject(xd, dg, **({} if arg is None else {"chunks": arg}))
            cy, cx = lz.data.chunks
            return spans_s(cy) + " " + spans_s(cx)

        form = "none" if arg is None else ("var" if isinstance(arg[0], tuple) else "pair")
        corr_skip(R, f"c13 chunks {dh} {dw} {list_s(sy)} {list_s(sx)} {chunk_arg_s(arg)}", guard_bad(arg, dh, dw, f_chunks), sig=f"chunks|{form}")
    # what _dask_rio_reproject declares: shape / chunks / numblocks with the spatial axes at ydim
    for i in range(R.pick(30, 400)):
        ydim, ntrail = rng.randint(0, 2), rng.randint(0, 1)
        sh, sw, dh, dw = (rng.randint(1, 5) for _ in range(4))
        axes = [axis_chunks(rng, rng.randint(1, 3)) for _ in range(ydim)] + [compositions(rng, sh), compositions(rng, sw)] + [
            axis_chunks(rng, rng.randint(1, 3)) for _ in range(ntrail)]
        arg = gen_chunk_arg(rng, dh, dw, axes[ydim], axes[ydim + 1], bad=0.15)
        sg = ns.GeoBox((sh, sw), ns.Affine(1, 0, 0, 0, -1, sh), CRS)
        dg = ns.GeoBox((dh, dw), ns.Affine(1, 0, 1, 0, -1, sh), CRS)

        def f_decl(axes=axes, ydim=ydim, sg=sg, dg=dg, arg=arg):
            arr = ns.da.zeros(tuple(sum(a) for a in axes), chunks=tuple(axes), dtype="uint8")
            lz = dask_reproject(ns, arr, sg, dg, "nearest", None, None, ydim=ydim, chunks=arg)
            return (list_s(lz.shape) + " " + "/".join(list_s(c) for c in lz.chunks) + " " + list_s(lz.numblocks))

        corr_skip(R, f"c13 declared {ydim} {'/'.join(list_s(a) for a in axes)} {dh} {dw} {chunk_arg_s(arg)}", guard_bad(arg, dh, dw, f_decl),
               sig=f"declared|ydim={ydim}|trail={ntrail}")
    for name in RESAMPLINGS + ["Nearest", "NEAREST", "nearest ", "near", "NeArEsT", "Bilinear"]:
        tok = name if name.strip() == name else "BAD"
        if tok == "BAD":
            continue
        R.corr(f"c13 isnn {tok}", lambda name=name: "T" if ns.W.is_resampling_nn(name) else "F",
               sig="isnn|" + ("nn" if name.lower() == "nearest" else "other"))
    for ndim in (2, 3, 4):
        for ydim in [None] + list(range(ndim - 1)):
            def f_ydim(ndim=ndim, ydim=ydim):
                shape = [2] * ndim
                eff = ndim - 2 if ydim is None else ydim
                shape[eff], shape[eff + 1] = 3, 5
                with WarpSpy(ns) as spy:
                    ns.W.rio_reproject(np.zeros(shape, dtype="uint8"), np.zeros(shape, dtype="uint8"),
                                       ns.GeoBox((3, 5), ns.Affine(1, 0, 0, 0, -1, 3), CRS), ns.GeoBox((3, 5), ns.Affine(1, 0, 0, 0, -1, 3), CRS),
                                       "nearest", ydim=ydim)
                seen = [tuple(c["shape"]) for c in spy.calls]
                if not seen:
                    raise Skip("no call of rasterio.warp.reproject observed: which axes rio_reproject warps is not observable")
                assert set(seen) == {(3, 5)} and len(seen) == 2 ** (ndim - 2), seen
                return str(eff)

            corr_skip(R, f"c13 rioydim {ndim} {opt_s(ydim)}", f_ydim, sig="rioydim|" + ("default" if ydim is None else "given"))


def gdal_kw_s(rec, known):
    """canonical text of what one rasterio.warp.reproject call received: resampling, nodata pair and those extra keywords the
    model knows about (the caller's extras and XSCALE / YSCALE, in the order given); any other keyword is recorded as a note —
    whether chunk tasks and the in-memory call receive the SAME keywords is judged by the forwarding oracle"""
    fixed = ("src_transform", "dst_transform", "gcps", "src_crs", "dst_crs", "resampling", "src_nodata", "dst_nodata", "dtype", "shape")
    r = rec.get("resampling")
    for k in rec:
        if k not in fixed and k not in known:
            note_once(f"keyword {k}={rec[k]!r} reaches rasterio.warp.reproject besides the caller's (not in the model)")
    return (f"resampling={str(getattr(r, 'name', r)).lower()};src_nodata={val_s(rec.get('src_nodata'))};dst_nodata={val_s(rec.get('dst_nodata'))};"
            + ",".join(f"{k}={v}" for k, v in rec.items() if k in known))


def glue_kw(R: Run, ns, rng):
    """the keywords that actually reach rasterio.warp.reproject (spy) from the chunk tasks and from the in-memory call versus
    the model (chunkTaskKw / wholeKw + the XSCALE/YSCALE injection of _rio_reproject)"""
    sg = ns.GeoBox((4, 6), ns.Affine(1, 0, 0, 0, -1, 4), CRS)
    dg = ns.GeoBox((5, 5), ns.Affine(1, 0, 1, 0, -1, 5), CRS)
    data = (np.arange(24).reshape(4, 6) % 5 + 1).astype("int16")
    for r in ["nearest", "Bilinear", "CUBIC", "mode", "average", "foo"]:
        for extras in ({}, {"num_threads": 2}, {"XSCALE": 2}, {"YSCALE": 3, "num_threads": 1}, {"XSCALE": 1, "YSCALE": 1},
                       {"init_dest_nodata": True, "warp_mem_limit": 16}):
            sn, dn = rng.choice([None, 7, 0]), rng.choice([None, -1, 7])
            ex = ",".join(f"{k}={v}" for k, v in extras.items()) or "-"

            def f(path, r=r, sn=sn, dn=dn, extras=extras):
                with WarpSpy(ns) as spy:
                    if path == "chunk":
                        dask_reproject(ns, ns.da.from_array(data, chunks=(2, 3)), sg, dg, r, sn, dn, ydim=0, chunks=(3, 2),
                                       **dict(extras)).compute(scheduler="synchronous")
                    else:
                        ns.W.rio_reproject(data, np.zeros((5, 5), dtype="int16"), sg, dg, r, sn, dn, ydim=0, **dict(extras))
                kws = {gdal_kw_s(c, set(extras) | {"XSCALE", "YSCALE"}) for c in spy.calls}
                if not kws:
                    raise Skip("no call of rasterio.warp.reproject observed: keywords reaching GDAL are not observable")
                return kws.pop() if len(kws) == 1 else f"INCONSISTENT:{sorted(kws)}"

            for path in ("chunk", "whole"):
                corr_skip(R, f"c13 gdalkw {path} {r} {val_s(sn)} {val_s(dn)} 0 {ex}", lambda path=path, f=f: f(path),
                       sig=f"gdalkw|{path}|" + ("ok" if r.lower() in RESAMPLINGS else "bad-name") + ("|scale-given" if any(k.endswith("SCALE") for k in extras) else ""))


def glue_xr_entry(R: Run, ns, rng, n, dts):
    """the public entry point with every argument form, model == real in both back-ends and dask == numpy: nodata attribute x
    src_nodata= x dst_nodata= x chunks= (None / pair / tuple of tuples with zero-length chunks / rejected forms)"""
    for i in range(n):
        case = gen_case(rng, rotated=(i % 5 == 4), small=(i % 2 == 0))
        dtype = dts[i % len(dts)]
        kind, lo = DTYPES[dtype]
        isf, isb = dtype.startswith("float"), dtype == "bool"
        nds = [None, 0, 1] if isb else ([None, 3, float("nan"), -9999] if isf else [None, 0, 3, 5])
        attr = rng.choice(nds)
        kw_sn = rng.choice([None, None] + nds[1:])
        eff = kw_sn if kw_sn is not None else attr
        # (floats: a destination nodata that is not the source nodata makes GDAL move colliding values by one ulp)
        dn = rng.choice([None, None, eff] + ([] if isf else nds[1:]))
        arg = gen_chunk_arg(rng, case["dh"], case["dw"], case["sy"], case["sx"], bad=0.12)
        data = gen_data(rng, (case["sh"], case["sw"]), dtype, (eff, dn))
        if rng.random() < 0.15:
            # zero-length source chunks (dask arrays get them from slicing / filtering)
            case = dict(case)
            for k_ in ("sy", "sx"):
                c_ = list(case[k_])
                c_.insert(rng.randrange(len(c_) + 1), 0)
                case[k_] = tuple(c_)
        sg, dg, S = geoboxes(ns, case)
        form = "none" if arg is None else ("var" if isinstance(arg[0], tuple) else "pair")
        sig = f"xr-entry|{kind}|chunks={form}|nd={'a' if attr is not None else '-'}{'s' if kw_sn is not None else '-'}{'d' if dn is not None else '-'}"
        kw = {} if kw_sn is None else {"src_nodata": kw_sn}
        kwc = dict(kw) if arg is None else dict(kw, chunks=arg)
        out = {}

        def f_dask(out=out, kwc=kwc, data=data, case=case, sg=sg, dg=dg, attr=attr, dn=dn):
            xd = ns.wrap_xr(ns.da.from_array(data, chunks=(case["sy"], case["sx"])), sg, nodata=attr)
            lz = ns.xr_reproject(xd, dg, dst_nodata=dn, **kwc)
            out["attrs"], out["dims"], out["dtype"] = dict(lz.attrs), lz.dims, lz.dtype
            out["chunked"] = lz.data.compute(scheduler="synchronous")
            return img_s(out["chunked"])

        def f_numpy(out=out, kwc=kwc, data=data, sg=sg, dg=dg, attr=attr, dn=dn):
            xn = ns.wrap_xr(data, sg, nodata=attr)
            res = ns.xr_reproject(xn, dg, dst_nodata=dn, **kwc)  # `chunks=` is passed here too: it must not matter
            out["attrs_n"], out["dims_n"], out["dtype_n"] = dict(res.attrs), res.dims, res.dtype
            out["whole"] = res.values
            return img_s(out["whole"])

        # the dependency table the real code derives for the tilings of this argument form
        try:
            how = arg if arg is not None else (max(case["sy"]), max(case["sx"]))
            deps = ns.GeoboxTiles(dg, how).grid_intersect(ns.GeoboxTiles(sg, (case["sy"], case["sx"])))
        except Exception:  # pylint: disable=broad-except
            deps = {}
        c2 = dict(case, cy=1, cx=1)
        line = common_line(c2, S, kind, lo, cast_nd(kw_sn, dtype), cast_nd(dn, dtype), deps_s(deps), data)
        corr_skip(R, f"c13 xr dask {val_s(cast_nd(attr, dtype))} {chunk_arg_s(arg)} " + line, guard_bad(arg, case["dh"], case["dw"], f_dask), sig=sig)
        R.corr(f"c13 xr numpy {val_s(cast_nd(attr, dtype))} {chunk_arg_s(arg)} " + line, f_numpy, sig=sig.replace("xr-entry", "xr-entry-numpy"))
        cj = case_json(case, dtype=dtype, data=data_json(data, dtype), attr_nd=nd_json(attr), kw_src_nd=nd_json(kw_sn), dst_nd=nd_json(dn),
                       chunks=arg, kind="entry")
        if ("chunked" in out) != ("whole" in out) and not rejected_arg(arg, case["dh"], case["dw"]) and not (
                arg is not None and not isinstance(arg[0], tuple) and 0 in arg) and not (
                arg is not None and isinstance(arg[0], tuple) and (0 in arg[0] or 0 in arg[1])):
            R.oracle(False, "reproject-raises", cj, f"xr_reproject(chunks={arg}, src_nodata={kw_sn}, dst_nodata={dn}, nodata attr {attr}), source "
                     f"chunks {case['sy']} x {case['sx']}: the {'dask' if 'whole' in out else 'numpy'}-backed call raises, the other one answers",
                     sig=sig + "|one-raises")
        if "chunked" in out and "whole" in out:
            ok = same(out["chunked"], out["whole"])
            key = "chunked-differs-from-whole"
            if not ok and not ((out["chunked"] != out["whole"]) & ~edge_zero(case)).any():
                key = "chunked-differs-from-whole:centre-exactly-on-source-edge"
            R.oracle(ok, key, cj, f"xr_reproject(chunks={arg}, src_nodata={kw_sn}, dst_nodata={dn}, nodata attr {attr}): dask-backed "
                     "differs from numpy-backed" if not ok else "", sig=sig + "|eq")
            okm = (out["attrs"] == out["attrs_n"] or (str(out["attrs"]) == str(out["attrs_n"]))) and out["dims"] == out["dims_n"] \
                and out["dtype"] == out["dtype_n"]
            R.oracle(okm, "entry-metadata-differs", cj, f"dask-backed result has attrs {out['attrs']} dims {out['dims']} dtype {out['dtype']}, "
                     f"numpy-backed {out['attrs_n']} {out['dims_n']} {out['dtype_n']}" if not okm else "", sig="xr-entry|metadata", trivial=True)


def glue_unrep_pins(R: Run, ns, rng):
    """conversion of the caller's nodata through the PUBLIC entry point, pixel of a chunk without sources (dask) and of the
    in-memory result, on 1x1 disjoint rasters: integer types incl. the int8 -> int16 -> int8 detour and values the type cannot
    hold (both back-ends must refuse alike: fix3-C13), float / complex types (round to nearest even to the type's precision)"""
    sg1 = ns.GeoBox((1, 1), ns.Affine(1, 0, 0, 0, -1, 1), CRS)
    dg1 = ns.GeoBox((1, 1), ns.Affine(1, 0, 100, 0, -1, 1), CRS)

    def real(path, dtype, attr, kw_sn, dn):
        data = np.ones((1, 1), dtype=dtype)
        x = ns.wrap_xr(data if path == "whole" else ns.da.from_array(data, chunks=(1, 1)), sg1, nodata=attr)
        r = ns.xr_reproject(x, dg1, dst_nodata=dn, **({} if kw_sn is None else {"src_nodata": kw_sn}))
        return (r.values if path == "whole" else r.data.compute(scheduler="synchronous"))[0, 0]

    for dtype, (lo, hi) in INT_RANGES.items():
        wlo, whi = (-32768, 32767) if dtype == "int8" else (lo, hi)
        vals = [0, 3, 2.5, lo, hi, lo - 1, hi + 1, lo - 0.4, hi + 0.4, -200, 200, 70000, float("nan"), -0.5]
        picks = vals if not R.quick else rng.sample(vals, 6) + [lo - 1, hi + 1]
        for v in picks:
            attr, kw_sn, dn = rng.choice([(v, None, None), (None, v, None), (None, None, v), (v, None, 0), (3, v, None), (3, None, v)])
            for path in ("dask", "whole"):
                R.corr(f"c13 xrfill {path} T {lo} {hi} {wlo} {whi} {raw_s(attr)} {raw_s(kw_sn)} {raw_s(dn)}",
                       lambda path=path, dtype=dtype, attr=attr, kw_sn=kw_sn, dn=dn: str(int(real(path, dtype, attr, kw_sn, dn))),
                       sig=f"xrfill|{path}|{dtype}|" + ("out" if not (isinstance(v, float) and math.isnan(v)) and not lo <= v <= hi else "in"))
    for dtype, prec in (("float16", 11), ("float32", 24), ("float64", 53), ("complex64", 24), ("complex128", 53)):
        vals = [0.1, 1 / 3, 2.5, -0.1, 3, 1e-3, 1000.1, float("nan")] + ([16777217, 1e10 + 1] if prec >= 24 else [2049, 65504])
        for v in (vals if not R.quick else rng.sample(vals, 4)):
            for path in ("dask", "whole"):
                def f(path=path, dtype=dtype, v=v):
                    out = complex(real(path, dtype, v, None, None)).real
                    return "n" if math.isnan(out) else frac_s(F(out))

                R.corr(f"c13 fillfloat {prec} {raw_s(v)}", f, sig=f"fillfloat|{path}|{dtype}")


def passthrough_kwargs(R: Run, ns, rng):
    """keywords of xr_reproject that are not warp options: both back-ends must treat them alike (known finding: `dtype=` and
    `axis=` are consumed by the dask task only)"""
    sg = ns.GeoBox((4, 6), ns.Affine(1, 0, 0, 0, -1, 4), CRS)
    dg = ns.GeoBox((5, 7), ns.Affine(1, 0, -1, 0, -1, 5), CRS)
    data = (np.arange(24).reshape(4, 6) % 5 + 1).astype("int16")
    for kw in ({"dtype": "float32"}, {"axis": 1}, {"casting": "unsafe"}, {"num_threads": 2}, {"name": "abc"}):
        out = {}
        for path in ("whole", "chunked"):
            try:
                x = ns.wrap_xr(data if path == "whole" else ns.da.from_array(data, chunks=((1, 3), (2, 4))), sg, nodata=-1)
                r = ns.xr_reproject(x, dg, **kw)
                v = r.values if path == "whole" else r.data.compute(scheduler="synchronous")
                out[path] = (str(v.dtype), str(r.dtype), v.tolist())
            except Exception as e:  # pylint: disable=broad-except
                out[path] = f"{type(e).__name__}"
        ok = out["whole"] == out["chunked"] or (isinstance(out["whole"], str) and isinstance(out["chunked"], str))
        R.oracle(ok, "entry-passthrough-kwarg-differs", {"kind": "passthrough", "kw": {k: str(v) for k, v in kw.items()}},
                 f"xr_reproject(..., **{kw}): numpy-backed -> {out['whole'] if isinstance(out['whole'], str) else out['whole'][:2]}, "
                 f"dask-backed -> {out['chunked'] if isinstance(out['chunked'], str) else out['chunked'][:2]} (computed dtype, declared dtype)"
                 if not ok else "", sig="passthrough|" + next(iter(kw)))


# ------------------------------------------------------------------ final increment: rotated deps, HEAD error class, IEEE range, Dataset
IEEE = {"float16": (11, -14, 15), "float32": (24, -126, 127), "float64": (53, -1022, 1023)}


def final_glue(R: Run, ns, rng):
    """(a) the dependency table of the same-CRS GENERAL path (rotated / sheared grids) against the C12Gi model that
    xr_entry_same_crs_general is stated over; (b) the exact exception class for chunk tuples that do not add up (HEAD: ValueError
    from GeoboxTiles); (c) float conversion incl. subnormals and overflow to inf; (d) xr_reproject(Dataset) = the DataArray call
    variable by variable, plain variables passed through"""
    import warnings

    import xarray as xr

    # (a)
    n = 0
    for _ in range(R.pick(60, 600)):
        if n >= R.pick(24, 300):
            break
        case = gen_case(rng, rotated=True, small=True)
        sg, dg, S = geoboxes(ns, case)
        arg = rng.choice([(case["cy"], case["cx"]), (compositions(rng, case["dh"]), compositions(rng, case["dw"])), None])
        how = arg if arg is not None else (max(case["sy"]), max(case["sx"]))
        gs, gd = ns.GeoboxTiles(sg, (case["sy"], case["sx"])), ns.GeoboxTiles(dg, how)
        chk = getattr(gd, "_check_linear", None)
        try:
            general = chk is not None and chk(gs) is None
        except TypeError:
            general = False
        if not general:
            if chk is None:
                note_once("GeoboxTiles._check_linear not found: the general-path dependency stream (gideps) is skipped")
                break
            continue
        n += 1
        R.corr("c13 gideps " + " ".join([";".join(frac_s(v) for v in S), ";".join(frac_s(v) for v in case["D"]), str(case["sh"]),
                                         str(case["sw"]), str(case["dh"]), str(case["dw"]), list_s(case["sy"]), list_s(case["sx"]),
                                         chunk_arg_s(arg)]),
               lambda gd=gd, gs=gs: deps_s(gd.grid_intersect(gs)), sig=f"gideps|{case.get('fam')}|" + ("none" if arg is None else
                                                                                                       "var" if isinstance(arg[0], tuple) else "pair"))
    # (b)
    for i in range(R.pick(24, 300)):
        sh, sw, dh, dw = (rng.randint(1, 6) for _ in range(4))
        sy, sx = compositions(rng, sh), compositions(rng, sw)
        arg = gen_chunk_arg(rng, dh, dw, sy, sx, bad=0.0)
        if arg is None or not isinstance(arg[0], tuple) or rng.random() < 0.7:
            ys, xs = list(compositions(rng, dh)), list(compositions(rng, dw))
            k = rng.random()
            if k < 0.4:
                ys = ys + [rng.randint(1, 2)]
            elif k < 0.7:
                xs = xs[:-1] if len(xs) > 1 else xs + [1]
            elif k < 0.85:
                ys = []
            arg = (tuple(ys), tuple(xs))
        sg = ns.GeoBox((sh, sw), ns.Affine(1, 0, 0, 0, -1, sh), CRS)
        dg = ns.GeoBox((dh, dw), ns.Affine(1, 0, 1, 0, -1, sh), CRS) if i % 2 else ns.GeoBox((dh, dw), ns.Affine(0, 1, 1, 1, 0, 0), CRS)

        def f_ch(sg=sg, dg=dg, sy=sy, sx=sx, arg=arg, sh=sh, sw=sw):
            xd = ns.wrap_xr(ns.da.zeros((sh, sw), chunks=(sy, sx), dtype="int16"), sg)
            cy, cx = ns.xr_reproject(xd, dg, chunks=arg).data.chunks
            return spans_s(cy) + " " + spans_s(cx)

        R.corr(f"c13 chunksh {dh} {dw} {list_s(sy)} {list_s(sx)} {chunk_arg_s(arg)}", f_ch,
               sig="chunksh|" + ("rejected" if rejected_arg(arg, dh, dw) else "ok") + ("|linear" if i % 2 else "|general"))
    # (c)
    for dtype, (p, emin, emax) in IEEE.items():
        big, tiny = float(np.finfo(dtype).max), float(np.finfo(dtype).tiny)
        vals = [0.1, tiny, tiny / 2, tiny / 3, tiny * 1.5, float(np.finfo(dtype).smallest_subnormal) * 0.4, big, -big,
                float("nan"), 0.0, -tiny / 7]
        if dtype != "float64":
            vals += [big * 1.0001, big * (1 + 2.0 ** -(p + 1)), -big * 2, big * (1 + 2.0 ** -(p + 3))]
        for v in (vals if not R.quick else rng.sample(vals, 7)):
            def f_ieee(v=v, dtype=dtype):
                if ns.resolve_fill is None:
                    raise Skip("odc.geo._dask.resolve_fill_value not found: its float conversion is seen through the constant chunks only")
                with warnings.catch_warnings():
                    warnings.simplefilter("ignore")
                    out = float(ns.resolve_fill(v, None, dtype))
                return "n" if math.isnan(out) else ("inf" if out == math.inf else "-inf" if out == -math.inf else frac_s(F(out)))

            corr_skip(R, f"c13 ieee {p} {emin} {emax} {raw_s(v)}", f_ieee,
                      sig=f"ieee|{dtype}|" + ("nan" if v != v else "sub" if abs(v) < tiny else "over" if abs(v) > big else "normal"))
    # (d)
    for i in range(R.pick(6, 60)):
        case = gen_case(rng, rotated=(i % 3 == 2), small=True)
        sg, dg, _ = geoboxes(ns, case)
        specs = [("red", "int16", rng.choice([None, 3])), ("qa", rng.choice(["uint8", "float32", "bool"]), rng.choice([None, 0, 1]))]
        kw_sn, dn = rng.choice([(None, None), (None, 5), (2, None)])
        kw = {} if kw_sn is None else {"src_nodata": kw_sn}
        meta = np.arange(3)
        arrs = {nm: gen_data(rng, (case["sh"], case["sw"]), dt, (nd, dn)) for nm, dt, nd in specs}
        order = [s_[0] for s_ in specs]
        order.insert(rng.randrange(3), "meta")
        cj = {"kind": "dataset", "case": case_json(case), "specs": [list(map(str, s_)) for s_ in specs], "order": order,
              "kw_sn": kw_sn, "dn": dn}

        def build(dask_backed):
            dv = {}
            for nm in order:
                if nm == "meta":
                    dv[nm] = xr.DataArray(meta, dims=("t",))
                else:
                    dt, nd = next((d_, n_) for n2, d_, n_ in specs if n2 == nm)
                    a = arrs[nm]
                    dv[nm] = ns.wrap_xr(ns.da.from_array(a, chunks=(case["sy"], case["sx"])) if dask_backed else a, sg, nodata=nd)
            return xr.Dataset(dv)

        try:
            outs = {}
            for backed in (False, True):
                ds = build(backed)
                ex = {"chunks": (case["cy"], case["cx"])} if backed else {}
                res = ns.xr_reproject(ds, dg, dst_nodata=dn, **kw, **ex)
                single = {nm: ns.xr_reproject(ds[nm], dg, dst_nodata=dn, **kw, **ex) for nm in order if nm != "meta"}
                outs[backed] = (list(res.data_vars), {nm: np.asarray(res[nm].values) for nm in order},
                                {nm: np.asarray(v.values) for nm, v in single.items()})
        except Exception as e:  # pylint: disable=broad-except
            R.oracle(False, "reproject-raises", cj, f"xr_reproject(Dataset) raised {type(e).__name__}: {e}", sig="dataset")
            continue
        plan = ",".join(f"{nm}:{'reproject' if outs[True][1][nm].shape == (case['dh'], case['dw']) and nm != 'meta' else 'pass'}"
                        for nm in outs[True][0])
        R.corr("c13 dsplan " + ",".join(f"{nm}:{'F' if nm == 'meta' else 'T'}" for nm in order), lambda plan=plan: plan, sig="dsplan")
        ok, what = True, ""
        for backed in (False, True):
            names, dsv, da_ = outs[backed]
            for nm in order:
                if nm == "meta":
                    good = np.array_equal(dsv[nm], meta)
                else:
                    good = same(dsv[nm], da_[nm]) and same(dsv[nm], outs[False][2][nm])
                if not good:
                    ok, what = False, (f"{'dask' if backed else 'numpy'}-backed Dataset: variable {nm} differs from "
                                       f"{'the untouched variable' if nm == 'meta' else 'the (numpy-backed) DataArray call'}")
            if names != order:
                ok, what = False, f"data variables {names}, expected {order}"
        R.oracle(ok, "dataset-variable-differs-from-dataarray", cj, what, sig="dataset|" + ("kw" if kw else "nokw"))


def zero_length_chunks(R: Run, ns, rng, n):
    """source dask arrays with ZERO-LENGTH chunks (what slicing / boolean filtering leaves behind) at every position — leading,
    trailing and INTERIOR (between two non-empty chunks), on one or both axes: dask-backed == numpy-backed, a raise on the dask
    path is a failure with the case as replay"""
    def with_zero(c, where):
        c = list(c)
        if where == "interior" and len(c) < 2:
            k = max(1, c[0] // 2)
            c = [k, c[0] - k] if c[0] >= 2 else c
        pos = {"lead": 0, "trail": len(c), "interior": max(1, len(c) // 2) if len(c) >= 2 else 0}[where]
        c.insert(pos, 0)
        if where == "interior" and rng.random() < 0.3:
            c.insert(pos, 0)  # two empty chunks in a row
        return tuple(c)

    for i in range(n):
        case = dict(gen_case(rng, rotated=(i % 4 == 3), small=True, minsize=2))
        where = ["interior", "interior", "lead", "trail"][i % 4]
        axes = ["y", "x", "both"][(i // 4) % 3]
        if axes in ("y", "both"):
            case["sy"] = with_zero(case["sy"], where)
        if axes in ("x", "both"):
            case["sx"] = with_zero(case["sx"], where)
        dtype = rng.choice(["int16", "float32", "uint8"])
        attr = rng.choice([None, 3])
        data = gen_data(rng, (case["sh"], case["sw"]), dtype, (attr,))
        oracle_pair(R, ns, case, dtype, data, attr, None, rng.choice(SCHEDS), rng.randrange(10**6), tag=f"zero-chunk-{where}-{axes}")


def fractional_nodata(R: Run, ns, rng, n):
    """integer rasters with a nodata value the dtype cannot hold (2.5, -0.5, 3.75 ...): the constant blocks of
    `_dask_rio_reproject` (resolve_fill_value), the task chunks and the in-memory path must agree on the integer they
    write; destinations larger than the source with small chunks, so all three kinds of pixels occur"""
    for i in range(n):
        case = gen_case(rng, rotated=(i % 3 == 2), small=True)
        case["cy"], case["cx"] = rng.randint(1, 3), rng.randint(1, 3)
        dtype = rng.choice(["uint8", "int16", "int32", "uint16", "int8"])
        signed = np.dtype(dtype).kind == "i"
        nd = rng.randint(-4 if signed else 0, 9) + rng.choice([0.5, 0.5, 0.25, 0.75])
        if not signed:
            nd = abs(nd)
        attr, dn = rng.choice([(nd, None), (None, nd), (3, nd), (nd, 5), (nd, nd)])
        data = gen_data(rng, (case["sh"], case["sw"]), dtype, (attr, dn))
        oracle_pair(R, ns, case, dtype, data, attr, dn, rng.choice(SCHEDS), rng.randrange(10**6), tag="frac")


# ------------------------------------------------------------------ entry points
def _w(sh, sw, dh, dw, A, sy, sx, cy, cx):
    ident = (F(1), F(0), F(0), F(0), F(1), F(0))
    return {"sh": sh, "sw": sw, "dh": dh, "dw": dw, "A": A, "S": ident, "D": A, "sy": sy, "sx": sx, "cy": cy, "cx": cx}


WITNESSES = [
    # F10: float32 without nodata, destination larger than the source
    (_w(4, 6, 8, 10, (F(1), F(0), F(-2), F(0), F(1), F(-2)), (2, 2), (3, 3), 2, 3), "float32", None, None),
    # F10 on the general (rotated) path: partially covered chunks next to constant chunks
    (_w(4, 6, 12, 12, (F(0), F(1), F(-3), F(1), F(0), F(-3)), (2, 2), (3, 3), 2, 3), "float32", None, None),
    # boolean raster with nodata=True
    (_w(4, 6, 12, 12, (F(0), F(1), F(-3), F(1), F(0), F(-3)), (2, 2), (3, 3), 2, 3), "bool", 1, None),
    # disjoint rasters
    (_w(3, 3, 4, 4, (F(1), F(0), F(100), F(0), F(1), F(100)), (2, 1), (1, 2), 3, 2), "float64", None, None),
    # F59: fractional nodata of an integer raster, constant chunks (last chunk row) next to warped ones
    (_w(4, 6, 8, 12, (F(1), F(0), F(-3), F(0), F(1), F(-2)), (1, 3), (2, 4), 3, 4), "int16", 2.5, None),
    (_w(4, 6, 8, 12, (F(1), F(0), F(-3), F(0), F(1), F(-2)), (1, 3), (2, 4), 3, 4), "uint8", None, 2.5),
    (_w(4, 6, 8, 12, (F(1), F(0), F(-3), F(0), F(1), F(-2)), (1, 3), (2, 4), 3, 4), "int32", -0.5, None),
]


def run(R: Run):
    ns = _import()
    rng = R.rng
    stage_t = {}
    t_last = [time.time()]

    def mark(name):
        stage_t[name] = round(time.time() - t_last[0], 1)
        t_last[0] = time.time()

    ns.dask.config.set({"array.slicing.split_large_chunks": False})

    # 0. corpus / witnesses of the repaired defects (always first)
    for case, dtype, attr, dn in WITNESSES:
        data = (np.arange(case["sh"] * case["sw"]).reshape(case["sh"], case["sw"]) % 7 + 1).astype(dtype)
        for sched in SCHEDS:
            oracle_pair(R, ns, case, dtype, data, attr, dn, sched, 1, tag="witness")

    # (the fresh-interpreter reference calls of the call-history stream start now and are collected in stage `histories`)
    hist = histories_start(random.Random(f"c13-histories-{R.seed}"), R.pick(12, 120), list(DTYPES), workers=R.pick(5, 8))
    try:

        # 1. reference semantics and small pieces
        spec_warp(R, ns, rng, R.pick(200, 288))
        corr_small_ops(R, ns, rng)

        mark('spec+small')
        # 2. exact stream through the whole pipeline (model == real chunked, model == real in-memory)
        dts = list(DTYPES)
        for i in range(R.pick(320, 3000)):
            rotated = i % 5 == 4
            case = gen_case(rng, rotated=rotated)
            corr_lowlevel(R, ns, rng, case, dts[i % len(dts)], rotated=rotated, inject=False)
        for i in range(R.pick(200, 1500)):
            rotated = i % 4 == 3
            case = gen_case(rng, rotated=rotated, small=True)
            corr_lowlevel(R, ns, rng, case, dts[i % len(dts)], rotated=rotated, inject=True)
        # (the public entry point is also driven by glue_xr_entry with every argument form)
        for i in range(R.pick(240, 3000)):
            case = gen_case(rng, rotated=(i % 6 == 5))
            corr_xr(R, ns, rng, case, dts[i % len(dts)])

        mark('exact-stream')
        # 2b. placements where a destination pixel centre maps exactly onto the source's x=0 / y=0 line
        # (half-pixel shifted grids): GDAL's answer depends on the row length -> known finding
        for i in range(R.pick(12, 120)):
            sw, dw = rng.randint(2, 6), rng.randint(6, 10)
            k = rng.randint(1, dw - 2)  # destination column whose centre maps onto x=0 of the source
            a = rng.choice([F(1), F(1), F(2), F(1, 2)])
            case = _w(rng.randint(1, 4), sw, rng.randint(1, 4), dw, (a, F(0), -a * (k + F(1, 2)), F(0), F(1), F(0)),
                      None, None, rng.randint(1, 4), rng.randint(1, 4))
            case["sy"], case["sx"] = compositions(rng, case["sh"]), compositions(rng, sw)
            dtype = [d for d in dts if d != "bool"][i % (len(dts) - 1)]
            data = (np.arange(case["sh"] * sw).reshape(case["sh"], sw) % 7 + 1).astype(dtype)
            oracle_pair(R, ns, case, dtype, data, None, None, "sync", 0, tag="edge0")

        mark('edge0')
        fractional_nodata(R, ns, rng, R.pick(24, 400))
        mark('fractional_nodata')
        glue_small(R, ns, rng)
        glue_kw(R, ns, rng)
        glue_unrep_pins(R, ns, rng)
        passthrough_kwargs(R, ns, rng)
        final_glue(R, ns, rng)
        zero_length_chunks(R, ns, rng, R.pick(24, 240))
        glue_xr_entry(R, ns, rng, R.pick(64, 1600), dts)  # quick: every dtype kind x chunks= form x nodata option a few times
        mark('glue')
        # quick: each (dtype, nodata mode) pair exactly once; thorough: 14 times each with other grids / scalar forms
        dtype_matrix(R, ns, rng, R.pick(len(ALL_DTYPES) * len(ND_MODES), 14 * len(ALL_DTYPES) * len(ND_MODES)))
        unrepresentable_nodata(R, ns, rng, R.pick(35, 700))
        mark('dtype_matrix')
        # 3. leading time axis, cross CRS, other resampling (oracle only)
        extra_axes(R, ns, rng, R.pick(100, 1200))
        mark('extra_axes')
        joint_compute(R, ns, rng, R.pick(70, 600), dts)
        mark('joint_compute')
        histories_finish(R, ns, hist)
        mark('histories')
        cross_crs(R, ns, rng, R.pick(100, 1500))
        mark('cross_crs')
        zoom_stream(R, ns, rng, R.pick(72, 900))
        mark('zoom_stream')
        identity_corner(R, ns, rng, R.pick(80, 1200), dts)
        mark('identity_corner')
        resampling_stream(R, ns, rng, R.pick(60, 600), dts)
        mark('resampling')
        crs_churn(R, ns, rng, R.pick(130, 900))
        mark('crs_churn')
    finally:
        hist[0].shutdown(wait=False, cancel_futures=True)

    R.extra["stage_seconds"] = stage_t
    R.notes.extend(n for n in _NOTES if n not in R.notes)
    R.searchers.append(searcher)
    R.assumptions.append("rasterio/GDAL nearest-neighbour warp between grids of one CRS follows Model.C13.gdalNearest "
                         "(half-open extent, floor of the mapped centre, INIT_DEST = nodata or 0, src nodata skipped, "
                         "collision nudge) — validated against rasterio on every run (ops warp/numpy)")
    R.assumptions.append("dependency completeness of GeoboxTiles.grid_intersect (C12) is a hypothesis of "
                         "chunked_eq_whole_nn; fill_uniform / disjoint_all_fill / order_independent do not need it")
    R.assumptions.append("dask executes every task after its dependencies; tasks are pure (exercised with four schedulers)")


def searcher(R: Run, mismatches):
    """proof or correspondence broke without an oracle failure: look harder for dask != numpy / wrong fill"""
    ns = _import()
    rng = random.Random(R.seed + 99)
    before = len(R.oracle_failures)
    for i in range(1500):
        case = gen_case(rng, rotated=(i % 3 == 2), small=(i % 2 == 0))
        dtype = list(DTYPES)[i % len(DTYPES)]
        if dtype == "bool":
            attr, dn = rng.choice([None, 0, 1]), rng.choice([None, 0, 1])
        else:
            attr, dn = rng.choice([None, 0, 3]), rng.choice([None, 0, 5])
        data = gen_data(rng, (case["sh"], case["sw"]), dtype, (attr, dn))
        oracle_pair(R, ns, case, dtype, data, attr, dn, "sync", 0, tag="search")
        if len(R.oracle_failures) > before:
            f = R.oracle_failures[before]
            del R.oracle_failures[before:]
            return f
    return None


def replay(R: Run, rec) -> int:
    ns = _import()
    cj = rec.get("case") or {}
    print("replay key:", rec.get("key"))
    print("replay case:", cj)
    if not cj:
        print(rec.get("broken"))
        return 1
    if cj.get("kind") in ("forward", "linear"):
        (forwarding_one if cj["kind"] == "forward" else linear_one)(R, ns, cj)
        for f in R.oracle_failures:
            print("FAIL:", f["key"], f["what"])
        return 1 if R.oracle_failures else 0
    if cj.get("kind") == "scale-snap":
        scale_snap_probe(R, ns)
        for f in R.oracle_failures:
            print("FAIL:", f["key"], f["what"])
        return 1 if R.oracle_failures else 0
    if cj.get("kind") == "entry":
        case = case_from_json(cj)
        data = np.asarray(cj["data"]).astype(cj["dtype"])
        attr, kw_sn, dn = nd_from_json(cj["attr_nd"]), nd_from_json(cj.get("kw_src_nd")), nd_from_json(cj["dst_nd"])
        arg = cj.get("chunks")
        if arg is not None:
            arg = tuple(tuple(a) if isinstance(a, list) else a for a in arg)
        sg, dg, _ = geoboxes(ns, case)
        kw = {} if kw_sn is None else {"src_nodata": kw_sn}
        res = {}
        for path in ("numpy", "dask"):
            try:
                x = ns.wrap_xr(data if path == "numpy" else ns.da.from_array(data, chunks=(case["sy"], case["sx"])), sg, nodata=attr)
                r_ = ns.xr_reproject(x, dg, dst_nodata=dn, **kw, **({} if arg is None else {"chunks": arg}))
                res[path] = r_.values if path == "numpy" else r_.data.compute(scheduler="synchronous")
                print(path, "-backed:\n", res[path])
            except Exception as e:  # pylint: disable=broad-except
                print(path, "-backed raises", type(e).__name__, e)
        return 0 if len(res) == 2 and same(res["numpy"], res["dask"]) else 1
    if cj.get("kind") == "jointpairs":
        joint_pairs(R, ns, random.Random(0))
        for f in R.oracle_failures:
            print("FAIL:", f["key"], f["what"])
        return 1 if R.oracle_failures else 0
    if cj.get("kind") == "passthrough":
        passthrough_kwargs(R, ns, random.Random(0))
        for f in R.oracle_failures:
            print("FAIL:", f["key"], f["what"])
        return 1 if R.oracle_failures else 0
    if cj.get("kind") == "unrep":
        unrep_one(R, ns, cj)
        for f in R.oracle_failures:
            print("FAIL:", f["key"], f["what"])
        return 1 if R.oracle_failures else 0
    if cj.get("kind") == "matrix":
        matrix_one(R, ns, cj)
        for f in R.oracle_failures:
            print("FAIL:", f["key"], f["what"])
        return 1 if R.oracle_failures else 0
    if cj.get("kind") == "identity":
        identity_one(R, ns, cj)
        for f in R.oracle_failures:
            print("FAIL:", f["key"], f["what"])
        return 1 if R.oracle_failures else 0
    if cj.get("kind") == "zoom":
        zoom_one(R, ns, cj)
        for f in R.oracle_failures:
            print("FAIL:", f["key"], f["what"])
        return 1 if R.oracle_failures else 0
    if cj.get("kind") == "history":
        with fresh_pool() as pool:
            fresh = [f.result(timeout=600) for f in [pool.submit(_fresh_call, (cj, i)) for i in range(len(cj["calls"]))]]
        history_eval(R, ns, cj, fresh)
        for f in R.oracle_failures:
            print("FAIL:", f["key"], f["what"])
        return 1 if R.oracle_failures else 0
    if cj.get("kind") == "joint":
        joint_one(R, ns, cj)
        for f in R.oracle_failures:
            print("FAIL:", f["key"], f["what"])
        return 1 if R.oracle_failures else 0
    if cj.get("kind") == "cross":
        ok = cross_one(R, ns, cj)
        for f in R.oracle_failures:
            print("FAIL:", f["key"], f["what"])
        return 0 if ok and not R.oracle_failures else 1
    case = case_from_json(cj)
    dtype = cj["dtype"]
    data = np.asarray(cj["data"]).astype(dtype)
    if cj.get("lowlevel"):
        sg, dg, _ = geoboxes(ns, case)
        sn, dn = nd_from_json(cj["src_nd"]), nd_from_json(cj["dst_nd"])
        out = dask_reproject(ns, ns.da.from_array(data, chunks=(case["sy"], case["sx"])), sg, dg, "nearest", sn, dn,
                             ydim=0, chunks=(case["cy"], case["cx"])).compute(scheduler="synchronous")
        fv = spec_fill(dtype, sn, dn)
        vals = out[unreached_exact(case)]
        good = (vals != vals) if (np.dtype(dtype).kind == "f" and math.isnan(float(fv))) else (vals == fv)
        print("result:\n", out, "\nexpected fill on unreached pixels:", fv)
        return 0 if bool(np.all(good)) else 1
    res = oracle_pair(R, ns, case, dtype, data, nd_from_json(cj["attr_nd"]), nd_from_json(cj["dst_nd"]), cj["sched"],
                      cj["sseed"], cj.get("lead"), cj.get("trail"), tag="replay")
    if res is not None:
        print("numpy-backed:\n", res[0])
        print("dask-backed:\n", res[1])
    for f in R.oracle_failures:
        print("FAIL:", f["key"], f["what"])
    return 1 if R.oracle_failures else 0
