"""C04 — argument normalisation / glue around the tiling core (model: lean/OdcGeo/Model/C04Args.lean).

`args_stream` ties every function of Model/C04Args.lean to the real code on every run:

* `verify_stream`     BlockAssembler.__init__ / _verify_shape: small layouts x per-block perturbations (exhaustive for
                      up to two blocks), int32-edge chunk sums;
* `spelling_stream`   iyx_ / ixy_ / norm_slice_2d and every indexing entry point with every argument form (tuples of
                      length 0..3, Index2d, XY, Shape2d, list, int, None, slices inside tuples) on non-square tilings;
* `dispatch_stream`   shape_, Tiles.__init__, roi_tiles, GeoboxTiles.__init__ with every form of `shape` / `how`;
* `small_stream`      planes_yx(yx_roi), WindowFromSlice, roi_shape.

Model-independent oracles (`R.oracle`) restate the expected outcome in plain Python where that is natural.
"""
from __future__ import annotations

import itertools

import numpy as np

from .common import Run, frac_s, guarded, list_s, opt_s


# ------------------------------------------------------------------ encoders (same protocol as harness/c04.py)
def enc(s) -> str:
    if isinstance(s, (int, np.integer)):
        return f"i:{int(s)}"
    return f"s:{opt_s(s.start)}:{opt_s(s.stop)}"


def ns(s) -> str:
    return f"{int(s.start)}:{int(s.stop)}"


def ints(xs) -> str:
    return list_s([int(x) for x in xs])


def aff_s(A) -> str:
    return ";".join(frac_s(v) for v in tuple(A)[:6])


def tiling_tok(kind, spec):
    return f"r:{spec[0]}:{spec[1]}" if kind == "r" else f"v:{ints(spec)}"


def t2_fmt(c) -> str:
    head = f"{c.base.y} {c.shape.y} {c.base.x} {c.shape.x} "
    return head + guarded(lambda: f"{ints(c.chunks[0])} {ints(c.chunks[1])}")


def tiles_id(t) -> str:
    """what identifies a constructed tiling object (private state, so that a swapped axis shows even for equal counts)"""
    if type(t).__name__ == "Tiles":
        bs, ts = getattr(t, "_base_shape", None), getattr(t, "_tile_shape", None)
        if bs is None or ts is None:
            # public route: the dask token lists (shape, tile shape, base shape), each in Y, X order
            tok = tuple(int(v) for v in t.__dask_tokenize__()[1:])
            (ny, nx), (Ny, Nx) = tok[2:4], tok[4:6]
            return f"r:{Ny}:{ny} r:{Nx}:{nx}"
        (Ny, Nx), (ny, nx) = bs.yx, ts.yx
        return f"r:{Ny}:{ny} r:{Nx}:{nx}"
    from .c04 import offsets_of

    return " ".join("v:" + ints(offsets_of(t, a_)) for a_ in (0, 1))


def C(R: Run, line, fn, sig) -> str:
    """register a correspondence case whose branch signature carries the outcome (ok / error kind)"""
    out = guarded(fn)
    R.corr(line, lambda: out, sig=f"{sig}|{'ok' if not out.startswith('ERR:') else out[4:]}")
    return out


# ------------------------------------------------------------------ 1. BlockAssembler.__init__ / _verify_shape
def _blk(shape):
    """an array of the given shape that costs no memory (zero strides)"""
    return np.broadcast_to(np.uint8(0), tuple(shape))


def _perturb(kind, key, shape, axis, chy, chx):
    """-> (key, shape) of a block derived from a fitting one"""
    iy, ix = key
    s = list(shape)
    if kind == "ok":
        pass
    elif kind == "few":          # one dimension short of axis + 2
        s = s[: axis + 1]
    elif kind == "fewer":        # 0-d / 1-d array
        s = s[: max(0, axis)]
    elif kind == "extra":        # one more trailing dimension
        s = s + [1]
    elif kind == "extra-front":  # one more leading dimension (Y, X move)
        s = [1] + s
    elif kind == "lead" and axis > 0:
        s[0] += 1
    elif kind == "trail" and len(s) > axis + 2:
        s[-1] += 1
    elif kind == "y":
        s[axis] += 1
    elif kind == "x":
        s[axis + 1] += 1
    elif kind == "swap":         # Y and X sizes exchanged
        s[axis], s[axis + 1] = s[axis + 1], s[axis]
    elif kind == "neg":          # the same tile addressed from the end
        iy, ix = iy - len(chy), ix - len(chx)
    elif kind == "key-hi":
        iy = len(chy)
    elif kind == "key-lo":
        iy = -len(chy) - 1
    elif kind == "xkey-hi":
        ix = len(chx)
    elif kind == "yx-key":       # row / column of the key exchanged
        iy, ix = ix, iy
    else:
        return None
    return (iy, ix), s


PERT = ["ok", "few", "fewer", "extra", "extra-front", "lead", "trail", "y", "x", "swap", "neg", "key-hi", "key-lo",
        "xkey-hi", "yx-key"]


PCLASS = {"ok": "fit", "neg": "fit", "few": "ndim", "fewer": "ndim", "extra": "dims", "extra-front": "dims", "lead": "dims",
          "trail": "dims", "y": "yx", "x": "yx", "swap": "yx", "key-hi": "key", "key-lo": "key", "xkey-hi": "key", "yx-key": "yxkey"}


def _py_fits(chy, chx, axis, items):
    """independent statement of `the blocks fit the layout`: -> (fits, lead, trail)"""
    if not items:
        return True, (), ()
    s0 = tuple(items[0][1])
    if len(s0) < axis + 2:
        return False, (), ()
    lead, trail = s0[:axis], s0[axis + 2:]
    for (iy, ix), s in items:
        if not (-len(chy) <= iy < len(chy) and -len(chx) <= ix < len(chx)):
            return False, lead, trail
        if tuple(s) != (*lead, chy[iy % len(chy)], chx[ix % len(chx)], *trail):
            return False, lead, trail
    return True, lead, trail


def verify_case(R: Run, BlockAssembler, chy, chx, axis, items, sigx):
    blocks = {}
    for k, s in items:
        if k in blocks:
            return  # a dict cannot hold the same key twice
        blocks[k] = _blk(s)
    chunks = (tuple(chy), tuple(chx))
    bl = list_s([";".join(str(int(v)) for v in (*k, *s)) for k, s in items])
    line = f"{ints(chy)} {ints(chx)} {axis} {bl}"
    res = []

    def f():
        asm = BlockAssembler(blocks, chunks, axis=axis)
        res.append(asm)
        return f"{ints(asm.shape)} {'T' if asm.dtype == np.dtype('float32') else 'F'}"

    out = C(R, f"c04 verify {line}", f, "verify|" + sigx)
    vs = getattr(BlockAssembler, "_verify_shape", None)
    if vs is not None:  # private helper: compared only while it exists (the constructor above is the public route)
        C(R, f"c04 vshape {line}", lambda: ints(vs(blocks, chunks, axis=axis)), "vshape|" + sigx)
    # model-independent: the constructor succeeds exactly for fitting blocks, and then reports lead + (NY, NX) + trail
    NY, NX = sum(chy), sum(chx)
    if NY >= 2 ** 31 or NX >= 2 ** 31 or (not items and axis > 0):
        return  # int32 wrap / empty mapping with axis > 0: AssertionError (correspondence only)
    fits, lead, trail = _py_fits(chy, chx, axis, items)
    case = {"chy": list(chy), "chx": list(chx), "axis": axis, "blocks": [[list(k), list(s)] for k, s in items]}
    if fits:
        want = f"{ints((*lead, NY, NX, *trail))} {'T' if not items else 'F'}"
        R.oracle(out == want, "assembler-verify-shape-wrong", case, f"BlockAssembler(...) gave {out}, want {want}",
                 sig="verify-oracle|fits")
        if res:
            asm = res[0]
            a = axis
            ok = all(tuple(b.shape) == (*asm.shape[:a], chy[k[0]], chx[k[1]], *asm.shape[a + 2:]) for k, b in blocks.items())
            R.oracle(ok, "assembler-verify-shape-wrong", case, "an accepted block does not have shape lead+(chy[iy],chx[ix])+trail",
                     sig="verify-oracle|block-shapes")
    else:
        R.oracle(out in ("ERR:ValueError", "ERR:IndexError"), "assembler-misfit-block-accepted", case,
                 f"blocks do not fit the layout but BlockAssembler(...) gave {out}", sig="verify-oracle|misfit")


def verify_stream(R: Run, BlockAssembler):
    rng = R.rng
    layouts = [((2, 3), (4,)), ((2,), (1, 3)), ((0, 2), (3, 0)), ((1, 2, 1), (2, 5)), ((3,), (3,)), ((), (2,))]
    leads = {0: [()], 1: [(2,), (0,)], 2: [(2, 1)]}
    for chy, chx in layouts:
        allk = [(iy, ix) for iy in range(len(chy)) for ix in range(len(chx))]
        for axis in (0, 1, 2):
            verify_case(R, BlockAssembler, chy, chx, axis, [], "no-blocks")
            for lead in leads[axis]:
                for trail in ((), (3,)):
                    def fit(k):
                        return k, (*lead, chy[k[0]], chx[k[1]], *trail)

                    if not allk:   # empty layout: every key is out of range
                        for k in ((0, 0), (-1, 0)):
                            verify_case(R, BlockAssembler, chy, chx, axis, [(k, (*lead, 0, chx[0], *trail))], "1|key-hi")
                    # one block: every perturbation at every key
                    for k in allk:
                        for p in PERT:
                            it = _perturb(p, *fit(k), axis, chy, chx)
                            if it is not None:
                                verify_case(R, BlockAssembler, chy, chx, axis, [it], f"1|{p}")
                    # two blocks: every pair of perturbations (order of the checks, which block is `first`)
                    pairs = list(itertools.permutations(allk, 2))
                    rng.shuffle(pairs)
                    for k1, k2 in pairs[: R.pick(2, 6)]:
                        for p1 in PERT:
                            for p2 in PERT:
                                i1 = _perturb(p1, *fit(k1), axis, chy, chx)
                                i2 = _perturb(p2, *fit(k2), axis, chy, chx)
                                if i1 is not None and i2 is not None:
                                    verify_case(R, BlockAssembler, chy, chx, axis, [i1, i2], f"2|{PCLASS[p1]}+{PCLASS[p2]}")
                    # all blocks, a few of them perturbed
                    for _ in range(R.pick(6, 40)):
                        ks = list(allk)
                        rng.shuffle(ks)
                        items = []
                        for k in ks[: rng.randint(1, len(ks))] if ks else []:
                            p = rng.choice(PERT) if rng.random() < 0.25 else rng.choice(["ok", "ok", "neg"])
                            it = _perturb(p, *fit(k), axis, chy, chx)
                            items.append(it if it is not None else fit(k))
                        if items:
                            verify_case(R, BlockAssembler, chy, chx, axis, items, "n|mixed")
    # int32 edge of the cumulative sum (the assert of __init__), negative chunk sizes
    B = 2 ** 30
    for chy, chx in (((B, B), (1,)), ((2 ** 31 - 1,), (1,)), ((2 ** 31 - 1, 1), (2,)), ((B, B - 1), (B, B)), ((1,), (B, B, 5)),
                     ((B - 1, B), (3,)), ((-1, 3), (1,)), ((2, -2), (1,)), ((B, B, B, B), (1,))):
        verify_case(R, BlockAssembler, chy, chx, 0, [], "int32|no-blocks")
        verify_case(R, BlockAssembler, chy, chx, 0, [((0, 0), (chy[0], chx[0]))] if chy[0] >= 0 else [((1, 0), (chy[1], chx[0]))],
                    "int32|1")
        verify_case(R, BlockAssembler, chy, chx, 1, [((0, 0), (2, max(chy[0], 0), chx[0], 1))], "int32|1")


# ------------------------------------------------------------------ 2. index spellings
def _idx_tok(form, a, b=None, c=None):
    """(driver token, python object factory) of one argument form for the index (r, c) = (a, b)"""
    from odc.geo import ixy_, iyx_
    from odc.geo.types import XY, Index2d, Shape2d

    if form == "tuple":
        return f"t=[{enc(a)},{enc(b)}]", (a, b)
    if form == "iyx_":
        return f"I={b};{a}", iyx_(a, b)
    if form == "ixy_":
        return f"I={b};{a}", ixy_(b, a)
    if form == "Index2d":
        return f"I={b};{a}", Index2d(x=b, y=a)
    if form == "XY":
        return f"X={b};{a}", XY(x=b, y=a)
    if form == "Shape2d":
        return f"X={b};{a}", Shape2d(x=b, y=a)
    if form == "tuple3":
        return f"t=[{enc(a)},{enc(b)},{enc(c)}]", (a, b, c)
    if form == "tuple1":
        return f"t=[{enc(a)}]", (a,)
    if form == "tuple0":
        return "t=[]", ()
    if form == "list":
        return "O", [a, b]
    if form == "int":
        return "O", a
    if form == "None":
        return "O", None
    if form == "slice":
        return "O", slice(a, b)
    raise KeyError(form)


ACCEPTED = ["tuple", "iyx_", "ixy_", "Index2d", "XY", "Shape2d"]
REJECTED = ["tuple1", "tuple0", "list", "int", "None", "slice"]


def chunks_of(kind, spec):
    if kind == "v":
        return list(spec)
    N, n = spec
    T = -(-N // n)
    return [n] * (T - 1) + [N - (T - 1) * n] if T > 0 else []


def spelling_stream(R: Run, Rm, GeoBox, GeoboxTiles):
    from affine import Affine
    from odc.geo import ixy_, iyx_

    rng = R.rng
    # constructors with two ints, and the single-argument forms
    for a in range(-2, 3):
        for b in range(-2, 3):
            C(R, f"c04 mkidx iyx {a} {b}", lambda: (lambda i: f"{enc(i.x)} {enc(i.y)}")(iyx_(a, b)), "spell-fn|mk|iyx_")
            C(R, f"c04 mkidx ixy {a} {b}", lambda: (lambda i: f"{enc(i.x)} {enc(i.y)}")(ixy_(a, b)), "spell-fn|mk|ixy_")
            for form in ACCEPTED + REJECTED + ["tuple3"]:
                tok, obj = _idx_tok(form, a, b, 7)
                C(R, f"c04 idx iyx {tok}", lambda: (lambda i: f"{enc(i.x)} {enc(i.y)}")(iyx_(obj)), f"spell-fn|iyx_|{form}")
                C(R, f"c04 idx ixy {tok}", lambda: (lambda i: f"{enc(i.x)} {enc(i.y)}")(ixy_(obj)), f"spell-fn|ixy_|{form}")
    for obj, tok in (((slice(0, 2), 1), "t=[s:0:2,i:1]"), ((1, slice(None, -1)), "t=[i:1,s:N:-1]")):
        C(R, f"c04 idx iyx {tok}", lambda: (lambda i: f"{enc(i.x)} {enc(i.y)}")(iyx_(obj)), "spell-fn|iyx_|tuple-slice")
        C(R, f"c04 idx ixy {tok}", lambda: (lambda i: f"{enc(i.x)} {enc(i.y)}")(ixy_(obj)), "spell-fn|ixy_|tuple-slice")

    # non-square tilings: a swapped axis shows
    specs = [("r", (10, 3), (7, 2)), ("r", (7, 2), (5, 5)), ("r", (5, 5), (9, 2)), ("v", (3, 3, 4), (7, 13)),
             ("v", (2, 0, 3), (1, 2, 1, 1)), ("v", (5,), (1, 1, 2))]
    for _ in range(R.pick(2, 12)):
        while True:
            if rng.random() < 0.5:
                kind, sy, sx = "r", (rng.randint(1, 9), rng.randint(1, 5)), (rng.randint(1, 9), rng.randint(1, 5))
            else:
                kind = "v"
                sy, sx = (tuple(rng.choice([0, 1, 1, 2, 3]) for _ in range(rng.randint(1, 4))) for _ in range(2))
            if len(chunks_of(kind, sy)) != len(chunks_of(kind, sx)):
                break
        specs.append((kind, sy, sx))
    for kind, sy, sx in specs:
        chy, chx = chunks_of(kind, sy), chunks_of(kind, sx)
        Ty, Tx, NY, NX = len(chy), len(chx), sum(chy), sum(chx)
        t = Rm.Tiles((NY, NX), (sy[1], sx[1])) if kind == "r" else Rm.VariableSizedTiles((tuple(sy), tuple(sx)))
        A = Affine(rng.choice([1, 2, 0.5]), 0, rng.randint(-40, 40) / 4, 0, -rng.choice([1, 2, 0.5]), rng.randint(-40, 40) / 4)
        gbt = GeoboxTiles(GeoBox((NY, NX), A, "EPSG:3857"), (sy[1], sx[1]) if kind == "r" else (tuple(sy), tuple(sx)))
        tt = f"{tiling_tok(kind, sy)} {tiling_tok(kind, sx)}"
        gh = f"{NY} {NX} {aff_s(A)} {tt}"
        oy = [sum(chy[:i]) for i in range(Ty + 1)]
        ox = [sum(chx[:i]) for i in range(Tx + 1)]

        def entry_points(tok, obj, form, r, c):
            eps = {
                "get": (f"c04 a get {tt} {tok}", lambda: " ".join(ns(v) for v in t[obj])),
                "shape": (f"c04 a shape {tt} {tok}", lambda: "{} {}".format(*t.tile_shape(obj).yx)),
                "gbt.get": (f"c04 ga get {gh} {tok}", lambda: (lambda g: f"{g.shape.y} {g.shape.x} {aff_s(g.affine)}")(gbt[obj])),
                "gbt.pix": (f"c04 ga pix {gh} {tok}", lambda: "{} {} {} {}".format(*(int(v) for v in gbt.pix_bbox(obj).bbox))),
                "gbt.cshape": (f"c04 ga cshape {gh} {tok}", lambda: "{} {}".format(*gbt.chunk_shape(obj).yx)),
            }
            for ep, (line, fn) in eps.items():
                got = C(R, line, fn, f"spelling|{form}|{ep}")
                if form in REJECTED:
                    # a form the entry point does not understand must be refused, never answered with some tile
                    R.oracle(got.startswith("ERR:"), "index-spelling-rejected-form-accepted",
                             {"spec": [kind, list(sy), list(sx)], "entry": ep, "form": form, "r": r, "c": c},
                             f"{ep}[{form}] = {got}", sig=f"index-rejected|{ep}", trivial=True)
                elif form in ACCEPTED and isinstance(r, int) and isinstance(c, int):
                    if -Ty <= r < Ty and -Tx <= c < Tx:
                        rr, cc = r % Ty, c % Tx
                        y0, y1, x0, x1 = oy[rr], oy[rr + 1], ox[cc], ox[cc + 1]
                        want = {"get": f"{y0}:{y1} {x0}:{x1}", "shape": f"{y1 - y0} {x1 - x0}",
                                "gbt.pix": f"{x0} {y0} {x1} {y1}", "gbt.cshape": f"{y1 - y0} {x1 - x0}"}.get(ep)
                    else:
                        want = "ERR:IndexError"
                    if want is not None and not (ep == "gbt.get" and want != "ERR:IndexError"):
                        R.oracle(got == want, "index-spelling-wrong-tile",
                                 {"spec": [kind, list(sy), list(sx)], "entry": ep, "spelling": form, "r": r, "c": c},
                                 f"{ep}[{form} r={r} c={c}] = {got}, tile ({r},{c}) is {want}", sig=f"index-args|{ep}|{form}")

        for r in range(-Ty - 1, Ty + 1):
            for c in range(-Tx - 1, Tx + 1):
                for form in ACCEPTED + ["tuple3"] + (REJECTED if (r + c) % 3 == 0 else ["tuple1"]):
                    tok, obj = _idx_tok(form, r, c, rng.choice([0, 99, -1]))
                    entry_points(tok, obj, form, r, c)
        # slices inside a tuple: rows / columns of tiles for [], TypeError for tile_shape
        for _ in range(R.pick(12, 60)):
            sl = slice(rng.choice([None, 0, 1, -1]), rng.choice([None, 1, 2, -1, Ty + 1]))
            i = rng.randint(-Tx - 1, Tx)
            for obj in ((sl, i), (i, sl), (sl, sl)):
                tok = f"t=[{enc(obj[0])},{enc(obj[1])}]"
                entry_points(tok, obj, "tuple-slice", obj[0], obj[1])
        # pixels for locate, every form
        pix = [(py, px) for py in (-1, 0, NY - 1, NY) for px in (-1, 0, NX - 1, NX)]
        pix += [(rng.randint(-1, NY), rng.randint(-1, NX)) for _ in range(R.pick(10, 60))]
        for py, px in pix:
            for form in ACCEPTED + REJECTED + ["tuple3"]:
                tok, obj = _idx_tok(form, py, px, 0)
                got = C(R, f"c04 a locate {tt} {tok}", lambda: "{} {}".format(*(int(v) for v in t.locate(obj))), f"spelling|{form}|locate")
                if form in ACCEPTED:
                    if 0 <= py < NY and 0 <= px < NX:
                        want = "{} {}".format(max(i for i in range(Ty) if oy[i] <= py < oy[i + 1]),
                                              max(i for i in range(Tx) if ox[i] <= px < ox[i + 1]))
                    else:
                        want = "ERR:IndexError"
                    R.oracle(got == want, "index-spelling-wrong-tile",
                             {"spec": [kind, list(sy), list(sx)], "entry": "locate", "spelling": form, "r": py, "c": px},
                             f"locate[{form} y={py} x={px}] = {got}, want {want}", sig=f"index-args|locate|{form}")
        for obj in ((slice(0, 1), 0), (0, slice(0, 1)), (NY + 5, slice(0, 1)), (slice(0, 1), NX + 5)):
            tok = f"t=[{enc(obj[0])},{enc(obj[1])}]"
            C(R, f"c04 a locate {tt} {tok}", lambda: "{} {}".format(*(int(v) for v in t.locate(obj))), "spelling|tuple-slice|locate")


# ------------------------------------------------------------------ 3. shape_ / Tiles.__init__ / roi_tiles / GeoboxTiles.__init__
def _shape_forms(ny, nx):
    from odc.geo.types import XY, Index2d, Shape2d

    return [(f"q=[{ny},{nx}]", (ny, nx)), (f"q=[{ny},{nx}]", [ny, nx]), (f"S={nx};{ny}", Shape2d(x=nx, y=ny)),
            (f"X={nx};{ny}", XY(x=nx, y=ny)), (f"X={nx};{ny}", Index2d(x=nx, y=ny))]


def _bad_shape_forms(ny, nx):
    return [(f"q=[{ny}]", (ny,)), (f"q=[{ny},{nx},1]", (ny, nx, 1)), ("q=[]", ()), ("q=[]", []), ("O", ny), ("O", None)]


class _Iterable:
    """an iterable of ints that is neither tuple nor list"""

    def __init__(self, xs):
        self.xs = [int(x) for x in xs]

    def __iter__(self):
        return iter(self.xs)

    def __repr__(self):
        return f"_Iterable({self.xs})"


def _chunk_forms(chy, chx):
    tok = f"c={ints(chy)}|{ints(chx)}"
    # only the FIRST member is tested for tuple / list; the others may be any iterable of ints
    return [(tok, (tuple(chy), tuple(chx))), (tok, [list(chy), list(chx)]), (tok, (list(chy), tuple(chx))),
            (tok, (tuple(chy), list(chx))), (tok, (tuple(chy), np.array(chx, dtype="int64"))),
            (tok, [list(chy), _Iterable(chx)])]


def dispatch_stream(R: Run, Rm, GeoBox, GeoboxTiles):
    from affine import Affine
    from odc.geo.types import shape_

    rng = R.rng
    for ny, nx in ((10, 7), (3, 2), (0, 5), (-3, 2), (7, 7)):
        for tok, obj in _shape_forms(ny, nx) + _bad_shape_forms(ny, nx):
            C(R, f"c04 shape_ {tok}", lambda: "{} {}".format(*shape_(obj).yx), f"shape_|{tok.split('=')[0]}|{type(obj).__name__}")

    def tiles_out(t):
        return f"{tiles_id(t)} | {t2_fmt(t)}"

    bases = [(10, 7), (7, 10), (5, 1), (0, 4)]
    hows_reg = [(3, 2), (2, 3), (4, 4), (1, 5), (12, 1), (-3, 2), (3, -2), (0, 2), (2, 0)]
    hows_var = [((3, 7), (2, 5)), ((3, 3), (2, 9)), ((10,), (3, 4)), ((), ()), ((2, 0, 3), (1,)), ((1,), (2, 2, 2))]
    for (Ny, Nx) in bases:
        sforms = _shape_forms(Ny, Nx) + _bad_shape_forms(Ny, Nx)
        for (ny, nx) in hows_reg:
            for htok, hobj in _shape_forms(ny, nx) + _bad_shape_forms(ny, nx):
                for stok, sobj in (sforms if htok.startswith("q=[") and isinstance(hobj, tuple) else sforms[:1] + sforms[2:4] + sforms[5:6]):
                    got = C(R, f"c04 roitiles {stok} {htok}", lambda: tiles_out(Rm.roi_tiles(sobj, hobj)), f"roi-tiles|reg|{stok.split('=')[0]}|{htok.split('=')[0]}")
                    good_s = any(sobj is o for _t, o in sforms[:5])
                    good_h = any(hobj is o or hobj == o for _t, o in _shape_forms(ny, nx))
                    if good_s and good_h and ny != 0 and nx != 0:
                        want = f"r:{Ny}:{ny} r:{Nx}:{nx} | "
                        R.oracle(got.startswith(want), "roi-tiles-dispatch-wrong",
                                 {"shape": repr(sobj), "how": repr(hobj)}, f"roi_tiles -> {got}, want {want}…",
                                 sig="roi-tiles-oracle|reg")
        for chy, chx in hows_var:
            cforms = _chunk_forms(chy, chx)
            for htok, hobj in cforms:
                for stok, sobj in sforms:
                    got = C(R, f"c04 roitiles {stok} {htok}", lambda: tiles_out(Rm.roi_tiles(sobj, hobj)), f"roi-tiles|var|{stok.split('=')[0]}")
                    oy = [sum(chy[:i]) for i in range(len(chy) + 1)]
                    ox = [sum(chx[:i]) for i in range(len(chx) + 1)]
                    want = f"v:{ints(oy)} v:{ints(ox)} | "
                    R.oracle(got.startswith(want), "roi-tiles-dispatch-wrong", {"shape": repr(sobj), "how": repr(hobj)},
                             f"roi_tiles -> {got}, want {want}…", sig="roi-tiles-oracle|var")
            # wrong number of chunk tuples
            for hobj in ((tuple(chy),), (tuple(chy), tuple(chx), (1,)), [list(chy), list(chx), [2], [3]]):
                htok = "c=" + "|".join(ints(c) for c in hobj)
                C(R, f"c04 roitiles q=[{Ny},{Nx}] {htok}", lambda: tiles_out(Rm.roi_tiles((Ny, Nx), hobj)), f"roi-tiles|var-len{len(hobj)}")

    # GeoboxTiles.__init__
    A = Affine(2, 0, rng.randint(-40, 40) / 4, 0, -2, rng.randint(-40, 40) / 4)
    for (Ny, Nx) in bases:
        gb = GeoBox((Ny, Nx), A, "EPSG:3857")
        head = f"{Ny} {Nx} {aff_s(A)}"

        def gout(g):
            b = g.base
            return f"{b.shape.y} {b.shape.x} {aff_s(b.affine)} | {tiles_id(g.roi)} | {t2_fmt(g.roi)}"

        hows = []
        for (ny, nx) in hows_reg:
            hows += _shape_forms(ny, nx) + _bad_shape_forms(ny, nx)[:4]
        for chy, chx in hows_var:
            hows += _chunk_forms(chy, chx)[:2]
        hows.append(("N", None))
        given = [("N N", None), ("r:5:2 r:9:4", Rm.Tiles((5, 9), (2, 4))), ("v:[1,2] v:[4]", Rm.VariableSizedTiles(((1, 2), (4,))))]
        for htok, hobj in hows:
            for gtok, gobj in given:
                if gobj is not None and rng.random() < 0.6:
                    continue
                if gobj is not None:
                    # `_tiles=` is a private-looking keyword of the public constructor: used only while it is accepted
                    try:
                        GeoboxTiles(gb, (1, 1), _tiles=gobj)
                    except TypeError:
                        if not getattr(R, "_noted_tiles_kw", False):
                            R._noted_tiles_kw = True
                            R.notes.append("GeoboxTiles(...) does not take a `_tiles=` keyword: the 'given tiling' dispatch is not driven")
                        continue
                got = C(R, f"c04 gbtinit {head} {htok} {gtok}",
                             lambda: gout(GeoboxTiles(gb, hobj) if gobj is None else GeoboxTiles(gb, hobj, _tiles=gobj)), f"gbt-init|{'given' if gobj is not None else htok.split('=')[0]}")
                if gobj is None and htok.startswith("c=") and not got.startswith("ERR:"):
                    # a tiled GeoBox that was constructed from chunk tuples is tiled exactly: every tile inside the GeoBox,
                    # the chunk tuples add up to its shape
                    def _tiled_exactly():
                        g = GeoboxTiles(gb, hobj)
                        T = g.shape
                        inside = all(0 <= s_.start <= s_.stop <= n_ for r_ in range(T[0]) for c_ in range(T[1])
                                     for s_, n_ in zip(g.roi[r_, c_], (Ny, Nx)))
                        return "ok" if inside and tuple(sum(c_) for c_ in g.chunks) == (Ny, Nx) else \
                            f"chunks {g.chunks} for a GeoBox of shape {(Ny, Nx)}"
                    verdict = guarded(_tiled_exactly)
                    R.oracle(verdict == "ok", "gbt-tiles-outside-geobox", {"gbox": [Ny, Nx], "how": repr(hobj)},
                             f"GeoboxTiles constructed with tiles that do not partition its GeoBox: {verdict}",
                             sig="gbt-init-oracle|chunks-cover")
                if gobj is not None:
                    R.oracle(got == f"{head} | {tiles_id(gobj)} | {t2_fmt(gobj)}", "roi-tiles-dispatch-wrong",
                             {"gbox": [Ny, Nx], "how": repr(hobj), "_tiles": gtok}, f"a given _tiles is not used as is: {got}",
                             sig="gbt-init-oracle|given")
                elif htok.startswith(("q=[", "S=", "X=")) and not got.startswith("ERR:"):
                    R.oracle(tuple(int(v) for v in got.split(" | ")[2].split(" ")[0:3:2]) == (Ny, Nx), "roi-tiles-dispatch-wrong",
                             {"gbox": [Ny, Nx], "how": repr(hobj)}, f"regular tiling does not have the GeoBox as its base: {got}",
                             sig="gbt-init-oracle|reg-base")


# ------------------------------------------------------------------ 4. planes_yx(yx_roi), WindowFromSlice, roi_shape
def small_stream(R: Run, Rm, BlockAssembler):
    yxs = [("N", None), ("[s:0:1,i:1]", (slice(0, 1), 1)), ("[s:N:N,s:1:N]", (slice(None), slice(1, None))), ("[i:-1,i:0]", [-1, 0]),
           ("[i:1]", (1,)), ("[i:1,i:2,i:3]", (1, 2, 3)), ("[]", ())]
    for lead in ([], [2], [3], [2, 3], [0], [1, 2]):
        for trail in ([], [2], [1, 2]):
            a = len(lead)
            blocks = {(0, 0): _blk((*lead, 2, 2, *trail))}
            for tok, yx in yxs:
                res = []

                def f():
                    asm = BlockAssembler(blocks, ((2,), (2,)), axis=a)
                    planes = list(asm.planes_yx(yx))
                    res.append(planes)
                    return list_s(["(" + ";".join(enc(v) if k in (a, a + 1) else str(int(v)) for k, v in enumerate(p)) + ")"
                                   for p in planes])

                C(R, f"c04 planesw {ints(lead)} {ints(trail)} {tok}", f, f"planes-roi|{'none' if yx is None else len(yx)}")
                if res and yx is not None:
                    planes = res[0]
                    n = int(np.prod(lead + trail)) if (lead or trail) else 1
                    ok = len(planes) == n and len({repr(p) for p in planes}) == n and all(
                        tuple(p[a:a + 2]) == tuple(yx) and len(p) == a + 2 + len(trail) for p in planes)
                    R.oracle(ok, "planes-yx-roi-wrong", {"lead": lead, "trail": trail, "yx": repr(yx)},
                             f"planes {planes[:4]}… are not the {n} distinct indices with {yx} at axis {a}", sig="planes-roi-oracle")
    # WindowFromSlice
    w = Rm.w_
    bounds = [None, 0, 1, 3, -1]

    def wfmt(r):
        return "N" if r is None else " ".join(f"{opt_s(a)};{opt_s(b)}" for a, b in r)

    for a_, b_, c_, d_ in itertools.product(bounds, repeat=4):
        roi = (slice(a_, b_), slice(c_, d_))
        got = C(R, f"c04 win [{enc(roi[0])},{enc(roi[1])}]", lambda: wfmt(w[roi]), "window|pair")
        want = f"{0 if a_ is None else a_};{opt_s(b_)} {0 if c_ is None else c_};{opt_s(d_)}"
        R.oracle(got == want, "window-from-slice-wrong", {"roi": repr(roi)}, f"w_[roi] = {got}, want {want}", sig="window-oracle")
    for tok, roi in (("N", None), ("O", 5), ("O", slice(0, 1)), ("[s:0:1]", (slice(0, 1),)), ("[]", ()),
                     ("[s:0:1,s:0:1,s:0:1]", (slice(0, 1),) * 3), ("[s:1:2,s:3:4]", [slice(1, 2), slice(3, 4)]),
                     ("[i:1,i:2]", (1, 2)), ("[s:0:1,i:3]", (slice(0, 1), 3)), ("[i:3,s:0:1]", (3, slice(0, 1)))):
        C(R, f"c04 win {tok}", lambda: wfmt(w[roi]), f"window|{tok[0]}{len(tok)}")
    # roi_shape
    pidx = [0, -2, slice(1, 4), slice(None, 3), slice(2, None), slice(None, None), slice(4, 1), slice(-3, -1)]
    for p in pidx:
        C(R, f"c04 roishape 1={enc(p)}", lambda: ints(Rm.roi_shape(p)), "roi-shape|single")
        for q in pidx:
            C(R, f"c04 roishape t=[{enc(p)},{enc(q)}]", lambda: ints(Rm.roi_shape((p, q))), "roi-shape|tuple")
    C(R, "c04 roishape t=[]", lambda: ints(Rm.roi_shape(())), "roi-shape|tuple")
    C(R, "c04 roishape N", lambda: ints(Rm.roi_shape(None)), "roi-shape|none")
    C(R, "c04 roishape t=[i:1,s:0:2,s:N:5]", lambda: ints(Rm.roi_shape((1, slice(0, 2), slice(None, 5)))), "roi-shape|tuple")
    # a window of a normalised pair has the extent roi_shape reports
    for n in (0, 3, 5):
        for p in pidx:
            for q in pidx:
                try:
                    nr = Rm.roi_normalise((p, q), (n, n + 2))
                    (r0, r1), (c0, c1) = w[nr]
                    ok = (r1 - r0, c1 - c0) == tuple(Rm.roi_shape(nr))
                except Exception as e:  # pylint: disable=broad-except
                    ok = False
                    nr = repr(e)
                R.oracle(ok, "window-extent-ne-roi-shape", {"roi": repr((p, q)), "shape": [n, n + 2]}, f"normalised {nr}",
                         sig="window-extent-oracle")


# ------------------------------------------------------------------ 5. block keys that name one tile twice (pinned)
def negative_keys_stream(R: Run, BlockAssembler):
    """block keys are looked up like tuple indices: (-1, 0) and (T-1, 0) name one tile; both are pasted in mapping order,
    the later one is what the mosaic shows (theorem negative_key_later_block_wins_cex).  Outside the property's quantifier
    (keys are tile positions); the behaviour is pinned by the model == code correspondence of `extract`."""
    import itertools as it

    from .c04 import canon_cells, cell_vals, enc, ints

    rng = R.rng
    for chy, chx in (([1, 1], [1]), ([2, 1], [1, 2]), ([1, 2, 1], [2])):
        Ty, Tx = len(chy), len(chx)
        pos = [(r, c) for r in range(-Ty, Ty) for c in range(-Tx, Tx)]
        combos = [list(k) for k in it.permutations(pos, 2) if (k[0][0] % Ty, k[0][1] % Tx) == (k[1][0] % Ty, k[1][1] % Tx)]
        combos += [rng.sample(pos, 3) for _ in range(R.pick(6, 40))]
        for keys in combos:
            blocks = {k: cell_vals(100, k, [], chy[k[0]], chx[k[1]], []).astype("int16") for k in keys}
            wy, wx = slice(None), slice(None)
            line = (f"c04 asm {ints(chy)} {ints(chx)} {list_s([f'{k[0]};{k[1]}' for k in keys])} [] [] [] {enc(wy)} {enc(wx)} [] 100")

            def f():
                xx = BlockAssembler(blocks, (tuple(chy), tuple(chx))).extract(0)
                return f"[] {xx.shape[0]} {xx.shape[1]} [] {canon_cells(xx)}"

            R.corr(line, f, sig="asm|aliased-keys")


def args_stream(R: Run, Rm, GeoBox, GeoboxTiles, BlockAssembler):
    verify_stream(R, BlockAssembler)
    spelling_stream(R, Rm, GeoBox, GeoboxTiles)
    dispatch_stream(R, Rm, GeoBox, GeoboxTiles)
    small_stream(R, Rm, BlockAssembler)
    negative_keys_stream(R, BlockAssembler)
