"""C09 — xarray geo-registration round-trips and survives array operations."""
from __future__ import annotations

import math
import pickle
from fractions import Fraction

import numpy as np

from .common import Run, frac_s, guarded, list_s, opt_s

META = {
    "claimed": True,
    "text": "Lean 4 theorems over a hand model of xr_coords / _extract_transform / _locate_geo_info / "
    "_xr_reproject_da/_ds: wrap->recover is the identity for axis-aligned (mirrored, 1xN, Nx1, 1x1 with CRS), "
    "rotated/sheared (every shape >= 1x1) and GCP geoboxes (point set and pixel transform); history theorem: "
    "after ANY finite sequence of positional slices (strided, reversed, open/negative bounds, down to one "
    "pixel), arithmetic, astype and pickling, on either location path of the CRS coordinate, the recovered "
    "GeoBox maps the centre of every kept pixel to the world position of the original pixel it came from and "
    "its coordinates are the array labels; reprojection output recovers exactly the destination GeoBox, has no "
    "SPATIAL_ATTRIBUTES key and grid_mapping=spatial_ref (DataArray and Dataset).  Growth round: the PUBLIC entry "
    "points from their arguments to their result — xr_reproject / .odc.reproject / .odc.output_geobox with a CRS "
    "destination are composed with the C11 model (Props/C09C11: options travel unchanged through the keyword "
    "dictionary, the destination is the grid compute_output_geobox gives for the RECOVERED source GeoBox, the GeoBox "
    "recovered from the result is that grid, covers the projected footprint box up to tol; DataArray, Dataset, "
    "wrap+history with no intermediate hypothesis); wrap_xr / xr_zeros argument forms (axis default, implicit new "
    "axis, the three asserts, time= forms, nodata, crs_coord_name=None) are modelled and proved to give the dims "
    "shape every theorem needs; recovery without axis labels (GeoTransform path), CRS in attributes, "
    "grid_mapping in attrs, .odc.nodata and the .geobox compatibility property are modelled and tied.  Tied to "
    "/repo and to the real xarray on every run by an exact correspondence (dyadic geoboxes x ranks x numpy/dask x "
    "random op sequences; exhaustive numpy validation of the slice spec; the OPTION MATRIX tight x anchor x "
    "resolution x shape x own/other CRS through xr_reproject for both container types; ranks 1..5 x axis x time "
    "forms through wrap_xr) and by a pixel-location oracle on arbitrary doubles, GCP boxes and real xr_reproject "
    "runs over CRS pairs.",
    "note": "Assumed: xarray keeps index-coordinate values/encoding/attrs under isel/arith/astype/pickle "
    "(exercised each run) and validates coordinates against dimensions when a DataArray is built; GCP polynomial "
    "fit is a function of the exported point set (equivariance under the pixel-side affine is an explicit "
    "hypothesis; sampled numerically).  Exact arithmetic; doubles are sampled with 1e-9 relative slack (exact == "
    "fails by ulps for non-dyadic resolutions); in the args->result stream the affine is elided where doubles are "
    "not exact (shape requests; tight / floating origins taken verbatim from the pyproj footprint once they pass "
    "through axis labels).  pyproj-derived inputs of the destination grid (footprint box, centre-pixel fit, unit "
    "equality, resolution of rotated boxes) are captured from the real run (spies of harness/c11.py at public names; "
    "when the fit is not intercepted the exact comparison of fit requests is skipped with a note).  Integer-indexing "
    "a spatial axis of a >2-D array is outside the statement.  xr_reproject_crs_history is proved for axis-aligned "
    "sources and xr_reproject_crs_history_any for every linear source outside the 1e-10 tolerance band (rotated / sheared "
    "included, no side condition); the Dataset-level recovery hypothesis of xr_reproject_ds_crs is discharged for Datasets "
    "whose variables share dims and coordinates (ds_view_recover, xr_reproject_ds_crs_shared; a Dataset with additional "
    "non-registered variables keeps the hypothesis).  The nodata range check of _xr_reproject_da (3030d9b) is modelled "
    "(nodata_range_check) and tied incl. lazy dask sources.  Known findings (registered, printed as KNOWN-FINDING): "
    "xr-zeros|scalar-time (repaired on branch fix3-C09; the harness probes the behaviour and switches between the as-found "
    "and the repaired model), survives|dropped-coords|stale-geotransform (GeoTransform not updated by slicing; "
    "dropped_coords_stale_cex), reproject|gcp-source|dask (dask warp asserts a linear source).  Integer shape requests "
    "are judged by the oracle only (pixel count decided by IEEE rounding at a ceil decision).",
    "technique": "Lean 4 proof over hand model + differential correspondence with real code and real xarray",
    "inventory": "Modelled (Model/C09.lean, C09Reproject.lean, C09Glue.lean): spatial_dims, _mk_crs_coord/_extract_crs/"
    "_extract_geo_transform/_extract_gcps (as the parsed CrsCoord record), _coord_to_xr/_mk_pixel_coord/xr_coords (linear + GCP), "
    "wrap_xr (all keyword forms: axis, time scalar/list/DataArray, nodata, crs_coord_name None, rank asserts), xr_zeros, assign_crs, "
    "_locate_crs_coords (encoding then attrs grid_mapping), data_resolution_and_offset, affine_from_axis, resolution_from_affine "
    "(ST branch), is_affine_st, _extract_transform (labels path, 1-pixel fallbacks, and the no-coordinate GeoTransform path), "
    "_locate_geo_info, _get_crs_from_attrs (candidate order over array / coordinate / Dataset attrs, parse failures, CRS objects, the "
    "set semantics), GCPGeoBox.gcps, GeoBox.coordinates, xr_reproject (kw dict construction, defaults), _extract_output_geobox_params, "
    "ODCExtension.output_geobox, _xr_reproject_da (guards, destination from GeoBox or CRS, src_nodata/dst_nodata defaulting as "
    "presence flags, assembly), _xr_reproject_ds/_maybe_reproject (incl. per-variable CRS guard and keyword travel), "
    "ODCExtensionDa.nodata, _xarray_geobox/register_geobox, xarray isel/arith/astype/pickle/copy/drop_vars as ops.  NOT modelled: "
    "resolution_from_affine's rotated branch (decompose_rws, needs sqrt; enters as a captured witness), Poly2d.fit / GCPMapping "
    "(pix2wld of GCP boxes: sampled; GCP sources ARE generated through xr_reproject(<CRS>) numpy-backed, their source resolution enters as a witness), mask / crop / "
    "rasterize / colorize / to_rgba / explore / write_cog wrappers (not part of the claim), ODCExtension accessor caching (exercised "
    "through the touched-accessor round trips), the VALUE of nodata (maybe_int of dst_nodata), the warp itself (rio_reproject / "
    "_dask_rio_reproject), ydim/xdim for non-adjacent spatial dims beyond the assert, non-numeric spatial coordinates (TypeError).",
    "design_ref": "DESIGN.md §4 C09",
}

CRSS = ["EPSG:4326", "EPSG:3857", "EPSG:32633", "EPSG:3577", None]


def _nodata_outside_dtype(arr, attrs, extra, dst_nodata) -> bool:
    """True when a nodata value in play (keyword, destination, attribute) cannot be represented by the array's dtype."""
    import numpy as _np
    if hasattr(arr, "dtype"):
        dts = [_np.dtype(arr.dtype)]
    elif hasattr(arr, "data_vars"):
        dts = [_np.dtype(v.dtype) for v in arr.data_vars.values()]
    else:
        return False
    return any(_nodata_outside(dt, attrs, extra, dst_nodata) for dt in dts)


def _nodata_outside(dt, attrs, extra, dst_nodata) -> bool:
    import numpy as _np
    vals = [dst_nodata]
    for d in (extra or {}), (attrs or {}):
        if isinstance(d, dict):
            vals += [d.get("src_nodata"), d.get("dst_nodata"), d.get("nodata"), d.get("_FillValue")]
    for v in vals:
        if v is None:
            continue
        try:
            f = float(v)
        except (TypeError, ValueError):
            continue
        if dt.kind in "iu":
            info = _np.iinfo(dt)
            if not (f == f and info.min <= f <= info.max):
                return True
        elif dt.kind == "f":
            fi = _np.finfo(dt)
            if f == f and abs(f) != float("inf") and not (fi.min <= f <= fi.max):
                return True
    return False


def _import():
    import warnings

    warnings.filterwarnings("ignore")
    from affine import Affine
    from odc.geo import xy_
    from odc.geo import xr as oxr
    from odc.geo.gcp import GCPGeoBox, GCPMapping
    from odc.geo.geobox import GeoBox

    return Affine, GeoBox, GCPGeoBox, GCPMapping, oxr, xy_


# ------------------------------------------------------------------ canonical text
def crs_s(crs) -> str:
    if crs is None:
        return "N"
    return f"{crs.epsg},{'T' if crs.geographic else 'F'}"


def aff_s(A) -> str:
    return ";".join(frac_s(v) for v in tuple(A)[:6])


def is_gcp(g) -> bool:
    from odc.geo.gcp import GCPGeoBox

    return isinstance(g, GCPGeoBox)


def gcp_private(g):
    """(pixel points, world points, pixel-side affine) of a GCPGeoBox read from its private attributes — the model's view of
    a GCP box; `None` when those attributes are not there (the exact GCP stream is then skipped, the public-API
    oracles stay)"""
    m = getattr(g, "_mapping", None)
    A = getattr(g, "_affine", None)
    pix, wld = getattr(m, "_pix", None), getattr(m, "_wld", None)
    if m is None or A is None or pix is None or wld is None:
        return None
    return pix, wld, A


def gcp_pts_s(pix, wld) -> str:
    return "|".join(";".join(frac_s(float(v)) for v in (p[0], p[1], w[0], w[1])) for p, w in zip(pix, wld))


def rec_s(r) -> str:
    if r is None:
        return "none"
    ny, nx = r.shape
    if is_gcp(r):
        pv = gcp_private(r)
        if pv is None:
            return f"G {ny} {nx} ? {crs_s(r.crs)} ?"
        return f"G {ny} {nx} {aff_s(pv[2])} {crs_s(r.crs)} {gcp_pts_s(pv[0], pv[1])}"
    return f"L {ny} {nx} {aff_s(r.affine)} {crs_s(r.crs)}"


def src_s(g) -> str:
    ny, nx = g.shape
    if is_gcp(g):
        pv = gcp_private(g)
        if pv is None:
            return f"G:{ny}:{nx}:?:{crs_s(g.crs)}:?"
        return f"G:{ny}:{nx}:{aff_s(pv[2])}:{crs_s(g.crs)}:{gcp_pts_s(pv[0], pv[1])}"
    return f"L:{ny}:{nx}:{aff_s(g.affine)}:{crs_s(g.crs)}"


def op_s(op) -> str:
    if op[0] == "s":
        return f"s:{op[1]}:{opt_s(op[2])}:{opt_s(op[3])}:{opt_s(op[4])}"
    if op[0] == "i":
        return f"i:{op[1]}:{op[2]}"
    return op[0][0]


def labels_s(xx, dim) -> str:
    if dim in xx.coords and xx.coords[dim].ndim == 1 and xx.coords[dim].dtype.kind == "f":
        return list_s([frac_s(float(v)) for v in xx.coords[dim].values])
    return "-"


def arr_s(xx) -> str:
    sd = xx.odc.spatial_dims
    lab = f"{labels_s(xx, sd[0])} {labels_s(xx, sd[1])}" if sd is not None else "- -"
    return f"{rec_s(xx.odc.geobox)} {list_s(xx.dims)} {lab} {opt_s(xx.encoding.get('grid_mapping'))}"


def rec_noaff_s(r) -> str:
    """recovered linear geobox with the affine elided (shape requests: span / n is not exact in doubles)"""
    if r is None or is_gcp(r):
        return rec_s(r)
    ny, nx = r.shape
    return f"L {ny} {nx} * {crs_s(r.crs)}"


def out_s(xx, full=True) -> str:
    return (f"{rec_s(xx.odc.geobox) if full else rec_noaff_s(xx.odc.geobox)} {list_s(xx.dims)} {list_s(sorted(map(str, xx.attrs)))} "
            f"{opt_s(xx.encoding.get('grid_mapping'))} {list_s(sorted(map(str, xx.coords)))}")


def ds_s(out) -> str:
    """Dataset: attrs, dataset-level recovered geobox, coordinate names, then per variable
    recovered geobox / dims / attrs / grid_mapping"""
    def var_s(v):
        return (f"{rec_s(v.odc.geobox)} {list_s(v.dims)} {list_s(sorted(map(str, v.attrs)))} "
                f"{opt_s(v.encoding.get('grid_mapping'))}")

    return (f"{list_s(sorted(map(str, out.attrs)))} {rec_s(out.odc.geobox)} {list_s(sorted(map(str, out.coords)))} "
            + " ".join(f"{nm}={var_s(out[nm])}" for nm in out.data_vars))


# ------------------------------------------------------------------ real-side construction
CHUNK_MODES = ["half", "single", "small"]


def make_xx(oxr, g, nt, nb, dask=False, dtype="int16", cn="spatial_ref", route="wrap", axis=None, chunk_mode="half", **attrs):
    """registration routes / keywords: wrap_xr(crs_coord_name=, axis=, time=, nodata=, **attrs),
    xr_zeros(chunks=, time=, crs_coord_name=), wrap_xr(crs_coord_name=None) + .odc.assign_crs(crs, crs_coord_name=)"""
    ny, nx = g.shape
    shape = (*(() if nt is None else (nt,)), ny, nx, *(() if nb is None else (nb,)))
    chunks = (tuple(max(1, (s + 1) // 2) for s in shape) if chunk_mode == "half" else tuple(shape) if chunk_mode == "single"
              else tuple(min(2, max(1, s)) for s in shape))
    time = None if nt is None else [f"2020-01-{i + 1:02d}" for i in range(nt)]
    if route == "zeros" and nb is None:
        return oxr.xr_zeros(g, dtype=dtype, chunks=chunks if dask else None, time=time, crs_coord_name=cn, **attrs)
    if dask:
        import dask.array as da

        im = da.zeros(shape, dtype=dtype, chunks=chunks)
    else:
        im = np.zeros(shape, dtype=dtype)
    kw = {} if axis is None else {"axis": axis}
    if route == "assign":
        xx = oxr.wrap_xr(im, g, time=time, crs_coord_name=None, **kw, **attrs)
        return xx.odc.assign_crs(g.crs, crs_coord_name=cn)
    return oxr.wrap_xr(im, g, time=time, crs_coord_name=cn, **kw, **attrs)


def cache_history(rng, *crss):
    """process-global cache histories that user code may create before the call under test:
    transformers for the pair in both axis orders, CRS objects with / without `.epsg` having been read"""
    from odc.geo.crs import CRS

    objs = []
    for c in crss:
        if c is None:
            continue
        o = c if isinstance(c, CRS) else (CRS(c) if not str(c).lower().startswith("utm") else None)
        if o is not None:
            objs.append(o)
            if rng.random() < 0.5:
                _ = o.epsg
    if len(objs) >= 2 and rng.random() < 0.7:
        a, b = objs[0], objs[1]
        for xy in rng.sample([False, True], rng.randint(1, 2)):
            try:
                a.transformer_to_crs(b, always_xy=xy)
                if rng.random() < 0.5:
                    b.transformer_to_crs(a, always_xy=xy)
            except Exception:  # pylint: disable=broad-except
                pass


def apply_ops(xx, ops, flip=[0]):
    for op in ops:
        if op[0] == "s":
            xx = xx.isel({op[1]: slice(op[2], op[3], op[4])})
        elif op[0] == "i":
            xx = xx.isel({op[1]: op[2]})
        elif op[0] == "arith":
            flip[0] += 1
            xx = xx * 2 if flip[0] % 2 else xx + np.ones(xx.shape, dtype=xx.dtype)
        elif op[0] == "type":
            xx = xx.astype("float32" if xx.dtype != np.float32 else "int32")
        elif op[0] == "pickle":
            xx = roundtrip(xx, op[1] if len(op) > 1 else "pickle", op[2] if len(op) > 2 else False)
    return xx


RT_KINDS = ["pickle", "copy", "deepcopy", "xcopy", "xcopy-deep"]


def roundtrip(xx, kind="pickle", touch=False):
    """serialisation / copy round trip of the xarray object (the model's identity op `p`); with `touch` the
    `.odc` accessor is read first, so the cached accessor (and the GeoBox inside it) travels along"""
    import copy

    if touch:
        _ = xx.odc.geobox
    if kind == "pickle":
        return pickle.loads(pickle.dumps(xx))
    if kind == "copy":
        return copy.copy(xx)
    if kind == "deepcopy":
        return copy.deepcopy(xx)
    if kind == "xcopy":
        return xx.copy(deep=False)
    return xx.copy(deep=True)


def rnd_bound(rng, n):
    r = rng.random()
    if r < 0.3:
        return None
    return rng.randint(-n - 2, n + 2)


def rnd_ops(rng, dims0, sizes, allow_spatial_int, maxlen=8):
    """random op sequence; tracks current dims/sizes so most slices stay non-empty"""
    dims = list(dims0)
    sizes = dict(sizes)
    sdims = set(dims0[-3:-1] if dims0[-1] == "band" else dims0[-2:])
    ops = []
    for _ in range(rng.randint(0, maxlen)):
        r = rng.random()
        if r < 0.55 and dims:
            d = rng.choice(dims if rng.random() < 0.25 else [x for x in dims if x in sdims] or dims)
            n = sizes[d]
            step = rng.choice([None, 1, 1, 2, 3, -1, -1, -2, -3, 5] + ([0] if rng.random() < 0.02 else []))
            a, b = rnd_bound(rng, n), rnd_bound(rng, n)
            ops.append(("s", d, a, b, step))
            if step != 0:
                sizes[d] = len(range(*slice(a, b, step).indices(n)))
        elif r < 0.65 and dims:
            cands = [d for d in dims if d not in sdims or allow_spatial_int]
            if rng.random() < 0.03:
                cands = ["time"]  # possibly absent -> ValueError on both sides
            if not cands:
                continue
            d = rng.choice(cands)
            n = sizes.get(d, 1)
            k = rng.randint(-n, n - 1) if n > 0 and rng.random() < 0.95 else rng.randint(-n - 3, n + 3)
            ops.append(("i", d, k))
            if d in dims and -n <= k < n:
                dims.remove(d)
            elif d in dims:
                break  # IndexError ends the history
            else:
                break
        elif r < 0.75:
            ops.append(("arith",))
        elif r < 0.83:
            ops.append(("type",))
        else:
            ops.append(("pickle", rng.choice(RT_KINDS), rng.random() < 0.6))
    return ops


def orig_index(ops, dims0, sizes):
    """numpy as the oracle for 'which original pixel is result pixel k' (None once dropped)"""
    idx = {d: np.arange(sizes[d]) for d in dims0}
    for op in ops:
        if op[0] == "s" and op[1] in idx and idx[op[1]] is not None:
            idx[op[1]] = idx[op[1]][slice(op[2], op[3], op[4])]
        elif op[0] == "i" and op[1] in idx:
            idx[op[1]] = None
    return idx


# ------------------------------------------------------------------ generators
def exact_geobox(rng, Affine, GeoBox, kind, shape=None):
    ny, nx = shape or (rng.choice([1, 1, 2, 3, 5, 8, 12]), rng.choice([1, 1, 2, 3, 4, 7, 11]))
    crs = rng.choice(CRSS)
    tx = rng.randint(-4000000, 4000000) / 4
    ty = rng.randint(-4000000, 4000000) / 4
    if kind in ("north-up", "mirrored"):
        r = rng.choice([1, 2, 10, 30, 0.25, 0.5, 2.5, 100, 0.125])
        ry = rng.choice([r, r, r * 2])
        sx, sy = (1, -1) if kind == "north-up" else rng.choice([(-1, -1), (1, 1), (-1, 1)])
        A = Affine(sx * r, 0, tx, 0, sy * ry, ty)
    elif kind == "rotated":
        a, b = rng.choice([(3, 4), (4, 3), (0, 1), (5, 12), (0.75, 1), (8, 6), (0, 30)])
        s = rng.choice([1, -1])
        A = Affine(a, b, tx, s * b, -s * a, ty) if rng.random() < 0.5 else Affine(a, -b, tx, b, a, ty)
    elif kind == "tiny-rot":
        # tiny but non-zero rotation / shear around the 1e-10 tolerance of is_affine_st (dyadic: 2**-20 .. 2**-40),
        # small pixels (degrees), larger shapes
        r = 2.0 ** -rng.choice([19, 16, 12])
        b = rng.choice([1, -1]) * 2.0 ** -rng.randint(20, 40)
        d = rng.choice([0, -b, b, rng.choice([1, -1]) * 2.0 ** -rng.randint(20, 40)])
        if shape is None:
            ny, nx = rng.choice([3, 40, 300]), rng.choice([5, 64, 500])
        A = Affine(r, b, 151.25, d, -r, -33.75)
        crs = rng.choice(["EPSG:4326", "EPSG:4326", "EPSG:3857", None])
    elif kind == "small-angle":
        # rotated / sheared at every pixel-size scale (2**-19 deg ... 2**16 m) x small slopes (2**-12 ... 2**-4):
        # dyadic off-diagonal terms from ~1e-10 up to ~4e3
        e = rng.randint(-19, 16)
        r = 2.0 ** e
        b = rng.choice([1, -1]) * 2.0 ** (e - rng.randint(4, 12))
        d = rng.choice([0, -b, b, b / 2])
        if shape is None:
            ny, nx = rng.choice([2, 9, 60]), rng.choice([3, 17, 80])
        ox = 151.25 if e < -8 else 8192.0 * rng.randint(-60, 60)
        oy = -33.75 if e < -8 else 8192.0 * rng.randint(-60, 60)
        A = Affine(r, b, ox, d, -r, oy)
        crs = rng.choice(["EPSG:4326", None]) if e < -8 else rng.choice(["EPSG:3857", "EPSG:32633", None])
    else:  # sheared
        A = Affine(rng.choice([1, 2, 10]), rng.choice([0.5, -1, 3]), tx, rng.choice([0, 0, 0.25]), rng.choice([-1, -2, 10]), ty)
    return GeoBox((ny, nx), A, crs)


def float_geobox(rng, Affine, GeoBox, kind):
    ny, nx = rng.choice([1, 2, 3, 7, 16, 33]), rng.choice([1, 2, 5, 9, 20, 41])
    crs = rng.choice(CRSS)
    if rng.random() < 0.25 and kind in ("north-up", "mirrored"):
        # near-integer lattice: resolutions / origins a hair away from integers and half-integers, small
        # magnitudes, so that any "snap to integer within 1e-10" clean-up shows above the 1e-12 slack
        eps = rng.choice([1e-6, 1e-9, 1e-10, 1e-11, 2.0 ** -40]) * rng.choice([1, -1])
        r = rng.choice([1, 2, 30, 0.5]) + eps
        tx = rng.choice([0, 3, -7, 0.5]) + rng.choice([1e-10, -1e-11, 1e-9, 0]) 
        ty = rng.choice([0, 12, -1, 0.5]) + rng.choice([1e-10, -1e-11, 1e-9, 0])
        sx = -1 if kind == "mirrored" else 1
        return GeoBox((ny, nx), Affine(sx * r, 0, tx, 0, -r, ty), crs)
    if crs == "EPSG:4326":
        r = rng.choice([0.00025, 1 / 3, 0.1, 0.02, rng.uniform(1e-4, 1)])
        tx, ty = rng.uniform(-170, 150), rng.uniform(-60, 80)
    else:
        r = rng.choice([30, 10, 0.3, 1 / 3, 250, rng.uniform(0.1, 1000)])
        tx, ty = rng.uniform(-5e6, 5e6), rng.uniform(-8e6, 8e6)
    if kind == "north-up":
        A = Affine(r, 0, tx, 0, -r * rng.choice([1, 1, 1.7]), ty)
    elif kind == "mirrored":
        A = Affine(-r, 0, tx, 0, r, ty)
    elif kind == "rotated":
        A = Affine.translation(tx, ty) * Affine.rotation(rng.uniform(1, 359)) * Affine.scale(r, -r)
    elif kind == "tiny-rot":
        # off-diagonal terms anywhere in 1e-14 .. 1e-4: small pixel sizes x small angles, on large shapes,
        # so that a label-based (rotation-less) recovery would be off by more than 0.01 px
        ny, nx = rng.choice([600, 1500, 4000]), rng.choice([800, 2500, 5000])
        r = rng.choice([2e-6, 1e-5, 2.5e-4]) if crs == "EPSG:4326" else rng.choice([0.05, 0.3, 30])
        off = 10 ** rng.uniform(-14, -4)
        ang = min(off / r, 0.3)
        if rng.random() < 0.5:
            A = Affine.translation(tx, ty) * Affine.rotation(math.degrees(ang) * rng.choice([1, -1])) * Affine.scale(r, -r)
        else:
            A = Affine(r, off * rng.choice([1, -1]), tx, rng.choice([0, off / 3]), -r, ty)
    elif kind == "small-angle":
        # every pixel-size scale (1e-6 deg ... 1e5 m) x small angles (0.01 ... 5 deg): off-diagonals 1e-10 ... 1e4
        ny, nx = rng.choice([40, 600, 2000]), rng.choice([50, 800, 3000])
        r = 10 ** rng.uniform(-6, -1) if crs == "EPSG:4326" else 10 ** rng.uniform(-2, 5)
        ang = 10 ** rng.uniform(-2, math.log10(5)) * rng.choice([1, -1])
        if crs != "EPSG:4326":
            tx, ty = rng.uniform(-5e6, 5e6), rng.uniform(-8e6, 8e6)
        if rng.random() < 0.7:
            A = Affine.translation(tx, ty) * Affine.rotation(ang) * Affine.scale(r, -r)
        else:
            A = Affine.translation(tx, ty) * Affine.shear(ang, rng.choice([0, ang / 2])) * Affine.scale(r, -r)
    else:
        A = Affine.translation(tx, ty) * Affine.shear(rng.uniform(-30, 30), rng.uniform(-10, 10)) * Affine.scale(r, -r)
    return GeoBox((ny, nx), A, crs)


def gcp_geobox(rng, mods, exact, allow_slice=True):
    Affine, GeoBox, GCPGeoBox, GCPMapping, oxr, xy_ = mods
    ny, nx = rng.choice([4, 6, 9]), rng.choice([5, 8, 10])
    crs = rng.choice(["EPSG:4326", "EPSG:32633"])
    gx = [0.0, nx * 0.5 + 0.25, float(nx)]
    gy = [0.0, ny * 0.25 + 0.125, float(ny)]  # never the centroid (norm_xy divides by the distance to it)
    pix = [(x, y) for x in gx for y in gy]
    if exact:
        wld = [(100 + 2 * x + 0.25 * y, 50 - 2 * y + 0.5 * x) for x, y in pix]
    else:
        k = rng.uniform(0.001, 0.01)
        wld = [(100 + 0.2 * x + k * x * y, 50 - 0.2 * y + k * x * x) for x, y in pix]
    m = GCPMapping(np.asarray(pix, dtype="float64"), np.asarray(wld, dtype="float64"), crs)
    g = GCPGeoBox((ny, nx), m)
    if allow_slice and rng.random() < 0.5:
        y0, x0 = rng.randint(0, ny - 2), rng.randint(0, nx - 2)
        g = g[y0:rng.randint(y0 + 1, ny), x0:rng.randint(x0 + 1, nx)]
    return g


def sizes_of(g, nt, nb):
    ny, nx = g.shape
    yd, xd = g.dimensions
    dims = (*(() if nt is None else ("time",)), yd, xd, *(() if nb is None else ("band",)))
    sizes = {yd: ny, xd: nx}
    if nt is not None:
        sizes["time"] = nt
    if nb is not None:
        sizes["band"] = nb
    return dims, sizes


ST_TOL = 1e-10  # documented tolerance of is_affine_st: below it a box is *treated as* axis-aligned


def klass(g) -> str:
    if is_gcp(g):
        return "gcp"
    A = g.affine
    if abs(A.b) < ST_TOL and abs(A.d) < ST_TOL:
        return "north-up" if (A.a > 0 and A.e < 0) else "mirrored"
    return "rotated"


def band_allow(g):
    """world displacement the documented 1e-10 tolerance of is_affine_st may cause (0 unless 0 < |b|,|d| < 1e-10)"""
    if is_gcp(g):
        return Fraction(0)
    A = g.affine
    if abs(A.b) < ST_TOL and abs(A.d) < ST_TOL and (A.b != 0 or A.d != 0):
        return abs(Fraction(A.b)) * (g.shape[0] + 1) + abs(Fraction(A.d)) * (g.shape[1] + 1)
    return Fraction(0)


# ------------------------------------------------------------------ oracle: pixel locations
def fr_apply(A, x, y):
    a, b, c, d, e, f = (Fraction(v) for v in tuple(A)[:6])
    return a * x + b * y + c, d * x + e * y + f


def location_oracle(R: Run, g, xx, ops, dims, sizes, case, tag, exact):
    """recovered geobox maps the centre of every kept pixel to where the original had it,
    and its coordinates agree with the array's labels"""
    yd, xd = g.dimensions
    idx = orig_index(ops, dims, sizes)
    if idx[yd] is None or idx[xd] is None:
        return
    cls = klass(g)
    one_px = "|1px" if (len(idx[yd]) == 1 or len(idx[xd]) == 1) else ""
    key = f"survives|{cls}{one_px}" if ops else f"roundtrip|{cls}{one_px}"
    if len(idx[yd]) == 0 or len(idx[xd]) == 0:
        return
    try:
        r = xx.odc.geobox
    except Exception as e:  # pylint: disable=broad-except
        R.oracle(False, key + "|raises", case, f".odc.geobox raised {type(e).__name__}: {e}")
        return
    if r is None:
        # allowed only without a GeoTransform to fall back on (no CRS coordinate, or one written by assign_crs) and with
        # a one-pixel axis of world labels
        ok = (g.crs is None or case.get("route") == "assign") and one_px != "" and cls != "rotated"
        R.oracle(ok, key + "|lost", case, "geobox is None after " + tag, trivial=ok)
        return
    ok_shape = tuple(r.shape) == (len(idx[yd]), len(idx[xd]))
    R.oracle(ok_shape, key + "|shape", case, f"recovered shape {tuple(r.shape)} for kept {len(idx[yd])}x{len(idx[xd])}")
    if not ok_shape:
        return
    ok_crs = (r.crs == g.crs) if g.crs is not None else r.crs is None
    R.oracle(ok_crs, key + "|crs", case, f"recovered crs {r.crs} original {g.crs}")
    ii = sorted({0, len(idx[yd]) - 1, len(idx[yd]) // 2})
    jj = sorted({0, len(idx[xd]) - 1, len(idx[xd]) // 2})
    worst = 0.0
    bad = None
    for i in ii:
        for j in jj:
            oi, oj = int(idx[yd][i]), int(idx[xd][j])
            if cls == "gcp":
                wx, wy = g.pix2wld(oj + 0.5, oi + 0.5)
                gx, gy = r.pix2wld(j + 0.5, i + 0.5)
                scale = max(abs(float(wx)), abs(float(wy)), 1.0)
                err = max(abs(float(gx) - float(wx)), abs(float(gy) - float(wy))) / scale
                lim = 1e-7
            else:
                wx, wy = fr_apply(g.affine, Fraction(2 * oj + 1, 2), Fraction(2 * oi + 1, 2))
                gx, gy = fr_apply(r.affine, Fraction(2 * j + 1, 2), Fraction(2 * i + 1, 2))
                px = max(abs(Fraction(v)) for v in tuple(g.affine)[:2] + tuple(g.affine)[3:5]) or 1
                scale = max(abs(wx), abs(wy), px * max(g.shape), 1)
                err = float(max(max(abs(gx - wx), abs(gy - wy)) - band_allow(g), 0) / scale)
                lim = 0.0 if exact else 1e-12
            if err > lim and err > worst:
                worst, bad = err, (i, j, oi, oj, float(gx), float(gy), float(wx), float(wy))
    if bad is not None and cls != "gcp":
        pxs = float(max(abs(Fraction(v)) for v in tuple(g.affine)[:2] + tuple(g.affine)[3:5]) or 1)
        case = dict(case, displacement_px=max(abs(bad[4] - bad[6]), abs(bad[5] - bad[7])) / pxs)
    R.oracle(bad is None, key, case,
             f"pixel (row,col)={bad[:2] if bad else None} (original {bad[2:4] if bad else None}) is mapped to "
             f"{bad[4:6] if bad else None} but was at {bad[6:] if bad else None} (rel err {worst:.3g}) after {tag}")
    # labels agree
    if cls in ("north-up", "mirrored") and r.axis_aligned:
        for dim, n in ((yd, len(idx[yd])), (xd, len(idx[xd]))):
            lab = np.asarray(xx.coords[dim].values, dtype="float64")
            rc = np.asarray(r.coords[dim].values, dtype="float64")
            scale = max(float(np.abs(lab).max()), 1.0)
            d = float(np.abs(lab - rc).max()) / scale
            R.oracle(d <= (0.0 if exact else 1e-12), f"labels-agree|{cls}{one_px}", case,
                     f"coordinates of the recovered geobox differ from the labels of {dim} by rel {d:.3g}")
    elif cls in ("rotated", "gcp"):
        for dim, ix in ((yd, idx[yd]), (xd, idx[xd])):
            lab = np.asarray(xx.coords[dim].values, dtype="float64")
            R.oracle(bool(np.array_equal(lab, ix + 0.5)), f"labels-agree|{cls}|pixel", case,
                     f"pixel-space labels of {dim} are {lab[:4]}.. expected original index + 0.5 = {(ix + 0.5)[:4]}..")


def roundtrip_oracle(R: Run, g, yy, case):
    """pickle / copy / deepcopy of the array — before and after the accessor was touched — must not change what
    `.odc` recovers (GeoBox incl. pixel transform, CRS, GCPs) nor the labels"""
    cls = klass(g)
    try:
        before = arr_s(yy)
    except Exception:  # pylint: disable=broad-except
        return
    for kind in RT_KINDS:
        for touch in (True, False):
            try:
                zz = roundtrip(yy, kind, touch)
                after = arr_s(zz)
            except Exception as e:  # pylint: disable=broad-except
                after = f"raised {type(e).__name__}: {e}"
            R.oracle(after == before, f"roundtrip-preserves|{cls}|{kind}", dict(case, roundtrip=kind, accessor_touched=touch),
                     f"{kind} round trip ({'after' if touch else 'before'} .odc was read) changes the registration: "
                     f"{before[:160]} -> {after[:160]}")


def roundtrip_eq_oracle(R: Run, g, xx, case, exact):
    """no-op history: recovered geobox equals the original"""
    cls = klass(g)
    one_px = "|1px" if 1 in tuple(g.shape) else ""
    key = f"roundtrip-eq|{cls}{one_px}"
    r = xx.odc.geobox
    if r is None:
        ok = (g.crs is None or case.get("route") == "assign") and one_px != "" and cls != "rotated"
        R.oracle(ok, key + "|lost", case, "geobox is None right after wrap_xr", trivial=ok)
        return
    if cls == "gcp":
        # equality of GCP geoboxes is by identity of the mapping (shared finding K2, owned by C19):
        # compare shape, pixel transform and the GCP point set instead
        # through the public API: the control points exported in the pixel frame of each box must coincide
        def pts(b):
            return np.asarray([(p.row, p.col, p.x, p.y) for p in b.gcps()], dtype="float64")

        try:
            pr, pg = pts(r), pts(g)
            ok = (is_gcp(r) and tuple(r.shape) == tuple(g.shape) and r.crs == g.crs and pr.shape == pg.shape
                  and np.allclose(pr, pg, rtol=1e-12, atol=1e-9))
            what = f"recovered {r!r} control points {pr.tolist()[:2]} differ from the original's {pg.tolist()[:2]}"
        except Exception as e:  # pylint: disable=broad-except
            ok, what = False, f"comparing control points raised {e!r}"
        R.oracle(ok, key, case, what)
        return
    inband = band_allow(g) > 0
    if exact and not inband:
        ok = r == g
    elif exact:
        A = g.affine
        ok = r == type(g)(g.shape, type(A)(A.a, 0, A.c, 0, A.e, A.f), g.crs)
    else:
        px = max(abs(v) for v in tuple(g.affine)[:2] + tuple(g.affine)[3:5]) or 1.0
        # labels are doubles: the pixel size read back from them is quantised by the ulp of the coordinates
        ulp = max(abs(g.affine.c), abs(g.affine.f), px * max(g.shape)) * 2.0 ** -52
        tol_lin = 1e-9 * px + 8 * ulp / max(1, min(g.shape) - 1)
        tol_off = 1e-9 * max(abs(g.affine.c), abs(g.affine.f), px * max(g.shape), 1.0)
        A, B = tuple(g.affine)[:6], tuple(r.affine)[:6]
        ok = (tuple(r.shape) == tuple(g.shape) and r.crs == g.crs
              and all(abs(A[i] - B[i]) <= tol_lin + (ST_TOL if inband and i in (1, 3) else 0) for i in (0, 1, 3, 4))
              and all(abs(A[i] - B[i]) <= tol_off for i in (2, 5)))
    R.oracle(bool(ok), key, case, f"wrap_xr -> .odc.geobox gives {r!r}, original {g!r}")


# ------------------------------------------------------------------ run
def run(R: Run):
    mods = _import()
    Affine, GeoBox, GCPGeoBox, GCPMapping, oxr, xy_ = mods
    rng = R.rng

    # --- spec validation: stepped slice semantics vs numpy (reference semantics, not odc-geo)
    NM = R.pick(5, 7)
    bnds = [None] + list(range(-NM - 2, NM + 3))
    for n in range(0, NM + 1):
        X = np.arange(n)
        for a in bnds:
            for b in bnds:
                for st in (1, 2, 3, -1, -2, -3):
                    R.corr(f"c09 sel {n} {opt_s(a)} {opt_s(b)} {st}", lambda: list_s(X[a:b:st].tolist()),
                           sig=f"spec-sel|{'pos' if st > 0 else 'neg'}")

    # --- the tolerance constant of is_affine_st (which boxes are written with world labels): inputs straddling 1e-10
    t10 = 1e-10
    offs = [0.0, 0.9e-10, t10, math.nextafter(t10, 0), math.nextafter(t10, 1), 1.1e-10, 1e-12, 1e-9, 1e-8, 1e-7, 1e-6, 1e-5, 1e-3,
            2.0 ** -34, 2.0 ** -33, 2.0 ** -20]
    from odc.geo.math import is_affine_st

    for b in offs:
        for d in offs[:8] + [2.0 ** -33]:
            for sb, sd in ((1, 1), (-1, 1), (1, -1)):
                A = Affine(2.0 ** -19, sb * b, 151.25, sd * d, -(2.0 ** -19), -33.75)
                R.corr(f"c09 isst {aff_s(A)}", lambda: "T" if is_affine_st(A) else "F",
                       sig="isst|" + ("band" if max(b, d) < t10 else "edge" if min(abs(b - t10), abs(d - t10)) < 1e-11 else "rot"))

    # --- corpus: the defects found for this property (fixed on branch fix-C09) stay as regression cases
    corpus(R, mods)

    # --- exact stream: wrap -> ops -> recover, compared with the model
    kinds = ["north-up", "mirrored", "rotated", "sheared", "gcp", "tiny-rot", "small-angle"]
    exact_kinds = list(kinds)
    if gcp_private(gcp_geobox(__import__("random").Random(1), mods, exact=True)) is None:
        exact_kinds.remove("gcp")
        R.notes.append("private attributes of GCPGeoBox / GCPMapping (_mapping, _affine, _pix, _wld) not found: the exact GCP "
                       "correspondence stream is skipped; GCP boxes stay covered by the public-API oracles of the float stream")
    small_shapes = [(1, 1), (1, 5), (5, 1), (2, 2), (1, 2), (2, 1), (3, 4)]
    cases = [(k, s) for k in kinds[:4] + ["tiny-rot"] for s in small_shapes]
    for _ in range(R.pick(220, 3000)):
        cases.append((rng.choice(exact_kinds), None))
    names = ["spatial_ref", "spatial_ref", "crs", "foo", "ref_1"]
    for kind, shp in cases:
        if kind == "gcp":
            g = gcp_geobox(rng, mods, exact=True)
        else:
            g = exact_geobox(rng, Affine, GeoBox, kind, shp)
        nt = rng.choice([None, None, 1, 2])
        nb = rng.choice([None, None, 3])
        dask = rng.random() < 0.3
        cn = rng.choice(names)
        route = "zeros" if (nb is None and rng.random() < 0.3) else "wrap"
        if kind != "gcp" and g.crs is not None and rng.random() < 0.15:
            route = "assign"  # wrap_xr(crs_coord_name=None) + .odc.assign_crs(crs, cn): modelled by `rta`
        dims, sizes = sizes_of(g, nt, nb)
        ops = [] if shp is not None and rng.random() < 0.5 else rnd_ops(rng, dims, sizes, nt is None and nb is None)
        line = f"c09 {'rta' if route == 'assign' else 'rt'} {src_s(g)} {opt_s(nt)} {opt_s(nb)} {cn} {list_s(ops, op_s)}"
        case = {"line": line, "dask": dask, "route": route}
        box = []

        def f():
            xx = make_xx(oxr, g, nt, nb, dask, cn=cn, route=route)
            box.append(xx)
            yy = apply_ops(xx, ops)
            box.append(yy)
            return arr_s(yy)

        sig = (f"rt|{kind if kind in ('tiny-rot', 'small-angle') else klass(g)}|{'1px|' if 1 in tuple(g.shape) else ''}ops{min(len(ops), 3)}"
               + ("|dask" if dask else "") + ("|name" if cn != "spatial_ref" else ""))
        R.corr(line, f, sig=sig)
        if len(box) == 2:
            if not ops:
                roundtrip_eq_oracle(R, g, box[1], case, exact=True)
            location_oracle(R, g, box[1], ops, dims, sizes, case, list_s(ops, op_s), exact=True)
            if not R.quick or len(R.lines) % 2 == 0:
                roundtrip_oracle(R, g, box[1], case)
            # ... and after every step of the history, not only at its end
            if ops and len(ops) <= 6:
                cur = box[0]
                for k in range(1, len(ops)):
                    try:
                        cur = apply_ops(cur, ops[k - 1:k])
                    except Exception:  # pylint: disable=broad-except
                        break
                    location_oracle(R, g, cur, ops[:k], dims, sizes, dict(case, step=k), list_s(ops[:k], op_s), exact=True)

    # --- float stream: arbitrary doubles, oracle only
    for _ in range(R.pick(250, 3400)):
        kind = rng.choice(kinds + ["tiny-rot"])  # `kinds` already holds tiny-rot and small-angle once
        g = gcp_geobox(rng, mods, exact=False) if kind == "gcp" else float_geobox(rng, Affine, GeoBox, kind)
        big = max(g.shape) > 100
        nt = rng.choice([None, None, 2]) if not big else None
        nb = rng.choice([None, None, 2]) if not big else None
        dims, sizes = sizes_of(g, nt, nb)
        ops = [] if rng.random() < 0.2 else rnd_ops(rng, dims, sizes, False)
        ops = [o for o in ops if not (o[0] == "s" and o[4] == 0)]
        # option matrix: CRS coordinate name, registration route, axis= / scalar-vs-list time
        cn = rng.choice(["spatial_ref", "spatial_ref", "crs", "foo"])
        route = rng.choice(["wrap", "wrap", "zeros", "assign"]) if g.crs is not None and kind != "gcp" else "wrap"
        axis = rng.choice([None, None, 0 if nt is None else 1])
        case = {"float": True, "geobox": src_s(g), "nt": nt, "nb": nb, "ops": list_s(ops, op_s), "crs_coord_name": cn,
                "route": route, "axis": axis}
        try:
            xx = make_xx(oxr, g, nt, nb, rng.random() < 0.2, cn=cn, route=route, axis=axis)
            yy = apply_ops(xx, ops)
        except (IndexError, ValueError):
            continue
        if route == "assign":
            # assign_crs writes no GeoTransform: one-pixel axes of world labels have no fallback (as without CRS)
            idx = orig_index(ops, dims, sizes)
            if klass(g) != "rotated" and any(v is not None and len(v) == 1 for v in (idx[g.dimensions[0]], idx[g.dimensions[1]])):
                continue
        if not ops:
            roundtrip_eq_oracle(R, g, yy, case, exact=False)
        location_oracle(R, g, yy, ops, dims, sizes, case, list_s(ops, op_s), exact=False)
        if not big and rng.random() < 0.5:
            roundtrip_oracle(R, g, yy, case)

    # --- reprojection output assembly
    reproject_part(R, mods)
    # --- reprojection to a CRS: arguments -> output grid -> assembled result (C09 x C11)
    reproject_crs_part(R, mods)
    # --- option forwarding
    options_part(R, mods)
    # --- argument forms of the registration entry points
    wrap_args_part(R, mods)
    # --- recovery paths outside wrap_xr's own output
    recovery_glue_part(R, mods)

    R.assumptions.append(
        "xarray keeps index-coordinate values, attrs and encoding of kept coordinates under isel / arithmetic / "
        "astype / pickle and drops the array's own encoding under arithmetic/astype (exercised against real xarray)")
    R.assumptions.append("numpy positional indexing is the oracle of Spec/PySliceStep (validated exhaustively for small n each run)")
    R.assumptions.append("GCP polynomial fit (numpy lstsq) is not modelled; GCP boxes are compared by point set, pixel transform and sampled pix2wld")


def corpus(R: Run, mods):
    Affine, GeoBox, GCPGeoBox, GCPMapping, oxr, xy_ = mods
    # F12: rotated 1xN / Nx1 / 1x1
    A = Affine(3, 4, 100, 4, -3, 200)
    for shape in [(1, 5), (5, 1), (1, 1)]:
        for crs in ("EPSG:3857", None):
            g = GeoBox(shape, A, crs)
            case = {"corpus": "F12", "geobox": src_s(g)}
            try:
                xx = make_xx(oxr, g, None, None)
                roundtrip_eq_oracle(R, g, xx, case, exact=True)
            except Exception as e:  # pylint: disable=broad-except
                R.oracle(False, "roundtrip-eq|rotated|1px|raises", case, repr(e))
    # GCP array sliced to one row
    rng = __import__("random").Random(5)
    g = gcp_geobox(rng, mods, exact=False, allow_slice=False)
    ny, nx = g.shape
    for ops in ([("s", g.dimensions[0], ny - 1, ny, None)], [("s", g.dimensions[1], 2, 3, None)],
                [("s", g.dimensions[0], 1, 2, None), ("s", g.dimensions[1], 3, 1, -1)]):
        dims, sizes = sizes_of(g, None, None)
        case = {"corpus": "gcp-1px", "geobox": src_s(g), "ops": list_s(ops, op_s)}
        try:
            yy = apply_ops(make_xx(oxr, g, None, None), ops)
            location_oracle(R, g, yy, ops, dims, sizes, case, list_s(ops, op_s), exact=False)
        except Exception as e:  # pylint: disable=broad-except
            R.oracle(False, "survives|gcp|1px|raises", case, repr(e))
    # pixel-space labels beyond 2**23 (dask-backed, never computed)
    n = 2 ** 23 + 5
    for g in (GeoBox((2, n), A, "EPSG:3857"),):
        dims, sizes = sizes_of(g, None, None)
        ops = [("s", "x", -3, None, None)]
        case = {"corpus": "pixel-labels-beyond-2^23", "geobox": src_s(g), "ops": list_s(ops, op_s), "dask": True}
        try:
            import dask.array as da

            xx = oxr.wrap_xr(da.zeros((2, n), dtype="uint8", chunks=(2, 2 ** 21)), g)
            roundtrip_eq_oracle(R, g, xx, case, exact=True)
            yy = apply_ops(xx, ops)
            location_oracle(R, g, yy, ops, dims, sizes, case, list_s(ops, op_s), exact=True)
        except Exception as e:  # pylint: disable=broad-except
            R.oracle(False, "survives|rotated|huge|raises", case, repr(e))


SPATIAL = ("crs", "crs_wkt", "grid_mapping", "gcps", "epsg")


# ------------------------------------------------------------------ argument forms of wrap_xr / xr_zeros / .odc.nodata / .geobox
def w_s(xx) -> str:
    return f"{arr_s(xx)} {list_s(sorted(map(str, xx.attrs)))} {list_s(sorted(map(str, xx.coords)))}"


def wrap_args_part(R: Run, mods):
    """wrap_xr(im, gbox, time=, nodata=, crs_coord_name=, axis=, **attrs) and xr_zeros(gbox, time=, ...) over their argument
    forms: every rank 1..5, axis in {absent, -1, 0, 1, 2}, time in {absent, scalar str, list, DataArray} of matching and
    non-matching length, nodata given or not, CRS-coordinate name given or None; accepted combinations must round-trip."""
    import xarray as xr

    Affine, GeoBox, GCPGeoBox, GCPMapping, oxr, xy_ = mods
    rng = R.rng
    g0 = GeoBox((3, 4), Affine(2, 0, 10, 0, -2, 20), "EPSG:3857")
    g1 = GeoBox((2, 5), Affine(0.25, 0, 14, 0, -0.25, 50), "EPSG:4326")
    g2 = GeoBox((3, 2), Affine(3, 4, 100, 4, -3, 200), "EPSG:32633")
    boxes = [g0, g1, g2]

    def time_arg(tok):
        if tok == "N":
            return None
        k, n = tok.split(":")
        if k == "s":
            return "2020-01-01"
        vals = [f"2020-01-{i + 1:02d}" for i in range(int(n))]
        if k == "l":
            return vals
        return xr.DataArray(np.asarray(vals, dtype="datetime64[ns]"), dims=("time",))

    cases = []
    # exhaustive small matrix on one box: ranks x axis x time forms
    ny, nx = g0.shape
    shapes = [(nx,), (ny, nx), (nx, ny), (1, ny, nx), (2, ny, nx), (ny, nx, 2), (ny, nx, 1), (2, ny, nx, 3), (ny, nx, 2, 2), (2, 2, ny, nx), (1, 2, ny, nx, 1)]
    for shape in shapes:
        for axis in (None, -1, 0, 1, 2):
            for ttok in ("N", "s:10", "l:1", "l:2", "l:3", "d:2", "d:1"):
                cases.append((g0, shape, ttok, axis, False, "spatial_ref", []))
    for _ in range(R.pick(60, 600)):
        g = rng.choice(boxes)
        ny, nx = g.shape
        nt = rng.choice([None, 1, 2, 3])
        nb = rng.choice([None, None, 1, 2])
        shape = (*(() if nt is None else (nt,)), ny, nx, *(() if nb is None else (nb,)))
        if rng.random() < 0.15:
            shape = tuple(rng.choice([ny, nx, 1, 2]) for _ in range(rng.randint(1, 4)))
        ttok = rng.choice(["N", "N", "s:10", f"l:{nt or 1}", f"l:{rng.randint(1, 3)}", f"d:{nt or 1}"])
        axis = rng.choice([None, None, None, 0, 1])
        cases.append((g, shape, ttok, axis, rng.random() < 0.4, rng.choice(["spatial_ref", "crs", None]),
                      [k for k in ("nodata", "units", "keep") if rng.random() < 0.3]))
    for g, shape, ttok, axis, nodata, cn, attrs in cases:
        line = (f"c09 wrapxr {src_s(g)} {list_s(shape)} {ttok} {opt_s(axis)} {'T' if nodata else 'F'} {opt_s(cn)} {list_s(attrs)}")
        box = []
        nd_val = rng.choice([0, 0.0, 7])  # falsy but meaningful values included

        def f():
            kw = {} if axis is None else {"axis": axis}
            if nodata:
                kw["nodata"] = nd_val
            xx = oxr.wrap_xr(np.zeros(shape, dtype="uint8"), g, time=time_arg(ttok), crs_coord_name=cn, **kw,
                             **{k: (3 if k == "nodata" else "v") for k in attrs if not (k == "nodata" and nodata)})
            box.append(xx)
            return w_s(xx)

        got = R.corr(line, f, sig=f"wrapxr|rank{len(shape)}|axis{opt_s(axis)}|time-{ttok.split(':')[0]}")
        if box:
            xx = box[0]
            case = {"wrap_xr": True, "line": line}
            # crs_coord_name=None: the CRS travels only in the `crs` attribute of world-space axis labels (axis-aligned boxes)
            want = g if (cn is not None or g.axis_aligned) else GeoBox(g.shape, g.affine, None)
            R.oracle(xx.odc.geobox == want, "wrap-xr|accepted-args-roundtrip", case,
                     f"wrap_xr accepted shape {shape}, time={ttok}, axis={axis} but .odc.geobox is {xx.odc.geobox!r}",
                     sig=f"wrapxr|rank{len(shape)}")
            R.oracle(tuple(xx.shape[xx.odc.ydim:xx.odc.ydim + 2]) == tuple(g.shape) and xx.odc.xdim == xx.odc.ydim + 1,
                     "wrap-xr|spatial-axes", case, f"dims {xx.dims} shape {xx.shape}")
    # xr_zeros.  A single time stamp: wrap_xr accepts it (one-step time axis); xr_zeros must as well (known finding
    # `xr-zeros|scalar-time` on trees without the repair of branch fix3-C09: the array is sized by len(str)).
    # The model has both behaviours (`zeros` as found, `zerosfix` as repaired); which one the tree has is probed.
    try:
        z = oxr.xr_zeros(g0, time="2020-01-01")
        zeros_fixed = tuple(z.shape) == (1, *g0.shape) and z.odc.geobox == g0
        what = f"shape {tuple(z.shape)}"
    except Exception as e:  # pylint: disable=broad-except
        zeros_fixed, what = False, f"{type(e).__name__}: {str(e)[:120]}"
    R.oracle(zeros_fixed, "xr-zeros|scalar-time", {"call": "xr_zeros(GeoBox((3,4), Affine(2,0,10,0,-2,20), 'EPSG:3857'), time='2020-01-01')"},
             f"wrap_xr(im, gbox, time='2020-01-01') gives a one-step time axis but xr_zeros(gbox, time='2020-01-01') -> {what}")
    zeros_op = "zerosfix" if zeros_fixed else "zeros"
    for _ in range(R.pick(40, 400)):
        g = rng.choice(boxes)
        ttok = rng.choice(["N", "N", "s:10", "l:1", "l:2", "l:3", "d:2"])
        cn = rng.choice(["spatial_ref", "crs", None])
        nodata = rng.random() < 0.4
        attrs = [k for k in ("units", "keep") if rng.random() < 0.3]
        dask = rng.random() < 0.3
        line = f"c09 {zeros_op} {src_s(g)} {ttok} {opt_s(cn)} {'T' if nodata else 'F'} {list_s(attrs)}"

        def f():
            kw = {"nodata": rng.choice([0, 7])} if nodata else {}
            ny, nx = g.shape
            nt = None if ttok == "N" else ((1 if zeros_fixed else 10) if ttok.startswith("s") else int(ttok.split(":")[1]))
            chunks = None if not dask else ((1, ny, nx) if nt is not None else (ny, nx))
            xx = oxr.xr_zeros(g, dtype="uint8", chunks=chunks, time=time_arg(ttok), crs_coord_name=cn, **kw, **{k: "v" for k in attrs})
            return w_s(xx)

        R.corr(line, f, sig=f"zeros|time-{ttok.split(':')[0]}" + ("|dask" if dask else ""))
    # .odc.nodata
    vals = {"-": "absent", "N": None, "0": 0, "7": 7, "-1/2": -0.5, "255": "255"}
    for a in vals:
        for b in vals:
            def f():
                attrs = {}
                if a != "-":
                    attrs["nodata"] = vals[a]
                if b != "-":
                    attrs["_FillValue"] = vals[b]
                xx = oxr.wrap_xr(np.zeros((3, 4)), g0, **attrs)
                v = xx.odc.nodata
                return "N" if v is None else frac_s(v)

            R.corr(f"c09 nodata {a} {b}", f, sig="nodata")
    # Dataset.geobox / DataArray.geobox after register_geobox(): first data variable with a geobox
    reg = getattr(oxr, "register_geobox", None)
    if reg is None:
        R.notes.append("odc.geo.xr.register_geobox not found: the `.geobox` compatibility property stream is skipped")
        return
    reg()
    for _ in range(R.pick(30, 300)):
        g = rng.choice(boxes)
        order = [rng.choice("gn") for _ in range(rng.randint(0, 4))]
        dims, sizes = sizes_of(g, None, None)
        ops = rnd_ops(rng, dims, sizes, False, maxlen=2)
        ops = [o for o in ops if o[0] != "i" and not (o[0] == "s" and o[4] == 0)]
        line = f"c09 dsgeobox {src_s(g)} N N spatial_ref {list_s(ops, op_s)} {list_s(order)}"

        def f():
            arr = apply_ops(make_xx(oxr, g, None, None), ops)
            dv = {}
            for i, o in enumerate(order):
                dv[f"v{i}"] = (arr * 2) if o == "g" else xr.DataArray(np.zeros(3), dims=("t",), coords={"t": ["u", "v", "w"]})
            ds = xr.Dataset(dv)
            return rec_s(ds.geobox)

        R.corr(line, f, sig=f"dsgeobox|{''.join(order) or 'empty'}")



# ------------------------------------------------------------------ recovery paths outside wrap_xr's own output
def recovery_glue_part(R: Run, mods):
    """(1) spatial coordinates dropped (arrays as rioxarray loads rotated / GCP sources): GeoTransform path of
    _extract_transform; (2) grid_mapping looked up in encoding first, then attrs; (3) CRS found in `crs` / `crs_wkt`
    attributes of the array, its spatial coordinates and the Dataset (_get_crs_from_attrs)."""
    import warnings

    import xarray as xr
    from odc.geo.crs import CRS

    Affine, GeoBox, GCPGeoBox, GCPMapping, oxr, xy_ = mods
    rng = R.rng
    kinds = ["north-up", "mirrored", "rotated", "sheared"] + (["gcp"] if gcp_private(gcp_geobox(__import__("random").Random(1), mods, exact=True)) is not None else [])
    for _ in range(R.pick(24, 600)):
        kind = rng.choice(kinds)
        g = gcp_geobox(rng, mods, exact=True) if kind == "gcp" else exact_geobox(rng, Affine, GeoBox, kind)
        nt = rng.choice([None, None, 2])
        nb = rng.choice([None, None, 3])
        cn = rng.choice(["spatial_ref", "crs", "foo"])
        dims, sizes = sizes_of(g, nt, nb)
        ops = rnd_ops(rng, dims, sizes, False, maxlen=3) if rng.random() < 0.6 else []
        ops = [o for o in ops if not (o[0] == "s" and o[4] == 0)]
        idx = orig_index(ops, dims, sizes)
        if any(v is not None and len(v) == 0 for v in idx.values()):
            ops = []  # empty arrays: nothing to locate
        yd, xd = g.dimensions
        drop = rng.choice([[yd, xd], [yd, xd], [xd], [yd], [xd, yd]])
        line = f"c09 rtdrop {src_s(g)} {opt_s(nt)} {opt_s(nb)} {cn} {list_s(ops, op_s)} {list_s(drop)}"
        box = []

        def f():
            yy = apply_ops(make_xx(oxr, g, nt, nb, rng.random() < 0.2, cn=cn), ops).drop_vars(drop)
            box.append(yy)
            return rec_s(yy.odc.geobox)

        R.corr(line, f, sig=f"rtdrop|{klass(g)}|{'crs' if g.crs is not None else 'nocrs'}|drop{len(drop)}|ops{min(len(ops), 2)}")
        if box and ops and g.crs is not None and kind != "gcp":
            # the property itself on label-less arrays: every kept pixel still where it was.  Fails whenever the history
            # moved the origin or the stride: the GeoTransform on the CRS coordinate is not touched by slicing
            # (known finding `survives|dropped-coords|stale-geotransform`, Lean: dropped_coords_stale_cex)
            idx = orig_index(ops, dims, sizes)
            r = None
            try:
                r = box[0].odc.geobox
            except Exception:  # pylint: disable=broad-except
                pass
            iy, ix = idx.get(yd), idx.get(xd)
            if r is not None and iy is not None and ix is not None and len(iy) and len(ix) and tuple(r.shape) == (len(iy), len(ix)):
                bad = None
                for i in sorted({0, len(iy) - 1}):
                    for j in sorted({0, len(ix) - 1}):
                        got = fr_apply(r.affine, Fraction(2 * j + 1, 2), Fraction(2 * i + 1, 2))
                        want = fr_apply(g.affine, Fraction(2 * int(ix[j]) + 1, 2), Fraction(2 * int(iy[i]) + 1, 2))
                        if got != want and bad is None:
                            bad = (i, j, int(iy[i]), int(ix[j]), tuple(map(float, got)), tuple(map(float, want)))
                R.oracle(bad is None, "survives|dropped-coords|stale-geotransform", {"line": line},
                         f"labels dropped after {list_s(ops, op_s)}: pixel (row,col)={bad[:2] if bad else None} (original "
                         f"{bad[2:4] if bad else None}) is mapped to {bad[4] if bad else None} but was at {bad[5] if bad else None}",
                         sig="rtdrop|location")
        if box and not ops and g.crs is not None and kind != "gcp":
            # without a history the stored GeoTransform is the grid of the array: the original GeoBox comes back,
            # rotated ones included
            r = box[0].odc.geobox
            R.oracle(r == g, "dropped-coords|roundtrip", {"line": line}, f"coordinates dropped right after wrap_xr: recovered {r!r}, original {g!r}")
    # (2) grid_mapping: encoding first, then attrs
    g = GeoBox((3, 4), Affine(2, 0, 10, 0, -2, 20), None)
    names = {"a": "EPSG:3857", "b": "EPSG:4326"}
    for enc in (None, "a", "b"):
        for att in (None, "a", "b"):
            def f():
                xx = oxr.wrap_xr(np.zeros((3, 4)), g)
                for nm, spec in names.items():
                    xx = oxr.assign_crs(xx, spec, crs_coord_name=nm)
                xx.encoding.pop("grid_mapping", None)
                if enc is not None:
                    xx.encoding["grid_mapping"] = enc
                if att is not None:
                    xx.attrs["grid_mapping"] = att
                if enc is None and att is None:
                    return "N"  # both CRS coordinates are candidates (first wins, with a warning): not this stream
                c = xx.odc.crs
                return next((nm for nm, spec in names.items() if c == CRS(spec)), "?")

            R.corr(f"c09 gm {opt_s(enc)} {opt_s(att)}", f, sig="grid-mapping-lookup")
    # (3) CRS in attributes
    vals = {"-": None, "e": "bogus-crs-text", "o": 42, "s3857": "EPSG:3857", "s4326": "EPSG:4326", "c3857": CRS("EPSG:3857"), "c32633": CRS("EPSG:32633")}
    toks = sorted(vals)

    def rnd_dict(p_some):
        return tuple(rng.choice(toks[1:]) if rng.random() < p_some else "-" for _ in range(2))

    def put(attrs, d):
        for key, t in zip(("crs", "crs_wkt"), d):
            if t != "-":
                attrs[key] = vals[t]

    for _ in range(R.pick(30, 800)):
        as_ds = rng.random() < 0.4
        single = rng.random() < 0.7
        one = rng.choice(["s3857", "c3857", "s4326", "c32633"])

        def pick():
            d = rnd_dict(0.35)
            if single:  # every candidate names the same CRS (or is junk)
                d = tuple((t if t in ("-", "e", "o") else rng.choice([x for x in toks if x[1:] == one[1:]])) for t in d)
            return d

        nvars = rng.randint(1, 2) if as_ds else 1
        dicts_ds = pick() if as_ds else None
        per_var = [(pick(), pick(), pick()) for _ in range(nvars)]  # (array attrs, y coord attrs, x coord attrs)
        have_coord = [(rng.random() < 0.85, rng.random() < 0.85) for _ in range(nvars)]
        seq = ([dicts_ds] if as_ds else [])
        for (da, dy, dx), (hy, hx) in zip(per_var, have_coord):
            seq += [da] + ([dy] if hy else []) + ([dx] if hx else [])
        if as_ds:
            # coordinates are shared by the variables of a Dataset: the same y / x attrs are seen for each variable
            dy0, dx0 = per_var[0][1], per_var[0][2]
            hy0, hx0 = have_coord[0]
            seq = [dicts_ds]
            for (da, _, _) in per_var:
                seq += [da] + ([dy0] if hy0 else []) + ([dx0] if hx0 else [])
        line = "c09 crsattrs " + list_s([f"{a};{b}" for a, b in seq])
        cand = sorted({int(t[1:]) for d in seq for t in d if t[0] in "sc"})
        res = []

        def build():
            gb = GeoBox((3, 4), Affine(2, 0, 10, 0, -2, 20), None)
            arrs = []
            for (da, dy, dx), (hy, hx) in zip(per_var, have_coord):
                xx = oxr.wrap_xr(np.zeros((3, 4)), gb)
                put(xx.attrs, da)
                arrs.append(xx)
            hy, hx = have_coord[0]
            dy, dx = per_var[0][1], per_var[0][2]
            if as_ds:
                obj = xr.Dataset({f"v{i}": a for i, a in enumerate(arrs)})
                put(obj.attrs, dicts_ds)
            else:
                obj = arrs[0]
            put(obj.coords["y"].attrs, dy)
            put(obj.coords["x"].attrs, dx)
            drop = [n for n, h in (("y", hy), ("x", hx)) if not h]
            return obj.drop_vars(drop) if drop else obj

        def f():
            with warnings.catch_warnings(record=True) as wl:
                warnings.simplefilter("always")
                c = build().odc.crs
            several = any("several candidates" in str(w.message) for w in wl)
            res.append((c, several))
            if len(cand) > 1:
                return list_s(cand)  # arbitrary pick: judged by the oracle below
            return "[]" if c is None else list_s([c.epsg])

        R.corr(line, f, sig=f"crsattrs|{'ds' if as_ds else 'da'}|n{min(len(cand), 2)}")
        if res and len(cand) > 1:
            c, several = res[0]
            R.oracle(c is not None and c.epsg in cand and several, "crs-from-attrs|several-candidates", {"line": line},
                     f"candidates {cand}: picked {None if c is None else c.epsg}, warned={several}")


# ------------------------------------------------------------------ xr_reproject(src, <crs>, **options): C09 x C11
_ABSENT = object()


def dyadic_src(rng, Affine, GeoBox, crs, kinds=("nup", "nup", "mirror", "turned")):
    """small source with dyadic numbers inside the valid area of every destination used"""
    ny, nx = rng.choice([4, 6, 9]), rng.choice([5, 8])
    if crs == "EPSG:4326":
        r, x0, y0 = rng.choice([0.25, 0.5, 0.125]), 14 + rng.randint(0, 8) * 0.25, 50 - rng.randint(0, 8) * 0.25
    elif crs == "EPSG:32633":
        r, x0, y0 = rng.choice([1024, 4096]), 400000 + 512 * rng.randint(0, 50), 5500000 - 512 * rng.randint(0, 50)
    else:  # EPSG:3857
        r, x0, y0 = rng.choice([2048, 8192]), 1600000 + 1024 * rng.randint(0, 40), 6500000 - 1024 * rng.randint(0, 40)
    k = rng.choice(kinds)
    if k == "mirror":
        A = Affine(-r, 0, x0 + r * nx, 0, -r, y0)
    elif k == "turned":
        A = Affine(0, r, x0, r, 0, y0 - r * nx)
    else:
        A = Affine(r, 0, x0, 0, -r, y0)
    return GeoBox((ny, nx), A, crs)


def res_arg_s(v) -> str:
    from odc.geo.types import Resolution

    if v is _ABSENT:
        return "-"
    if isinstance(v, str):
        return f"s:{v}"
    if isinstance(v, Resolution):
        return f"r:{frac_s(v.x)}:{frac_s(v.y)}"
    if isinstance(v, (int, float)) and not isinstance(v, bool):
        return f"n:{frac_s(v)}"
    return "o"


def grid_kw_of(c11, c11mods, choice):
    """`choice`: option name -> value (or _ABSENT) -> (kwargs for the real call, tokens for the model); anchors are given
    canonically and spelled in one of the ways `_norm_anchor` accepts"""
    xy_, AnchorEnum = c11mods[8], c11mods[9]
    kw, tok = {}, {}
    v = choice.get("resolution", _ABSENT)
    tok["resolution"] = res_arg_s(v)
    if v is not _ABSENT:
        kw["resolution"] = v
    v = choice.get("shape", _ABSENT)
    tok["shape"] = "-" if v is _ABSENT else c11.shape_s(v)
    if v is not _ABSENT:
        kw["shape"] = v
    v = choice.get("tight", _ABSENT)
    tok["tight"] = "-" if v is _ABSENT else ("T" if v else "F")
    if v is not _ABSENT:
        kw["tight"] = v
    v = choice.get("anchor", _ABSENT)
    tok["anchor"] = "-" if v is _ABSENT else c11.anchor_s(v)
    if v is not _ABSENT:
        kw["anchor"] = c11.anchor_py(v, xy_, AnchorEnum)
    v = choice.get("tol", _ABSENT)
    tok["tol"] = "-" if v is _ABSENT else frac_s(v)
    if v is not _ABSENT:
        kw["tol"] = v
    v = choice.get("round_resolution", _ABSENT)
    tok["round_resolution"] = "-" if v is _ABSENT else c11.rnd_s(v)
    if v is not _ABSENT:
        kw["round_resolution"] = v
    toks = " ".join(tok[k] for k in ("resolution", "shape", "tight", "anchor", "tol", "round_resolution"))
    return kw, toks


def grid_kw(rng, c11, c11mods, base, same_units, allow_shape=True):
    """a random subset of the six grid options in random Python spellings"""
    from odc.geo.types import resxy_

    p2 = 2.0 ** round(math.log2(base))
    r = p2 * rng.choice([0.5, 1, 2, 4])
    res_pool = ["auto", "auto", "fit", r, r, resxy_(r, -r), resxy_(r, -r * 2), resxy_(r, r), np.float64(r), "AUTO", "Fit", "bogus", (r, -r),
                np.int64(max(1, int(r)))]
    if same_units:
        res_pool += ["same", "same"]
    if r >= 1:
        res_pool += [int(r)]
    choice = {
        "resolution": rng.choice([_ABSENT, _ABSENT] + res_pool),
        "shape": rng.choice([_ABSENT] * 8 + [None, None] + ([(3, 5), 7, (1, 1)] if allow_shape else [])),
        "tight": rng.choice([_ABSENT, _ABSENT, False, True, False]),
        "anchor": rng.choice([_ABSENT, _ABSENT, "default", "edge", "center", "floating", (0.25, 0.75), (0.5, 0.0)]),
        "tol": rng.choice([_ABSENT, _ABSENT, 0, 0.0, 0.125, 0.01, 2.0 ** -7]),
        "round_resolution": rng.choice([_ABSENT, _ABSENT, _ABSENT, None, False, True]),
    }
    return grid_kw_of(c11, c11mods, choice)


def nodata_token(arr, attrs, extra, dst_nodata) -> str:
    """`srcKw;dstKw;attr;lo;hi` for the model of the nodata range check: the keyword values, what `.odc.nodata` reads from
    the attributes, and the value range of the pixel type (numpy.iinfo / finfo — independent of odc-geo)"""
    def t(v):
        return "N" if v is None else frac_s(v)

    attr = attrs.get("nodata")
    if attr is None:
        attr = attrs.get("_FillValue")
    dt = np.dtype(arr.dtype)
    if dt.kind in "iu":
        lo, hi = int(np.iinfo(dt).min), int(np.iinfo(dt).max)
    elif dt.kind == "f":
        lo, hi = float(np.finfo(dt).min), float(np.finfo(dt).max)
    else:
        lo = hi = None
    return ";".join([t(extra.get("src_nodata")), t(dst_nodata), t(attr), t(lo), t(hi)])


def proj_tokens(c11, gb, how, spy, subst):
    """what pyproj contributes to one output_geobox call, as driver tokens: dst crs, same-units, source resolution witness,
    footprint bbox, centre-pixel box, fit scale"""
    from odc.geo.crs import CRS

    if gb is None or gb.crs is None:
        dc = CRS(how) if not str(how).lower().startswith("utm") else CRS("EPSG:32633")
        return f"{crs_s(dc)} F 1,-1 0,0,1,1 0,0,1,1 1,1", dc
    # the footprint box through the PUBLIC route (what compute_output_geobox is documented to start from)
    bbox = gb.footprint(how, buffer=0.9, npoints=100).boundingbox
    dc = bbox.crs
    rot = gb.resolution
    cp = f"0,0,{frac_s(subst[0])},{frac_s(subst[1])}" if spy.cp is not None else "0,0,1,1"
    fs = spy.scale if spy.scale is not None else (1, 1)
    return (f"{crs_s(dc)} {'T' if gb.crs.units == dc.units else 'F'} {c11.pair_s((rot.x, rot.y))} "
            f"{','.join(frac_s(v) for v in bbox.bbox)} {cp} {c11.pair_s(fs)}"), dc


def reproject_crs_part(R: Run, mods):
    """`xr_reproject(src, crs, **options)` / `.odc.reproject` / `.odc.output_geobox` from the arguments to the assembled
    result: the model computes the destination grid (C11 model, pyproj-derived inputs captured by the spies of
    harness/c11.py) from the geobox it recovers from the source array, then assembles and recovers again.
    Two generators: a random one (ranks, histories, attrs, names, dask, spellings, extra keywords) and the OPTION MATRIX
    tight x anchor kind x resolution kind x shape x {own CRS, other CRS} for DataArray and Dataset."""
    import itertools

    import xarray as xr
    from odc.geo.crs import CRS
    from odc.geo.types import resxy_

    from . import c11

    Affine, GeoBox, GCPGeoBox, GCPMapping, oxr, xy_ = mods
    c11mods = c11._import()
    if c11._ARNG[0] is None:
        c11._ARNG[0] = __import__("random").Random(R.rng.getrandbits(32))
    rng = R.rng
    crss = ["EPSG:4326", "EPSG:32633", "EPSG:3857"]

    def spell(crs):
        if crs.lower().startswith("utm"):
            return crs
        return rng.choice([crs, crs.lower(), int(crs.split(":")[1]), CRS(crs)])

    def units_of(dst):
        return (CRS(dst) if not dst.lower().startswith("utm") else CRS("EPSG:32633")).units

    def one(kind, src, own, dst, nt, nb, ops, cn, attrs, dask, kw, gtoks, base, extra, etoks, dst_nodata, post, dsattrs, extra_var, tag,
            arr=None, light=False):
        how = spell(dst)
        attr_keys = list(attrs)
        try:
            if arr is None:
                arr = apply_ops(make_xx(oxr, src, nt, nb, dask, dtype="float32", cn=cn, **attrs), ops)
            gb = arr.odc.geobox
        except Exception as e:  # pylint: disable=broad-except
            R.oracle(False, "reproject|to-crs|setup-raises", {"src": src_s(src), "dst": dst, "ops": list_s(ops, op_s)}, repr(e))
            return
        # the affine is compared exactly unless it is not exact in doubles: shape requests (span / n) and, once the grid goes
        # through the label round trip of the assembled result, origins taken verbatim from the pyproj footprint (tight / floating)
        full = kw.get("shape") is None and (kind == "og" or not (kw.get("tight") or "floating" in str(kw.get("anchor")).lower()))
        p2 = 2.0 ** round(math.log2(base))
        subst = (p2 * rng.choice([1, 2]), p2 * rng.choice([1, 2, 0.5]), rng.choice([1.0, 2.0, 0.5]), rng.choice([1.0, 2.0]))
        case = {"reproject": "args->result", "kind": kind, "src": src_s(src), "how": str(how)[:40], "how_type": type(how).__name__, "nt": nt, "nb": nb,
                "ops": list_s(ops, op_s), "attrs": attr_keys, "crs_coord_name": cn, "kw": {k: str(v) for k, v in kw.items()},
                "extra": {k: str(v) for k, v in extra.items()}, "dst_nodata": dst_nodata, "dask": dask, "generator": tag}
        box = []
        via_accessor = rng.random() < 0.5
        if not light:
            cache_history(rng, src.crs, dst if not dst.lower().startswith("utm") else "EPSG:32633")
        real = None
        with c11.Spy(c11mods, subst) as spy:
            try:
                if kind == "og":
                    out = arr.odc.output_geobox(how, **kw)
                    box.append(out)
                    real = rec_s(out) if full else rec_noaff_s(out)
                elif kind == "da":
                    akw = dict(kw, **extra) if dst_nodata is None and rng.random() < 0.5 else dict(kw, dst_nodata=dst_nodata, **extra)
                    out = arr.odc.reproject(how, **akw) if via_accessor else oxr.xr_reproject(arr, how, **akw)
                    box.append(out)
                    real = out_s(apply_ops(out, post), full)
                else:
                    dv = {"a": arr, "b": arr * 2}
                    if extra_var:
                        dv["c"] = xr.DataArray(np.zeros(3), dims=("t",), coords={"t": ["u", "v", "w"]})
                    ds = xr.Dataset(dv, attrs={k: (cn if k == "grid_mapping" else "stale") for k in dsattrs})
                    out = ds.odc.reproject(how, **kw, **extra) if via_accessor else oxr.xr_reproject(ds, how, **kw, **extra)
                    box.append(out)
                    real = ds_s(out) if full else "noaff " + " ".join(f"{nm}={rec_noaff_s(out[nm].odc.geobox)}" for nm in ("a", "b"))
            except Exception as e:  # pylint: disable=broad-except
                from .common import err_s

                real = err_s(e)
                case["raised"] = repr(e)[:160]
        try:
            ptoks, dc = proj_tokens(c11, gb, how, spy, subst)
        except Exception as e:  # pylint: disable=broad-except
            R.oracle(False, "reproject|to-crs|capture-raises", case, repr(e))
            return
        head = f"{src_s(src)} {opt_s(nt)} {opt_s(nb)} {cn} {list_s(ops, op_s)}"
        if kind == "og":
            line = f"c09 outgbx {head} {ptoks} {gtoks} {'T' if full else 'F'}"
        elif kind == "da":
            line = (f"c09 reprcrs {head} {list_s(attr_keys)} N {ptoks} {gtoks} {list_s(etoks)} {'T' if dst_nodata is not None else 'F'} "
                    f"{list_s(post, op_s)} {'T' if full else 'F'} {nodata_token(arr, attrs, extra, dst_nodata)}")
        else:
            line = (f"c09 reprcrsds {head} {list_s(attr_keys)} {list_s(dsattrs)} {cn if 'grid_mapping' in dsattrs else 'N'} "
                    f"{'T' if extra_var else 'F'} N {ptoks} {gtoks} {list_s(etoks)} {'T' if full else 'F'} "
                    f"{nodata_token(arr, attrs, extra, None)}")
        case["line"] = line
        path = ("err" if real.startswith("ERR") else "own-crs" if own else "x-crs")
        optsig = ("tight" if kw.get("tight") else "snap") + "+" + (c11.anchor_s(kw["anchor"]).split(":")[0] if False else
                                                                    ("anchor" if "anchor" in kw else "noanchor"))
        sig = (f"{'outgbx' if kind == 'og' else 'reprcrs|' + kind}|{tag}|{klass(src)}|{path}|{optsig}"
               + ("|fit" if spy.cp is not None else "") + ("|shape" if kw.get("shape") is not None else "") + ("" if kw else "|defaults"))
        res_kw = kw.get("resolution", "auto")
        fit_expected = (gb is not None and gb.crs is not None and kw.get("shape") is None
                        and not (box and kind == "og" and box[0] is gb)
                        and (res_kw == "fit" or (isinstance(res_kw, str) and res_kw == "auto" and not c11.share_units(gb.crs, dc))))
        src_res_used = (gb is not None and gb.crs is not None and kw.get("shape") is None
                        and (res_kw == "same" or (isinstance(res_kw, str) and res_kw == "auto" and c11.share_units(gb.crs, dc))))
        if isinstance(kw.get("shape"), int) and not real.startswith("ERR"):
            # a single-integer shape derives the pixel size as span / n and then counts pixels with ceil(span / size): the
            # count sits ON a ceil decision and is decided by IEEE rounding of the quotient (same guard as in harness/c11.py)
            R.count("reproject-args:int-shape|oracle-only")
        elif is_gcp(src) and src_res_used:
            # the resolution of a GCP box is an estimate in doubles (not dyadic): the grid built from it is judged by the
            # oracle below, not compared exactly
            R.count("reproject-args:gcp-source-resolution|oracle-only")
            if not kw and _nodata_outside_dtype(arr, attrs, extra, dst_nodata):
                # a nodata value the pixel type cannot hold is refused (ValueError) before anything is dispatched, for every
                # kind of source (F72; modelled by nodata_range_check): "must succeed" does not apply
                R.count("reproject-args:gcp-source|nodata-outside-dtype|not-judged")
            elif not kw:
                # no option at all: the call must succeed and give a linear grid in the requested CRS (never the GCP box)
                ok = bool(box) and not real.startswith("ERR")
                if ok and kind == "og":
                    ok = (not is_gcp(box[0])) and box[0].crs == dc
                elif ok:
                    r0 = (box[0]["a"] if kind == "ds" else box[0]).odc.geobox
                    ok = r0 is not None and not is_gcp(r0) and r0.crs == dc
                R.oracle(ok, "reproject|gcp-source|result", case, f"GCP source, {how!r}, default options: {real[:120]}")
        elif fit_expected and not (spy.fit_recorded() if box else c11.fit_interception_works(c11mods)):
            # the centre-pixel fit did not run through the public names the spy substitutes: no exact comparison
            R.count("reproject-args:skipped-fit-not-intercepted")
            if not any("fit not intercepted" in n for n in R.notes):
                R.notes.append("fit not intercepted through GeoBox.from_bbox / overlap.get_scale_at_point: exact comparison of "
                               "fit-mode reprojection requests skipped, oracles kept")
        else:
            R.corr(line, lambda: real, sig=sig)
        # independent oracle on the real result: the recovered GeoBox of the reprojected object is the grid that
        # `.odc.output_geobox(how, **same options)` describes (same spies: same centre-pixel substitutes)
        if box and kind != "og":
            try:
                with c11.Spy(c11mods, subst):
                    want = arr.odc.output_geobox(how, **kw)
                reproject_oracle(R, box[0], want, case, f"{kind}|args", approx=True)
                if kind == "ds":
                    reproject_oracle(R, box[0]["b"], want, case, f"{kind}|args|var", approx=True)
            except Exception as e:  # pylint: disable=broad-except
                R.oracle(False, f"reproject|{kind}|args|oracle-raises", case, repr(e))
        elif box and kind == "og" and gb is not None:
            out = box[0]
            R.oracle(out.crs == dc, "output-geobox|crs", case, f"output_geobox({how!r}) is in {out.crs}, expected {dc}")
            if isinstance(kw.get("shape"), tuple):
                R.oracle(tuple(out.shape) == kw["shape"], "output-geobox|shape-request", case, f"asked {kw['shape']} got {tuple(out.shape)}")

    # ---- (1) random generator
    gcp_ok = gcp_private(gcp_geobox(__import__("random").Random(1), mods, exact=True)) is not None
    n_da, n_ds, n_og = R.pick(14, 400), R.pick(6, 160), R.pick(30, 1200)
    for it in range(n_da + n_ds + n_og):
        kind = "da" if it < n_da else "ds" if it < n_da + n_ds else "og"
        scrs = rng.choice(crss)
        src = dyadic_src(rng, Affine, GeoBox, scrs)
        if kind == "og" and rng.random() < 0.12:
            src = GeoBox(src.shape, src.affine, None)  # not reprojectable: assert / ValueError branches
        own = rng.random() < 0.35
        gcp_src = False
        dst = scrs if own else rng.choice([c for c in crss if c != scrs] + (["utm", "UTM-N", "utm-s"] if scrs != "EPSG:32633" else ["utm"]))
        if gcp_ok and rng.random() < 0.2:
            # GCP-registered source (never the identity path: compute_output_geobox's fast path is for GeoBox only)
            src = gcp_geobox(rng, mods, exact=True)
            scrs = f"EPSG:{src.crs.epsg}"
            dst = scrs if own else rng.choice([c for c in ("EPSG:4326", "EPSG:3857") if c != scrs])
            gcp_src = True
        nt = rng.choice([None, None, 2])
        nb = rng.choice([None, None, 2])
        dims, sizes = sizes_of(src, nt, nb)
        ops = rnd_ops(rng, dims, sizes, False, maxlen=3)
        ops = [o for o in ops if o[0] != "i" and not (o[0] == "s" and o[4] == 0)]
        idx = orig_index(ops, dims, sizes)
        if any(v is None or len(v) == 0 for v in idx.values()):
            ops = []
        cn = rng.choice(["spatial_ref", "spatial_ref", "crs", "foo"])
        dtype = rng.choice(["float32", "float32", "uint8", "int16"])
        attrs = {k: v for k, v in (("crs", "stale"), ("grid_mapping", cn), ("epsg", 1), ("nodata", rng.choice([0, 0, 200, -9999])),
                                   ("_FillValue", rng.choice([0, 255, -1])))
                 if rng.random() < 0.4}
        attrs["keep"] = "me"
        # dask-backed GCP sources: the dask warp asserts a linear source (probed once below, known finding) -> numpy here
        dask = rng.random() < 0.25 and not (gcp_src and kind != "og")
        try:
            arr = apply_ops(make_xx(oxr, src, nt, nb, dask, dtype=dtype, cn=cn, **attrs), ops)
            gb = arr.odc.geobox
            base = abs(arr.odc.output_geobox(dst).resolution.x) if (gb is not None and gb.crs is not None) else 1024.0
        except Exception as e:  # pylint: disable=broad-except
            R.oracle(False, "reproject|to-crs|setup-raises", {"src": src_s(src), "dst": dst, "ops": list_s(ops, op_s)}, repr(e))
            continue
        same_units = gb is not None and gb.crs is not None and gb.crs.units == units_of(dst)
        kw, gtoks = grid_kw(rng, c11, c11mods, base, same_units, allow_shape=True)
        if rng.random() < 0.12:
            kw, gtoks = {}, "- - - - - -"  # no option passed at all: every default comes from the code
        extra, etoks = {}, []
        if kind != "og":
            v = rng.choice([_ABSENT, _ABSENT, None, 0, 255, -1, 70000])
            if v is not _ABSENT:
                extra["src_nodata"] = v
                etoks.append("src_nodata=" + ("none" if v is None else f"num:{v}"))
            if rng.random() < 0.3:
                extra["num_threads"] = 2
                etoks.append("num_threads=num:2")
            if rng.random() < 0.5:
                etoks.reverse()
                extra = dict(reversed(list(extra.items())))
        dst_nodata = rng.choice([None, None, 7, 7, 300, -5]) if kind == "da" else None
        if kind == "da" and it < 4 and not gcp_src:
            # fixed corner, every run: LAZY (dask-backed) integer sources with a nodata the pixel type cannot hold — the
            # refusal must not depend on the backing store (the numpy path would fail inside GDAL anyway)
            dask, dtype = True, ("uint8", "int16")[it % 2]
            arr = apply_ops(make_xx(oxr, src, nt, nb, True, dtype=dtype, cn=cn, **attrs), [o for o in ops if o[0] != "type"])
            ops = [o for o in ops if o[0] != "type"]
            extra, etoks = ({"src_nodata": 70000}, ["src_nodata=num:70000"]) if it >= 2 else ({}, [])
            dst_nodata = None if it >= 2 else (300 if dtype == "uint8" else -40000)
            kw, gtoks = {}, "- - - - - -"
        post = [rng.choice([("arith",), ("type",), ("pickle", rng.choice(RT_KINDS), rng.random() < 0.6)]) for _ in range(rng.choice([0, 0, 1]))] if kind == "da" else []
        dsattrs = [k for k in ("crs", "title", "grid_mapping") if rng.random() < 0.4] if kind == "ds" else []
        one(kind, src, own, dst, nt, nb, ops, cn, attrs, dask, kw, gtoks, base, extra, etoks, dst_nodata, post, dsattrs, rng.random() < 0.5,
            "random", arr=arr)

    # dask-backed GCP source: the claim is independent of the backing store (numpy works); probed every run
    if gcp_ok:
        gg = gcp_geobox(__import__("random").Random(3), mods, exact=True, allow_slice=False)
        case = {"reproject": "gcp-source", "src": src_s(gg), "dst": "EPSG:3857", "dask": True}
        try:
            want = make_xx(oxr, gg, None, None, False, dtype="float32").odc.reproject("EPSG:3857").odc.geobox
            got = make_xx(oxr, gg, None, None, True, dtype="float32").odc.reproject("EPSG:3857").odc.geobox
            R.oracle(got == want, "reproject|gcp-source|dask", case, f"dask-backed result sits on {got!r}, numpy-backed on {want!r}")
        except Exception as e:  # pylint: disable=broad-except
            R.oracle(False, "reproject|gcp-source|dask", case,
                     f"numpy-backed GCP source reprojects, dask-backed raises {type(e).__name__}: {str(e)[:100]}")

    # GCP source, own CRS and another one, no options (the corner where a linear source takes the identity path)
    if gcp_ok:
        gg = gcp_geobox(__import__("random").Random(4), mods, exact=True)
        own_crs = f"EPSG:{gg.crs.epsg}"
        for kind in ("og", "da", "ds"):
            for dst in (own_crs, "EPSG:3857" if own_crs != "EPSG:3857" else "EPSG:4326"):
                try:
                    base = abs(make_xx(oxr, gg, None, None, False, dtype="float32").odc.output_geobox(dst).resolution.x)
                except Exception:  # pylint: disable=broad-except
                    base = 1.0
                one(kind, gg, dst == own_crs, dst, None, None, [], "spatial_ref", {"keep": "me"}, False, {}, "- - - - - -", base, {}, [], None, [],
                    [], False, "gcp-defaults")

    # ---- (2) the option matrix: tight x anchor kind x resolution kind x shape, own CRS and another CRS, DataArray and Dataset.
    # Own CRS: the whole matrix (the neighbourhood of the identity fast path — resolution in {absent, auto, same}, shape in
    # {absent, None} — for BOTH container types, the rest alternating; quick tier: every second of the rest, rotating with
    # the seed).  Other CRS: an orthogonal sample (every tight x anchor pair, resolution / shape cycling).
    tights = [_ABSENT, False, True]
    anchors = [_ABSENT, "default", "edge", "center", "floating", (0.25, 0.75)]
    shapes = [_ABSENT, None, (3, 5), 7]
    srcs = {c: dyadic_src(rng, Affine, GeoBox, c, kinds=(k,)) for c, k in (("EPSG:4326", "nup"), ("EPSG:32633", "mirror"), ("EPSG:3857", "nup"))}
    arrs = {c: make_xx(oxr, g, None, None, False, dtype="float32", keep="me") for c, g in srcs.items()}
    n_own = n_x = 0
    for i, (t, a, ri, sh) in enumerate(itertools.product(tights, anchors, range(6), shapes)):
        scrs = crss[i % 3]
        src = srcs[scrs]
        r = abs(src.resolution.x) * [1, 2, 0.5][(i // 3) % 3]
        resolution = [_ABSENT, "auto", "same", "fit", r, resxy_(r, -r)][ri]
        # next to the identity fast path: own CRS, resolution absent / auto / same, and either no shape or the default anchor
        near_fast_path = ri <= 2 and (sh in (_ABSENT, None) or a in (_ABSENT, "default"))
        if not near_fast_path and R.quick and (i + R.seed) % 8:
            continue
        kw, gtoks = grid_kw_of(c11, c11mods, {"tight": t, "anchor": a, "resolution": resolution, "shape": sh})
        # both container types where tight meets an explicit anchor next to the identity fast path (and on the fast path itself)
        both = near_fast_path and (not R.quick or t is True or a in (_ABSENT, "default"))
        for kind in (("da", "ds") if both else (("da", "ds")[i % 2],)):
            one(kind, src, True, scrs, None, None, [], "spatial_ref", {"keep": "me"}, False, kw, gtoks, abs(src.resolution.x), {}, [], None, [],
                [], False, "matrix", arr=arrs[scrs], light=True)
            n_own += 1
    rounds = R.pick(1, 12)
    for rd in range(rounds):
        for i, (t, a) in enumerate(itertools.product(tights, anchors)):
            scrs = crss[(i + rd) % 3]
            dst = crss[(i + rd + 1 + (i // 3) % 2) % 3]
            src = srcs[scrs]
            try:
                base = abs(arrs[scrs].odc.output_geobox(dst).resolution.x)
            except Exception:  # pylint: disable=broad-except
                continue
            r = 2.0 ** round(math.log2(base)) * [1, 2, 0.5][(i + rd) % 3]
            same_units = src.crs.units == units_of(dst)
            res_vals = [_ABSENT, "auto", "fit", r, resxy_(r, -r)] + (["same"] if same_units else [])
            resolution = res_vals[(i + 2 * rd) % len(res_vals)]
            sh = shapes[(i // 2 + rd) % 4]
            kw, gtoks = grid_kw_of(c11, c11mods, {"tight": t, "anchor": a, "resolution": resolution, "shape": sh})
            one(("da", "ds")[(i + rd) % 2], src, False, dst, None, None, [], "spatial_ref", {"keep": "me"}, False, kw, gtoks, base, {}, [], None, [],
                [], False, "matrix", arr=arrs[scrs], light=True)
            n_x += 1
    R.count("reproject-args:option-matrix-own-crs", n_own)
    R.count("reproject-args:option-matrix-other-crs", n_x)


def val_s(v) -> str:
    if v is None:
        return "N"
    if v is True:
        return "T"
    if v is False:
        return "F"
    if isinstance(v, tuple):
        return "x".join(str(x) for x in v)
    return str(v)


def options_part(R: Run, mods):
    """falsy-but-meaningful option values through every forwarding layer
    (xr_reproject -> _extract_output_geobox_params -> .odc.output_geobox -> compute_output_geobox)"""
    import xarray as xr
    from odc.geo import _xr_interop as xi

    Affine, GeoBox, GCPGeoBox, GCPMapping, oxr, xy_ = mods
    rng = R.rng
    # (1) the splitter itself, compared with the model
    pools = {"tol": [0, 0.0, 0.01, 0.2], "tight": [False, True], "anchor": [0, 0.5, "default", "center"],
             "shape": [None, 0, 7, (3, 4)], "resolution": ["auto", 0, 30, 0.0], "round_resolution": [None, False, True],
             "src_nodata": [None, 0, 255], "num_threads": [0, 2], "XSCALE": [0.0, 1.5]}
    splitter = getattr(xi, "_extract_output_geobox_params", None)
    if splitter is None:
        R.notes.append("_xr_interop._extract_output_geobox_params (private helper) not found: its direct correspondence stream is "
                       "skipped; option forwarding stays covered end to end through xr_reproject / .odc.reproject")
    for _ in range(R.pick(120, 1200) if splitter is not None else 0):
        keys = rng.sample(sorted(pools), rng.randint(0, len(pools)))
        kw = {k: rng.choice(pools[k]) for k in keys}
        line = "c09 params " + list_s([f"{k}={val_s(v)}" for k, v in kw.items()])

        def f():
            rest = dict(kw)
            fwd = splitter(rest)
            return (list_s(sorted(f"{k}={val_s(v)}" for k, v in fwd.items())) + " "
                    + list_s(sorted(f"{k}={val_s(v)}" for k, v in rest.items())))

        R.corr(line, f, sig="params|" + ("falsy" if any(not v for k, v in kw.items() if k in ("tol", "tight", "anchor", "shape", "resolution", "round_resolution")) else "plain"))

    # (2) end to end: the grid of xr_reproject(src, crs, **kw) is the one .odc.output_geobox(crs, **kw) describes;
    # inputs are built (from the footprint bbox the code will see) so that the footprint overshoots an output grid
    # line by 0.1 .. 0.9 % of a pixel: tol=0 and the default tol=0.01 then give different grids
    effective = 0
    for it in range(R.pick(12, 200)):
        if rng.random() < 0.5:
            r = rng.choice([10, 30, 0.5])
            src = GeoBox((rng.randint(5, 25), rng.randint(5, 30)), Affine(r, 0, 500000 + r * rng.randint(0, 500) + rng.uniform(0, r), 0, -r,
                                                                         6000000 - r * rng.randint(0, 500) - rng.uniform(0, r)), "EPSG:32633")
            crs = rng.choice(["EPSG:32633", "EPSG:32633", "EPSG:3857", "EPSG:4326", "utm"])
        else:
            r = rng.choice([0.25, 0.01, 1 / 3])
            src = GeoBox((rng.randint(5, 25), rng.randint(5, 30)), Affine(r, 0, rng.uniform(-20, 30), 0, -r, rng.uniform(30, 55)), "EPSG:4326")
            crs = rng.choice(["EPSG:4326", "EPSG:3857", "EPSG:3035", "utm"])
        case = {"options": True, "src": src_s(src), "crs": crs}
        try:
            xx = make_xx(oxr, src, None, None, rng.random() < 0.2, dtype="uint8", cn=rng.choice(["spatial_ref", "crs"]))
            base = xx.odc.output_geobox(crs)
            bbox = src.footprint(crs, buffer=0.9, npoints=100).boundingbox
            res = abs(base.resolution.x) * rng.choice([1, 1, 2, 0.5, 3.3])
            eps = rng.uniform(0.001, 0.009)
            anchor = xy_((bbox.right / res - eps) % 1.0, (bbox.top / res - eps) % 1.0)
            kw = {"resolution": res if rng.random() < 0.7 else np.float64(res), "anchor": anchor, "tol": rng.choice([0, 0.0, 0, 0.005])}
            k = rng.random()
            if k < 0.25:
                kw = {"tol": rng.choice([0, 0.0])}  # default resolution / anchor, only the falsy tol
            elif k < 0.4:
                kw = {"anchor": rng.choice([0, 0.5, 0.0]), "tol": 0, "resolution": res}
            for extra, vals in (("tight", [False, True, False]), ("shape", [None]), ("round_resolution", [None, False]),
                                ("resampling", ["nearest"]), ("dst_nodata", [0, None])):
                if rng.random() < 0.35:
                    kw[extra] = rng.choice(vals)
            gkw = {k_: v for k_, v in kw.items() if k_ not in ("resampling", "dst_nodata")}
            case["kw"] = {k_: val_s(v) if not hasattr(v, "xy") else f"xy({v.x},{v.y})" for k_, v in kw.items()}
            want = xx.odc.output_geobox(crs, **gkw)
            want_default_tol = xx.odc.output_geobox(crs, **{k_: v for k_, v in gkw.items() if k_ != "tol"})
            if want != want_default_tol:
                effective += 1
            objs = {"da": xx, "ds": xr.Dataset({"a": xx, "b": xx + 1})}
        except Exception as e:  # pylint: disable=broad-except
            R.oracle(False, "reproject|options|setup-raises", case, repr(e))
            continue
        for kind, obj in objs.items():
            try:
                out = obj.odc.reproject(crs, **kw) if rng.random() < 0.5 else oxr.xr_reproject(obj, crs, **kw)
                got = out.odc.geobox
            except Exception as e:  # pylint: disable=broad-except
                R.oracle(False, f"reproject|{kind}|options|raises", case, repr(e))
                continue
            A, B = tuple(want.affine)[:6], tuple(got.affine)[:6]
            px = max(abs(A[0]), abs(A[4]))
            ok = (tuple(got.shape) == tuple(want.shape) and got.crs == want.crs
                  and all(abs(a - b) <= 1e-9 * max(abs(a), px * max(want.shape), 1) for a, b in zip(A, B)))
            R.oracle(bool(ok), f"reproject|{kind}|options-forwarded", case,
                     f"reproject(crs, **kw) sits on {tuple(got.shape)} {B}, but output_geobox(crs, **kw) is {tuple(want.shape)} {A}"
                     + (f" (default-tol grid: {tuple(want_default_tol.shape)})" if want != want_default_tol else ""),
                     sig=f"options|{kind}|{'tol-matters' if want != want_default_tol else 'plain'}")
    R.count("options:tol-zero-differs-from-default", effective)


def reproject_part(R: Run, mods):
    import xarray as xr

    Affine, GeoBox, GCPGeoBox, GCPMapping, oxr, xy_ = mods
    rng = R.rng
    # sources inside the valid area of every destination used below
    def src_box(crs):
        ny, nx = rng.choice([4, 6, 9]), rng.choice([5, 8])
        if crs == "EPSG:4326":
            r = rng.choice([0.25, 0.5, 0.125])
            return GeoBox((ny, nx), Affine(r, 0, 14 + rng.randint(0, 8) * 0.25, 0, -r, 50 - rng.randint(0, 8) * 0.25), crs)
        if crs == "EPSG:32633":
            r = rng.choice([1024, 4096])
            return GeoBox((ny, nx), Affine(r, 0, 400000 + 512 * rng.randint(0, 50), 0, -r, 5500000 - 512 * rng.randint(0, 50)), crs)
        if crs == "EPSG:3857":
            r = rng.choice([2048, 8192])
            if rng.random() < 0.3:  # rotated source
                return GeoBox((ny, nx), Affine(0, r, 1600000, r, 0, 6200000), crs)
            return GeoBox((ny, nx), Affine(r, 0, 1600000 + 1024 * rng.randint(0, 40), 0, -r, 6500000 - 1024 * rng.randint(0, 40)), crs)
        r = rng.choice([2048, 4096])
        return GeoBox((ny, nx), Affine(r, 0, 1000000, 0, -r, -3000000), crs)  # 3577

    def dst_box(src, crs=None):
        crs = crs or rng.choice(["EPSG:4326", "EPSG:3857", "EPSG:32633"])
        ny, nx = rng.choice([1, 1, 3, 7]), rng.choice([1, 4, 6])
        ext = src.footprint(crs).boundingbox if src.crs != crs else src.boundingbox
        if crs == "EPSG:4326":
            x0, y1, r = math.floor(ext.left * 4) / 4, math.ceil(ext.top * 4) / 4, rng.choice([0.5, 0.25])
        else:
            x0, y1, r = math.floor(ext.left / 1024) * 1024.0, math.ceil(ext.top / 1024) * 1024.0, rng.choice([4096, 16384])
        k = rng.random()
        if k < 0.6:
            A = Affine(r, 0, x0, 0, -r, y1)
        elif k < 0.8:
            A = Affine(0, r, x0, r, 0, y1 - r * ny)  # rotated 90 degrees (exact)
        else:
            A = Affine(-r, 0, x0 + r * nx, 0, r, y1 - r * ny)  # mirrored
        return GeoBox((ny, nx), A, crs)

    # attributes as file loaders leave them; `grid_mapping` names the existing CRS coordinate (a dangling
    # name would make the *source* un-registered once the encoding is lost, which is not this property)
    stale = {"crs": "EPSG:9999", "crs_wkt": "stale", "grid_mapping": "spatial_ref", "gcps": "stale", "epsg": 1}
    for it in range(R.pick(22, 400)):
        scrs = rng.choice(["EPSG:4326", "EPSG:32633", "EPSG:3857", "EPSG:3577"])
        src = src_box(scrs)
        if scrs == "EPSG:3577":
            dst = dst_box(src, "EPSG:4326")
        else:
            dst = dst_box(src)
        nt = rng.choice([None, None, 2])
        nb = rng.choice([None, None, 2])
        keys = [k for k in stale if rng.random() < 0.6]
        attrs = {k: stale[k] for k in keys}
        attrs["keep"] = "me"
        if rng.random() < 0.5:
            attrs["nodata"] = 0
        elif rng.random() < 0.3:
            attrs["_FillValue"] = 0
        dst_nodata = rng.choice([None, None, 7])
        dims, sizes = sizes_of(src, nt, nb)
        ops = rnd_ops(rng, dims, sizes, False, maxlen=3)
        ops = [o for o in ops if o[0] != "i" and not (o[0] == "s" and (o[4] == 0))]
        # keep the source non-empty
        idx = orig_index(ops, dims, sizes)
        if any(v is None or len(v) == 0 for v in idx.values()):
            ops = []
        as_ds = rng.random() < 0.45
        cn = rng.choice(["spatial_ref", "spatial_ref", "crs", "foo"])
        post = [rng.choice([("arith",), ("type",), ("pickle", rng.choice(RT_KINDS), rng.random() < 0.6)]) for _ in range(rng.choice([0, 1, 1, 2]))]
        attr_keys = list(attrs)
        # the identity corner, generated deliberately: the destination is the source's own grid (the very GeoBox
        # object the accessor returns, or an equal one) — the result must still be a properly assembled output
        identity = None
        if rng.random() < 0.3:
            try:
                gb = apply_ops(make_xx(oxr, src, nt, nb, False, dtype="float32", cn=cn), ops).odc.geobox
            except Exception:  # pylint: disable=broad-except
                gb = None
            if gb is not None and gb.crs is not None and 0 not in tuple(gb.shape):
                dst = GeoBox(gb.shape, gb.affine, gb.crs)
                identity = rng.choice(["same-object", "equal-object"])
        # the claim is independent of the backing store: every case runs numpy-backed and dask-backed (various chunkings)
        for dask, chunk_mode in ((False, None), (True, rng.choice(CHUNK_MODES))):
            kind = "ds" if as_ds else "da"
            case = {"reproject": kind, "src": src_s(src), "dst": src_s(dst), "nt": nt, "nb": nb, "dask": dask,
                    "attrs": attr_keys, "ops": list_s(ops, op_s), "dst_nodata": dst_nodata, "crs_coord_name": cn,
                    "post": list_s(post, op_s), "chunks": chunk_mode, "identity": identity}

            def mk():
                if cn != "spatial_ref" and "grid_mapping" in attrs:
                    attrs["grid_mapping"] = cn
                xx = make_xx(oxr, src, nt, nb, dask, dtype="float32", cn=cn, chunk_mode=chunk_mode or "half", **attrs)
                return apply_ops(xx, ops)

            if not as_ds:
                line = (f"c09 repr {src_s(src)} {opt_s(nt)} {opt_s(nb)} {cn} {list_s(ops, op_s)} {list_s(attr_keys)} "
                        f"{src_s(dst)} {'T' if dst_nodata is not None else 'F'} {list_s(post, op_s)}")
                box = []

                def f():
                    arr = mk()
                    out = oxr.xr_reproject(arr, arr.odc.geobox if identity == "same-object" else dst, dst_nodata=dst_nodata)
                    box.append(out)
                    out2 = apply_ops(out, post)
                    box.append(out2)
                    return out_s(out2)

                R.corr(line, f, sig=f"repr|da|{klass(src)}->{klass(dst)}" + ("|dask" if dask else "") + ("|name" if cn != "spatial_ref" else ""))
                if box:
                    reproject_oracle(R, box[0], dst, case, "da")
                    if len(box) > 1 and post:
                        reproject_oracle(R, box[1], dst, case, "da|after-op", encoding_kept=all(o[0] == "pickle" for o in post))
                else:
                    R.oracle(False, "reproject|da|raises", case, "xr_reproject raised")
            else:
                dsattrs = [k for k in ("crs", "title", "grid_mapping") if rng.random() < 0.5]
                extra = rng.random() < 0.5
                line = (f"c09 reprds {src_s(src)} {opt_s(nt)} {opt_s(nb)} {cn} {list_s(ops, op_s)} {list_s(attr_keys)} "
                        f"{list_s(dsattrs)} {'T' if extra else 'F'} {src_s(dst)}")
                box = []

                def fds():
                    a = mk()
                    dv = {"a": a, "b": a * 2}
                    if extra:
                        dv["c"] = xr.DataArray(np.zeros(3), dims=("t",), coords={"t": ["u", "v", "w"]})
                    ds = xr.Dataset(dv, attrs={k: (cn if k == "grid_mapping" else "stale") for k in dsattrs})
                    out = oxr.xr_reproject(ds, ds.odc.geobox if identity == "same-object" else dst)
                    box.append(out)
                    return ds_s(out)

                R.corr(line, fds, sig=f"repr|ds|{klass(src)}->{klass(dst)}" + ("|dask" if dask else ""))
                if box:
                    out = box[0]
                    for nm in ("a", "b"):
                        reproject_oracle(R, out[nm], dst, case, "ds|var")
                        if post:
                            try:
                                reproject_oracle(R, apply_ops(out[nm], post), dst, case, "ds|var|after-op",
                                                 encoding_kept=all(o[0] == "pickle" for o in post))
                            except Exception as e:  # pylint: disable=broad-except
                                R.oracle(False, "reproject|ds|var|after-op|raises", case, repr(e))
                    reproject_oracle(R, out, dst, case, "ds")
                else:
                    R.oracle(False, "reproject|ds|raises", case, "xr_reproject raised")

    # destination given as a CRS: recovered geobox is the computed output geobox — other CRSs and the source's OWN CRS
    # in every spelling (where compute_output_geobox hands back the source grid), default and explicit-equal resolution,
    # stale spatial attrs / custom CRS-coordinate names, numpy- and dask-backed
    from odc.geo.crs import CRS as _CRS
    from odc.geo.types import resxy_ as _resxy

    for it in range(R.pick(10, 140)):
        scrs = rng.choice(["EPSG:4326", "EPSG:32633", "EPSG:3857"])
        src = src_box(scrs)
        own = rng.random() < 0.5
        if own:
            how = rng.choice([scrs, scrs.lower(), int(scrs.split(":")[1]), _CRS(scrs), _CRS(src.crs.to_wkt()), src.crs])
        else:
            how = rng.choice([c for c in ["EPSG:4326", "EPSG:3857", "EPSG:32633", "utm"] if c != scrs])
        as_ds = rng.random() < 0.5
        kw = {}
        if own and rng.random() < 0.4:
            kw["resolution"] = rng.choice([_resxy(src.resolution.x, src.resolution.y), "same"])
        cn = rng.choice(["spatial_ref", "crs"])
        stale_attrs = {k: v for k, v in (("crs", "stale"), ("grid_mapping", cn), ("epsg", 1), ("crs_wkt", "stale")) if rng.random() < 0.6}
        for dask, chunk_mode in ((False, "half"), (True, rng.choice(CHUNK_MODES))):
            case = {"reproject": "to-crs", "src": src_s(src), "how": str(how)[:40], "how_type": type(how).__name__, "own_crs": own,
                    "kw": {k: str(v) for k, v in kw.items()}, "ds": as_ds, "dask": dask, "chunks": chunk_mode, "crs_coord_name": cn,
                    "attrs": sorted(stale_attrs)}
            try:
                xx = make_xx(oxr, src, None, None, dask, dtype="float32", cn=cn, chunk_mode=chunk_mode, nodata=0, keep="me", **stale_attrs)
                cache_history(rng, src.crs, how if not isinstance(how, int) else f"EPSG:{how}")
                want = xx.odc.output_geobox(how, **kw)
                obj = xr.Dataset({"a": xx, "b": xx + 1}, attrs={"crs": "stale"}) if as_ds else xx
                out = oxr.xr_reproject(obj, how, **kw) if rng.random() < 0.5 else obj.odc.reproject(how, **kw)
                kind = ("ds" if as_ds else "da") + ("|own-crs" if own else "|to-crs")
                reproject_oracle(R, out, want, case, kind, approx=True)
                if as_ds:
                    reproject_oracle(R, out["b"], want, case, kind + "|var", approx=True)
            except Exception as e:  # pylint: disable=broad-except
                R.oracle(False, "reproject|to-crs|raises", case, repr(e))


def reproject_oracle(R: Run, out, dst, case, kind, approx=False, encoding_kept=True):
    import xarray as xr

    stale = sorted(str(k) for k, c in out.coords.items()
                   if c.ndim == 0 and ("spatial_ref" in c.attrs or "crs_wkt" in c.attrs) and str(k) != "spatial_ref")
    R.oracle(not stale, f"reproject|{kind}|stale-crs-coord", case, f"CRS coordinate(s) of the source survive in the output: {stale}")

    r = out.odc.geobox
    if r is None:
        R.oracle(False, f"reproject|{kind}|geobox", case, "output has no geobox")
        return
    if approx:
        A, B = tuple(dst.affine)[:6], tuple(r.affine)[:6]
        px = max(abs(A[0]), abs(A[1]), abs(A[3]), abs(A[4]))
        ok = tuple(r.shape) == tuple(dst.shape) and all(abs(a - b) <= 1e-9 * max(abs(a), px * max(dst.shape), 1) for a, b in zip(A, B))
    else:
        ok = tuple(r.shape) == tuple(dst.shape) and r.affine == dst.affine
    R.oracle(bool(ok), f"reproject|{kind}|geobox", case, f"recovered {r!r} but destination is {dst!r}")
    R.oracle(r.crs == dst.crs and out.odc.crs == dst.crs, f"reproject|{kind}|crs", case,
             f"recovered CRS epsg={getattr(r.crs, 'epsg', None)} but destination CRS epsg={dst.crs.epsg}")
    objs = [out] + ([v for v in out.data_vars.values() if v.odc.geobox is not None] if isinstance(out, xr.Dataset) else [])
    left = sorted({k for o in objs for k in o.attrs if k in SPATIAL})
    R.oracle(not left, f"reproject|{kind}|stale-attrs", case, f"stale spatial attributes survive: {left}")
    if isinstance(out, xr.DataArray) and encoding_kept:
        gm = out.encoding.get("grid_mapping")
        R.oracle(gm == "spatial_ref" and "spatial_ref" in out.coords, f"reproject|{kind}|grid-mapping", case, f"grid_mapping={gm}")
    R.oracle("keep" in (out.attrs if isinstance(out, xr.DataArray) else out["a"].attrs), f"reproject|{kind}|other-attrs-kept",
             case, "non-spatial attribute was dropped", trivial=True)


def replay(R: Run, rec) -> int:
    mods = _import()
    print("replay key:", rec.get("key"))
    print("replay case:", rec.get("case"))
    print("recorded:", rec.get("what"))
    R2 = Run("C09", R.tier, R.seed)
    case = rec.get("case") or {}
    if "corpus" in case or True:
        corpus(R2, mods)
    if "line" in case:
        from .common import run_driver

        try:
            print("model:", run_driver("C09", [case["line"]]))
        except Exception as e:  # pylint: disable=broad-except
            print("model driver unavailable:", e)
    hits = [f for f in R2.oracle_failures]
    if rec.get("key"):
        same = [f for f in hits if f["key"] == rec["key"]]
        for f in same[:3]:
            print("still fails:", f["what"])
        if same:
            return 1
    if case.get("reproject") or "line" in case or case.get("float"):
        # re-run the generated part with the recorded seed and look for the same key
        R3 = Run("C09", rec.get("tier", R.tier), int(rec.get("seed", R.seed)))
        run(R3)
        same = [f for f in R3.oracle_failures if f["key"] == rec.get("key")]
        for f in same[:3]:
            print("still fails:", f["case"], f["what"])
        return 1 if same else 0
    return 0
