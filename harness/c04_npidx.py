"""C04 — tile / pixel / window indexes given as numpy integer scalars of every width.

A tile index read from a compact table (uint8 / int16 ...), a pixel coordinate held in a uint16 array or the tuple
`locate()` hands back must either be refused (any exception) or give exactly the answer of the same call with Python
ints: fixed-width arithmetic on the index (index * tile size, index + 1, cumulative offsets) must never leak into the
result.  Every indexing entry point x every numpy integer dtype, at values where index * tile size, index + 1 or the
offsets leave the range of the dtype.  Oracle only (model-independent: the reference is the real code on Python ints,
which the correspondence ties to the Lean model)."""
from __future__ import annotations

import warnings

import numpy as np

from .common import Run, guarded

DTYPES = [np.uint8, np.int8, np.uint16, np.int16, np.uint32, np.int32, np.uint64, np.int64]


def _py(o):
    """canonical text of a result with every numpy scalar turned into a Python int"""
    if isinstance(o, slice):
        return f"{_py(o.start)}:{_py(o.stop)}"
    if isinstance(o, (tuple, list)):
        return "(" + ",".join(_py(v) for v in o) + ")"
    if hasattr(o, "yx") and not isinstance(o, np.ndarray):
        return _py(tuple(o.yx))
    if isinstance(o, (int, np.integer)):
        return str(int(o))
    if isinstance(o, float):
        return repr(o)
    return str(o)


def _gbox_s(g):
    return f"{_py(tuple(g.shape))} {tuple(float(v) for v in tuple(g.affine)[:6])}"


def interesting(dt, T, n):
    """index values of dtype `dt` for an axis of T tiles of nominal size n: small, last, around the points where
    v * n, (v + 1) * n or v + 1 leave the dtype, negative ones"""
    info = np.iinfo(dt)
    vals = {0, 1, 2, 3, T - 1, T - 2, T, info.max, info.max - 1, -1, -2, -T, info.min}
    if n > 0:
        for lim in (info.max, info.max // 2):
            k = lim // n
            vals |= {k - 1, k, k + 1, k + 2}
    return sorted(v for v in vals if info.min <= v <= info.max)


def npidx_stream(R: Run, Rm, GeoBox, GeoboxTiles, BlockAssembler):
    from affine import Affine

    rng = R.rng
    layouts = [
        ("r", (1000, 100), (1000, 100)),           # uint8 / int8: index * 100 leaves the dtype from index 2 / 3 on
        ("r", (512, 512), (70000, 512)),           # uint16: 128 * 512; 512 itself does not fit (u)int8
        ("r", (300, 7), (40000, 130)),             # int16: 253 * 130
        ("r", (2 ** 33 + 5, 2 ** 20), (2 ** 34, 2 ** 16)),  # (u)int32: 4096 * 2^20, 65536 * 2^16
        ("r", (260, 1), (40, 3)),                  # index + 1 leaves uint8 with tile size 1
        ("v", (1,) * 300, (3,) * 140),             # variable: index + 1 leaves uint8 at 255, int8 at 127
        ("v", (200,) * 400, (100, 0, 155) * 90),   # offsets beyond 2^16; zero-length chunks
    ]
    quick = R.quick

    def sub(seq, k):
        return seq if len(seq) <= k else sorted(set(rng.sample(seq, k)) | {seq[0], seq[-1]})

    with warnings.catch_warnings():
        warnings.simplefilter("ignore")
        for kind, sy, sx in layouts:
            if kind == "r":
                t = Rm.Tiles((sy[0], sx[0]), (sy[1], sx[1]))
                how = (sy[1], sx[1])
                ny_, nx_ = sy[1], sx[1]
            else:
                t = Rm.VariableSizedTiles((tuple(sy), tuple(sx)))
                how = (tuple(sy), tuple(sx))
                ny_, nx_ = sy[0], sx[0]
            NY, NX = (int(v) for v in t.base.yx)
            Ty, Tx = (int(v) for v in t.shape.yx)
            gbt = None
            if NY < 2 ** 31 and NX < 2 ** 31:
                gbt = GeoboxTiles(GeoBox((NY, NX), Affine(2, 0, 10, 0, -2, 20), "EPSG:3857"), how)
            tag = f"{kind}:{NY}x{NX}"
            for dt in DTYPES:
                rows, cols = interesting(dt, Ty, ny_), interesting(dt, Tx, nx_)
                pairs = [(r, 0) for r in rows] + [(0, c) for c in cols]
                pairs += [(rng.choice(rows), rng.choice(cols)) for _ in range(4 if quick else 16)]
                for r, c in sub(pairs, 14 if quick else 60):
                    ni, pi = (dt(r), dt(c)), (int(r), int(c))
                    eps = {
                        "get": lambda i: _py(t[i]),
                        "tile_shape": lambda i: _py(t.tile_shape(i)),
                        "crop": lambda i: _py(t.crop(i).base) + _py(t.crop(i).chunks),
                    }
                    if gbt is not None:
                        eps.update({
                            "gbt.get": lambda i: _gbox_s(gbt[i]),
                            "gbt.chunk_shape": lambda i: _py(gbt.chunk_shape(i)),
                            "gbt.pix_bbox": lambda i: _py(tuple(gbt.pix_bbox(i).bbox)),
                            "gbt.roi": lambda i: _py(gbt.roi[i]),
                            "gbt.crop": lambda i: _gbox_s(gbt.crop[i].base) + _py(gbt.crop[i].chunks),
                        })
                    for ep, fn in eps.items():
                        want = guarded(lambda: fn(pi))
                        if ep in ("crop", "gbt.crop") and want.startswith("ERR:"):
                            continue
                        got = guarded(lambda: fn(ni))
                        ok = got.startswith("ERR:") or got == want
                        R.oracle(ok, "numpy-index-wrong-answer",
                                 {"layout": [kind, list(sy)[:4], list(sx)[:4], len(sy), len(sx)], "entry": ep, "dtype": np.dtype(dt).name,
                                  "r": int(r), "c": int(c)},
                                 f"{ep}[{np.dtype(dt).name}({r}), {np.dtype(dt).name}({c})] = {got[:120]}, with Python ints {want[:120]}",
                                 sig=f"npidx|{ep}|{np.dtype(dt).name}|{'refused' if got.startswith('ERR:') else 'answered'}")
                # model correspondence on the row axis (Model/C04Np: conversion in tile_shape / locate, refusal in [])
                from .c04 import ns, tiling_tok

                ttok = tiling_tok(kind, sy)
                tname = ("u" if np.dtype(dt).kind == "u" else "i") + str(np.dtype(dt).itemsize * 8)
                for r in sub(rows, 8 if quick else 30):
                    R.corr(f"c04 np shape {ttok} {tname}:{r}", lambda r=r: str(int(t.tile_shape((dt(r), 0)).y)),
                           sig=f"np-corr|shape|{tname}")
                    R.corr(f"c04 np get {ttok} {tname}:{r}", lambda r=r: ns(t[dt(r), 0][0]), sig=f"np-corr|get|{tname}")
                    if -2 ** 63 <= r < 2 ** 63 - 1:  # beyond a C long numpy's own indexing raises OverflowError (outside Spec/NpArray)
                        R.corr(f"c04 np get {ttok} p:{r}", lambda r=r: ns(t[int(r), 0][0]), sig="np-corr|get|py")
                for py_ in sub(sorted({v for v in (0, 1, NY - 1, NY, -1, min(np.iinfo(dt).max, NY - 1), NY // 2)
                                       if np.iinfo(dt).min <= v <= np.iinfo(dt).max}), 6):
                    R.corr(f"c04 np locate {ttok} {tname}:{py_}", lambda py_=py_: str(int(t.locate((dt(py_), 0))[0])),
                           sig=f"np-corr|locate|{tname}")
                # pixel -> tile -> region round trip with pixel coordinates of this dtype
                info = np.iinfo(dt)
                pys = [v for v in {0, 1, NY - 1, NY // 2, min(info.max, NY - 1), min(info.max, NY - 1) - 1, -1, NY} if info.min <= v <= info.max]
                pxs = [v for v in {0, 1, NX - 1, NX // 2, min(info.max, NX - 1), min(info.max, NX - 1) - 1, -1, NX} if info.min <= v <= info.max]
                for py in pys:
                    for px in sub(pxs, 4 if quick else 8):
                        want = guarded(lambda: _py(t.locate((int(py), int(px)))))
                        idx_box = []

                        def loc():
                            o = t.locate((dt(py), dt(px)))
                            idx_box.append(o)
                            return _py(o)

                        got = guarded(loc)
                        case = {"layout": [kind, list(sy)[:4], list(sx)[:4], len(sy), len(sx)], "entry": "locate", "dtype": np.dtype(dt).name,
                                "r": int(py), "c": int(px)}
                        R.oracle(got.startswith("ERR:") or got == want, "numpy-index-wrong-answer", case,
                                 f"locate(({np.dtype(dt).name}({py}), {np.dtype(dt).name}({px}))) = {got}, with Python ints {want}",
                                 sig=f"npidx|locate|{np.dtype(dt).name}")
                        if idx_box and not want.startswith("ERR:"):
                            # the tuple locate() returned, used as it is
                            reg = guarded(lambda: _py(t[idx_box[0]]))
                            wreg = guarded(lambda: _py(t[tuple(int(v) for v in idx_box[0])]))
                            R.oracle(reg.startswith("ERR:") or reg == wreg, "numpy-index-wrong-answer",
                                     dict(case, entry="get(locate())"),
                                     f"region of the tile located for pixel ({py}, {px}) [{np.dtype(dt).name}]: {reg}, with Python ints {wreg}",
                                     sig=f"npidx|get-of-locate|{np.dtype(dt).name}|{'refused' if reg.startswith('ERR:') else 'answered'}")
                            shp = guarded(lambda: _py(t.tile_shape(idx_box[0])))
                            wshp = guarded(lambda: _py(t.tile_shape(tuple(int(v) for v in idx_box[0]))))
                            R.oracle(shp.startswith("ERR:") or shp == wshp, "numpy-index-wrong-answer",
                                     dict(case, entry="tile_shape(locate())"),
                                     f"tile_shape of the tile located for pixel ({py}, {px}) [{np.dtype(dt).name}]: {shp}, with Python ints {wshp}",
                                     sig=f"npidx|shape-of-locate|{np.dtype(dt).name}")

        # BlockAssembler windows: int entries of the window as numpy scalars (Y/X and extra axes)
        chy, chx = (100, 100, 100), (50, 10)
        blocks = {(iy, ix): np.arange(3 * chy[iy] * chx[ix], dtype="int32").reshape(3, chy[iy], chx[ix]) + 1000 * (iy * 2 + ix)
                  for iy in range(3) for ix in range(2) if (iy, ix) != (1, 1)}
        asm = BlockAssembler(blocks, (chy, chx), axis=1)

        def arr_s(a):
            return f"{a.shape} {a.dtype} {int(a.astype('int64').sum())} {int(a.ravel()[0]) if a.size else '-'}"

        def to_py(win):
            return tuple(int(v) if isinstance(v, np.integer) else v for v in win)

        for dt in DTYPES:
            info = np.iinfo(dt)
            ys = [v for v in (0, 1, 99, 100, 127, 128, 254, 255, 256, 299, -1, -45) if info.min <= v <= info.max]
            for y in ys:
                wins = [(dt(y), slice(0, 60)), (slice(None), dt(y), slice(5, 55)), (dt(1), slice(250, 300), dt(y)),
                        (dt(2), dt(y), dt(3))]
                for win in wins:
                    want = guarded(lambda: arr_s(asm.extract(-1, roi=to_py(win))))
                    got = guarded(lambda: arr_s(asm.extract(-1, roi=win)))
                    R.oracle(got.startswith("ERR:") or got == want, "numpy-index-wrong-answer",
                             {"entry": "BlockAssembler.extract", "dtype": np.dtype(dt).name, "y": int(y), "win": str(win)},
                             f"extract(roi={win}) = {got}, with Python ints {want}",
                             sig=f"npidx|extract|{np.dtype(dt).name}|{'refused' if got.startswith('ERR:') else 'answered'}")

        # model correspondence: windows with numpy members (Model/C04Np.normRoiNp) and the GeoboxTiles entry points
        from affine import Affine as _Aff

        from .c04 import ints as _ints, ns as _ns, tiling_tok as _tt

        def tok(v):
            if isinstance(v, slice):
                return f"s:{'N' if v.start is None else v.start}:{'N' if v.stop is None else v.stop}"
            if isinstance(v, np.integer):
                return ("u" if v.dtype.kind == "u" else "i") + str(v.dtype.itemsize * 8) + f":{int(v)}"
            return f"p:{int(v)}"

        for _ in range(R.pick(60, 400)):
            dt = rng.choice(DTYPES)
            mk_i = lambda v: dt(v) if rng.random() < 0.6 else int(v)
            L = rng.randint(1, 4)
            sizes = [3, 300, 60, 5]   # a member per axis that is a legitimate index of that axis (a 4th member is one too many)
            win = tuple((mk_i(rng.randint(0, min(sizes[k], 120) - 1)) if rng.random() < 0.5 else slice(0, rng.randint(1, sizes[k])))
                        for k in range(L))
            if L == 2:
                # a 2-tuple is the Y, X window
                win = tuple((mk_i(rng.randint(0, min(n_, 120) - 1)) if rng.random() < 0.5 else slice(0, rng.randint(1, n_)))
                            for n_ in (300, 60))
            out = guarded(lambda: "ok" if asm.extract(-1, roi=win) is not None else "ok")
            R.corr(f"c04 np roi [3,300,60] 1 {'[' + ','.join(tok(v) for v in win) + ']'}", lambda out=out: out,
                   sig=f"np-corr|roi|len{L}|{out}")
        gspecs = [("r", (10, 3), (7, 2)), ("v", (2, 0, 3), (1, 2, 1)), ("r", (300, 1), (40, 3))]
        for kind, sy, sx in gspecs:
            NYg = sy[0] if kind == "r" else sum(sy)
            NXg = sx[0] if kind == "r" else sum(sx)
            how = (sy[1], sx[1]) if kind == "r" else (tuple(sy), tuple(sx))
            g = GeoboxTiles(GeoBox((NYg, NXg), _Aff(1, 0, 0, 0, -1, 0), "EPSG:3857"), how)
            for _ in range(R.pick(25, 150)):
                dt = rng.choice(DTYPES)
                info = np.iinfo(dt)
                vy, vx = (rng.choice([v for v in (0, 1, 2, -1, 255, 127, -128, 3) if info.min <= v <= info.max]) for _ in range(2))
                iy = dt(vy) if rng.random() < 0.7 else int(vy)
                ix = dt(vx) if rng.random() < 0.7 else int(vx)
                head = f"{_tt(kind, sy)} {_tt(kind, sx)} {tok(iy)} {tok(ix)}"
                R.corr(f"c04 np gbt region {head}", lambda iy=iy, ix=ix: " ".join(_ns(v) for v in g.roi[iy, ix]), sig="np-corr|gbt-region")
                R.corr(f"c04 np gbt region {head}",
                       lambda iy=iy, ix=ix: (lambda b: f"{int(b.top) if False else ''}")(None) or
                       (lambda b: f"{int(b.bottom)}:{int(b.top)} {int(b.left)}:{int(b.right)}")(g.pix_bbox((iy, ix))),
                       sig="np-corr|gbt-pixbbox")
                R.corr(f"c04 np gbt cshape {head}", lambda iy=iy, ix=ix: "{} {}".format(*(int(v) for v in g.chunk_shape((iy, ix)).yx)),
                       sig="np-corr|gbt-cshape")

