"""C14, second part — the public entry points of GridSpec from their RAW arguments (model: lean/OdcGeo/Model/C14Args.lean).

Called from `c14.run` (the module `c14` is handed in as `H`, so that both files share the emitters / token formats).
Correspondence ops: shape / res / idx (normalisers alone, exhaustive over a small pool of spellings), init, tga, fsta, weba,
ptx / idxbx (IEEE specials), sched (several live generators over one shared cache under a random schedule), eqo / beq,
gjd (geojson document incl. the no-argument branch).  Oracles (never use the model): spelling independence, index spellings,
generator interleaving transparency + cache coherence, specials never answered with tiles, geojson default = valid-region query.
"""
from __future__ import annotations

import itertools
import math
import random
from fractions import Fraction
from typing import List

from .common import bool_s, frac_s, guarded, list_s


def _T():
    import numpy as np
    from odc.geo import types as T
    from odc.geo.crs import CRS as CRSc

    return T, np, CRSc


# ----------------------------------------------------------------------------- tokens
def num_tok(v) -> str:
    """token of a Python number as `Num`: bool/int/numpy int -> i…, float -> f… / nan / inf / -inf"""
    import numpy as np

    if isinstance(v, (bool, int, np.integer)):
        return f"i{int(v)}"
    v = float(v)
    if math.isnan(v):
        return "nan"
    if math.isinf(v):
        return "inf" if v > 0 else "-inf"
    return "f" + frac_s(v)


def xf_tok(v: float) -> str:
    if math.isnan(v):
        return "nan"
    if math.isinf(v):
        return "inf" if v > 0 else "-inf"
    return frac_s(v)


def seq_tok(kind: str, xs) -> str:
    return kind + "[" + ",".join(num_tok(x) for x in xs) + "]"


def shape_spellings(T, np, ny: int, nx: int, rng=None):
    """spellings that denote the shape (ny, nx): (name, python value, token)"""
    out = [
        ("tuple", (ny, nx), seq_tok("T", (ny, nx))),
        ("list", [ny, nx], seq_tok("L", (ny, nx))),
        ("shape2d", T.Shape2d(x=nx, y=ny), f"S:{ny}:{nx}"),
        ("xy", T.xy_(nx, ny), f"X:i{nx}:i{ny}"),
        ("index2d", T.ixy_(nx, ny), f"X:i{nx}:i{ny}"),
        ("np-ints", (np.int64(ny), np.int32(nx)), seq_tok("T", (ny, nx))),
        ("float-tuple", (float(ny), float(nx)), seq_tok("T", (float(ny), float(nx)))),
    ]
    if ny >= 0 and nx >= 0:   # int() truncates toward zero
        fy, fx = ny + 0.5, nx + 0.75
        out.append(("frac-tuple", (fy, fx), seq_tok("T", (fy, fx))))
        out.append(("frac-list", [fy, nx], seq_tok("L", (fy, nx))))
        out.append(("frac-xy", T.xy_(fx, fy), f"X:{num_tok(fx)}:{num_tok(fy)}"))
    return out


def bad_shapes(T, np):
    nan, inf = float("nan"), float("inf")
    return [
        ("len0", (), "T[]"), ("len1", (3,), "T[i3]"), ("len3", (2, 3, 4), "T[i2,i3,i4]"), ("len4-list", [2, 3, 4, 5], "L[i2,i3,i4,i5]"),
        ("int", 5, "O"), ("none", None, "O"), ("ndarray", np.array([2, 3]), "O"), ("set", {2, 3}, "O"), ("float", 2.5, "O"),
        ("nan-1st", (nan, 3), "T[nan,i3]"), ("inf-2nd", (2, inf), "T[i2,inf]"), ("inf-1st-nan-2nd", (-inf, nan), "T[-inf,nan]"),
        ("len3-inf-3rd", (2, 3, inf), "T[i2,i3,inf]"), ("len3-nan-3rd", [2, 3, nan], "L[i2,i3,nan]"), ("len1-inf", [inf], "L[inf]"),
        ("len1-nan", (nan,), "T[nan]"), ("xy-nan", T.xy_(nan, 2), "X:nan:i2"), ("xy-inf-y", T.xy_(2, -inf), "X:i2:-inf"),
        ("len4-inf-4th", (2, 3, 4, inf), "T[i2,i3,i4,inf]"),
    ]


def res_spellings(T, np, rx: float, ry: float):
    out = [("resolution", T.resxy_(rx, ry), f"R:{frac_s(rx)}:{frac_s(ry)}")]
    if ry == -rx:
        out.append(("float", float(rx), "f" + frac_s(rx)))
        out.append(("np-float64", np.float64(rx), "f" + frac_s(rx)))
        if float(rx).is_integer():
            out.append(("int", int(rx), f"i{int(rx)}"))
    return out


def bad_res(T, np):
    return [("str", "1", "O"), ("tuple", (1.0, -1.0), "O"), ("np-float32", np.float32(1.5), "O"), ("none", None, "O"),
            ("np-int64", np.int64(3), "O"), ("xy", T.xy_(1.0, -1.0), "O")]


def idx_spellings(T, np, ix: int, iy: int):
    out = [("tuple", (ix, iy), f"T[{ix},{iy}]"), ("index2d", T.ixy_(ix, iy), f"I:{ix}:{iy}"), ("xy", T.xy_(ix, iy), f"X:{ix}:{iy}"),
           ("ixy-of-xy", T.ixy_(T.xy_(ix, iy)), f"I:{ix}:{iy}")]
    for name in ("int16", "int32", "int64"):
        dt = getattr(np, name)
        info = np.iinfo(dt)
        if info.min <= ix <= info.max and info.min <= iy <= info.max:
            out.append((f"tuple-np-{name}", (dt(ix), dt(iy)), f"T[{ix},{iy}]"))
            out.append((f"xy-np-{name}", T.xy_(dt(ix), dt(iy)), f"X:{ix}:{iy}"))
    return out


def bad_idx(T, np, ix: int, iy: int):
    return [("list", [ix, iy], f"L[{ix},{iy}]"), ("len1", (ix,), f"T[{ix}]"), ("len3", (ix, iy, 0), f"T[{ix},{iy},0]"), ("len0", (), "T[]"),
            ("int", 5, "O"), ("none", None, "O"), ("ndarray", np.array([ix, iy]), "O")]


CRS_FORMS = None


def crs_forms(H, CRSc):
    """(name, python value, token): spellings norm_crs_or_error accepts for H.CRS, and the rejected classes"""
    from odc.geo.types import Unset

    good = [("str", H.CRS, "V"), ("str-upper", H.CRS.upper(), "V"), ("crs-object", CRSc(H.CRS), "V"), ("epsg-int", 3577, "V")]
    bad = [("none", None, "N"), ("unset", Unset(), "N"), ("bogus", "bogus:crs", "I"), ("utm", "utm", "U"), ("utm-n", "UTM-N", "U"),
           ("utm-prefixed", "utmost", "U")]
    return good, bad


# ----------------------------------------------------------------------------- oracles
def oracle_spelling(C, H, O, sp, gs_alt, what_spelling: str, ks, pts):
    """a grid built from another spelling of the same values is the same grid: same tiles, same lookups, `==`"""
    canon = sp.make(O)
    bad = None
    try:
        if not (gs_alt == canon and canon == gs_alt):
            bad = "== is False"
        for k in ks:
            if bad:
                break
            a, b = gs_alt[k], canon[k]
            if tuple(a.shape) != tuple(b.shape) or tuple(a.affine) != tuple(b.affine) or H.fbb(a.boundingbox) != H.fbb(b.boundingbox):
                bad = f"tile {k}: {a!r} vs {b!r}"
        for (x, y) in pts:
            if bad:
                break
            if gs_alt.pt2idx(x, y) != canon.pt2idx(x, y):
                bad = f"pt2idx({x},{y}): {gs_alt.pt2idx(x, y)} vs {canon.pt2idx(x, y)}"
    except Exception as e:  # pylint: disable=broad-except
        bad = repr(e)
    C.oracle(bad is None, "init-spelling-changes-grid", {"op": "a:init", "grid": sp.tok(), "spelling": what_spelling},
             f"GridSpec built with {what_spelling} differs from the grid built from the same values as tuple/Resolution/XY: {bad}",
             sig="init|spelling-oracle")


def build_spelled(H, O, T, np, sp, shape_name: str, res_name: str, omit_origin: bool):
    shape_v = dict((n, v) for n, v, _ in shape_spellings(T, np, sp.ny, sp.nx))[shape_name]
    res_v = dict((n, v) for n, v, _ in res_spellings(T, np, sp.rx, sp.ry))[res_name]
    kw = {} if omit_origin else {"origin": O.xy_(sp.ox, sp.oy)}
    return O.GridSpec(H.CRS, shape_v, res_v, flipx=sp.fx, flipy=sp.fy, **kw)


class _RaisesOnFirstNext:
    """stands for a generator whose creation already raised (a library that validates eagerly): observably the same as a
    generator that raises on its first `next()` and is finished afterwards"""

    def __init__(self, exc):
        self.exc = exc

    def __iter__(self):
        return self

    def __next__(self):
        if self.exc is None:
            raise StopIteration
        e, self.exc = self.exc, None
        raise e


def run_sched(H, O, gs, gens_desc, ops):
    """real code: several live generators over ONE cache, advanced by `ops`; returns (tokens, cache, per-generator yields)"""
    cache: dict = {}
    gens = []
    for d in gens_desc:
        try:
            if d[0] == "B":
                gens.append(gs.tiles(O.BoundingBox(*d[2], H.CRS if d[1] else "epsg:4326"), cache))
            else:
                gens.append(gs.tiles_from_geopolygon(H.mk_poly(O, d[1]), cache))
        except AssertionError as e:
            gens.append(_RaisesOnFirstNext(e))
    outs: List[str] = []
    ylds: List[list] = [[] for _ in gens]
    for op in ops:
        if op == "c":
            cache.clear()
            outs.append("-")
            continue
        i = int(op[1:])
        try:
            k, gb = next(gens[i])
            ylds[i].append((tuple(map(int, k)), gb))
            outs.append(H.idx_s(k))
        except StopIteration:
            outs.append("-")
        except AssertionError:
            outs.append("ERR:AssertionError")
        if len(cache) > H.TILE_CAP:
            raise RuntimeError("cache grows without bound")
    return outs, cache, ylds


def drain_ops(H, O, gs, gens_desc):
    """`next()` calls that exhaust every generator (lengths from the stateless queries): after them the cache holds every tile
    of every query, however lazily or eagerly the library fills it"""
    ops = []
    for i, d in enumerate(gens_desc):
        try:
            if d[0] == "B":
                n = len(H.ltiles(gs.tiles(O.BoundingBox(*d[2], H.CRS)))) if d[1] else 0
            else:
                g = H.mk_poly(O, d[1])
                n = len(H.ltiles(gs.tiles(g.boundingbox)))
        except Exception:  # pylint: disable=broad-except
            n = 0
        ops += [f"n{i}"] * (n + 1)
    return ops


def sched_tok(gens_desc, ops) -> str:
    t = [str(len(gens_desc))]
    for d in gens_desc:
        if d[0] == "B":
            t.append(f"B {bool_s(d[1])} " + " ".join(H_fs(v) for v in d[2]))
        else:
            t.append("P " + list_s(d[1], lambda p: f"{H_fs(p[0])};{H_fs(p[1])}"))
    return " ".join(t + list(ops))


def H_fs(x) -> str:
    return frac_s(float(x))


def oracle_sched(C, H, O, gs, sp, gens_desc, ops):
    """any interleaving over a shared cache: every generator yields a prefix of its own stateless result, each with the geobox
    of its index; the cache only ever maps an index to the geobox of that index"""
    bad = None
    try:
        outs, cache, ylds = run_sched(H, O, gs, gens_desc, ops)
        for d, y in zip(gens_desc, ylds):
            if d[0] == "B":
                ref = [tuple(map(int, k)) for k, _ in H.ltiles(gs.tiles(O.BoundingBox(*d[2], H.CRS)))] if d[1] else []
            else:
                ref = [tuple(map(int, k)) for k, _ in H.ltiles(gs.tiles_from_geopolygon(H.mk_poly(O, d[1])))]
            got = [k for k, _ in y]
            if got != ref[: len(got)]:
                bad = f"generator {d[0]} yielded {got[:8]} but alone, without cache, it yields {ref[:8]}"
                break
            for k, gb in y:
                if gb != gs.tile_geobox(k):
                    bad = f"tile {k} came with geobox {gb!r}, not {gs.tile_geobox(k)!r}"
                    break
        for k, gb in cache.items():
            if bad:
                break
            if gb != gs.tile_geobox(k):
                bad = f"cache[{k}] = {gb!r} is not the geobox of that index"
    except Exception as e:  # pylint: disable=broad-except
        bad = repr(e)
    C.oracle(bad is None, "generator-interleaving-changes-result",
             {"op": "a:sched", "grid": sp.tok(), "gens": [[d[0], d[1] if d[0] == "P" else bool(d[1]), list(d[2]) if d[0] == "B" else None] for d in gens_desc],
              "ops": list(ops)}, str(bad), sig="sched|oracle")
    return bad is None


def gen_sched(H, rng, sp, lattice: bool):
    """a few generators (bbox queries, one possibly in a foreign CRS; convex polygons) and a random schedule"""
    sx, sy = sp.szx, sp.szy
    X = lambda a: float(Fraction(sp.ox) + Fraction(a) * sx)
    Y = lambda b: float(Fraction(sp.oy) + Fraction(b) * sy)
    fr = (lambda: Fraction(rng.randint(-12, 12), 4)) if lattice else (lambda: Fraction(rng.uniform(-3, 3)))
    gens = []
    for _ in range(rng.randint(1, 4)):
        if rng.random() < 0.55:
            a, b = sorted((fr(), fr()))
            c, d = sorted((fr(), fr()))
            if lattice:   # keep the four probe coordinates away from tile edges (E mode), unless exactly representable
                a, c = a + Fraction(1, 8), c + Fraction(1, 8)
                b, d = b + Fraction(3, 8), d + Fraction(3, 8)
            gens.append(("B", rng.random() < 0.85, (X(a), Y(c), X(b), Y(d))))
        else:
            pts = H.convex_pts(rng, [(X(fr() + Fraction(1, 8)), Y(fr() + Fraction(1, 8))) for _ in range(rng.choice([3, 4]))])
            if pts is not None:
                gens.append(("P", pts, None))
    if not gens:
        gens.append(("B", True, (X(Fraction(1, 8)), Y(Fraction(1, 8)), X(Fraction(11, 8)), Y(Fraction(5, 8)))))
    ops = []
    for _ in range(rng.randint(4, 28)):
        ops.append("c" if rng.random() < 0.08 else f"n{rng.randrange(len(gens))}")
    return gens, ops


def valid_bbox(gs, O):
    """the query `GridSpec.geojson()` runs when called without arguments (gridspec.py:255-261), computed here with pyproj"""
    vr = gs.crs.valid_region
    if vr is None:
        vr = O.geom.box(-180, -90, 180, 90, "epsg:4326")
    return vr.buffer(-0.05).to_crs(gs.crs, resolution=0.5).boundingbox


def gj_s(fc) -> str:
    ids = [f["properties"]["idx"] for f in fc["features"]]
    p = fc["properties"]
    return f"{'|'.join(ids) if ids else '-'} {p['tile_shape'].y} {p['tile_shape'].x} {H_fs(p['resolution'].x)} {H_fs(p['resolution'].y)}"


def oracle_geojson_both(C, H, O, gs, sp, tri, qb):
    """geojson(bbox=…), geojson(geopolygon=…) and geojson(bbox=…, geopolygon=…): the features are the tiles of the bbox query,
    resp. of the polygon query (the polygon is never ignored: every listed tile meets it — shapely — and every tile of the box
    that the polygon covers with positive area is listed)"""
    import shapely.geometry as sg

    case = {"op": "a:gjboth", "grid": sp.tok(), "tri": [[H.fs(p[0]), H.fs(p[1])] for p in tri], "bbox": [H.fs(v) for v in qb]}
    bad = None
    try:
        bbq, pq = O.BoundingBox(*qb, H.CRS), H.mk_poly(O, tri)
        ids = lambda fc: [tuple(int(v) for v in f["properties"]["idx"].split(",")) for f in fc["features"]]
        shp = sg.Polygon(tri)
        t_box = [tuple(map(int, k)) for k, _ in H.ltiles(gs.tiles(bbq))]
        t_poly = [tuple(map(int, k)) for k, _ in H.ltiles(gs.tiles_from_geopolygon(pq))]
        for name, fc, want in (("bbox", gs.geojson(bbox=bbq), t_box), ("geopolygon", gs.geojson(geopolygon=pq), t_poly),
                               ("bbox+geopolygon", gs.geojson(bbox=bbq, geopolygon=pq), t_poly),
                               ("geopolygon+bbox", gs.geojson(geopolygon=pq, bbox=bbq), t_poly)):
            got = ids(fc)
            if got != want:
                bad = f"geojson({name}) lists {got[:10]} but the corresponding query yields {want[:10]}"
                break
            if "geopolygon" in name:
                for k in got:
                    if not shp.intersects(sg.box(*gs[k].boundingbox)):
                        bad = f"geojson({name}) lists tile {k}, which does not meet the polygon {tri}"
                        break
            if bad:
                break
    except Exception as e:  # pylint: disable=broad-except
        bad = repr(e)
    C.oracle(bad is None, "geojson-query-dispatch", case, str(bad), sig="geojson-doc|both-oracle")


def oracle_geobox_cover(C, H, O, gs, sp, shape, aff6, npts, seed):
    """`gs.tiles(geobox.boundingbox)` for a GeoBox with ANY affine (rotated / sheared / mirrored): the tile of every sampled
    point of the GeoBox footprint is among the returned tiles unless the point lies in the 1e-8 band along the bounding box
    (theorem geobox_bbox_query_covers, composition with C16's from_transform)"""
    from affine import Affine
    from odc.geo.geobox import GeoBox

    case = {"op": "a:cover", "grid": sp.tok(), "shape": list(shape), "affine": [H.fs(v) for v in aff6], "n": npts, "seed": seed}
    bad = None
    try:
        A = Affine(*aff6)
        gbx = GeoBox(shape, A, H.CRS)
        bb = gbx.boundingbox
        got = {tuple(map(int, k)) for k, _ in H.ltiles(gs.tiles(bb))}
        rr = random.Random(seed)
        ny, nx = shape
        big = max([sp.scale()] + [abs(Fraction(v)) for v in bb])
        band = float(H.TOL + Fraction(1, 10**9) * big)
        pts = [(0, 0), (nx, 0), (0, ny), (nx, ny), (nx / 2, ny / 2)] + [(rr.uniform(0, nx), rr.uniform(0, ny)) for _ in range(npts)]
        for (u, v) in pts:
            x, y = A * (u, v)
            if not (bb.left - band <= x <= bb.right + band and bb.bottom - band <= y <= bb.top + band):
                bad = f"pixel ({u},{v}) -> ({x},{y}) lies outside geobox.boundingbox {tuple(bb)[:4]}"
                break
            if bb.left + band <= x <= bb.right - band and bb.bottom + band <= y <= bb.top - band:
                k = tuple(map(int, gs.pt2idx(x, y).xy))
                # a point within rounding distance of a tile edge may be looked up as either neighbour: accept both
                ks = {tuple(map(int, gs.pt2idx(x + dx, y + dy).xy)) for dx in (-band, band) for dy in (-band, band)} | {k}
                if not (ks & got):
                    bad = f"pixel ({u},{v}) -> ({x},{y}) is in tile {k}, which tiles(geobox.boundingbox) does not return ({sorted(got)[:8]})"
                    break
    except Exception as e:  # pylint: disable=broad-except
        bad = repr(e)
    C.oracle(bad is None, "geobox-bbox-query-misses-footprint-point", case, str(bad), sig="tiles|geobox-boundingbox")


# ----------------------------------------------------------------------------- deterministic thread step scheduler
def run_threads(H, O, gs, queries, schedule, timeout=5.0):
    """REAL threads, each consuming one query generator over ONE shared cache; the cache is a dict whose `get` / `__setitem__`
    (the operations of the user-supplied collaborator) are synchronisation points: a thread performs its next dictionary operation
    only when the schedule names it (entries naming a finished thread are skipped); when the schedule is used up the threads run
    to completion one after the other.  Fully deterministic: between two grants every thread is parked or finished.
    Returns (per-thread result or exception text, cache)."""
    import threading

    n = len(queries)
    cv = threading.Condition()
    st = {"waiting": [False] * n, "done": [False] * n, "grant": None, "free": False, "dead": False}
    ids: dict = {}

    def sync():
        i = ids.get(threading.get_ident())
        if i is None:
            return
        with cv:
            if st["free"]:
                # free-running phase: strictly one thread at a time, in thread order
                return
            st["waiting"][i] = True
            cv.notify_all()
            if not cv.wait_for(lambda: st["grant"] == i or st["dead"], timeout):
                st["dead"] = True
            st["grant"] = None
            st["waiting"][i] = False
            cv.notify_all()

    class Cache(dict):
        def get(self, k, default=None):
            sync()
            return dict.get(self, k, default)

        def __setitem__(self, k, v):
            sync()
            dict.__setitem__(self, k, v)

    cache = Cache()
    results: list = [None] * n

    def body(i):
        ids[threading.get_ident()] = i
        try:
            d = queries[i]
            if d[0] == "B":
                it = gs.tiles(O.BoundingBox(*d[2], H.CRS if d[1] else "epsg:4326"), cache)
            else:
                it = gs.tiles_from_geopolygon(H.mk_poly(O, d[1]), cache)
            results[i] = [(tuple(map(int, k)), gb) for k, gb in H.ltiles(it)]
        except Exception as e:  # pylint: disable=broad-except
            results[i] = "ERR:" + type(e).__name__
        finally:
            with cv:
                st["done"][i] = True
                cv.notify_all()

    ths = [threading.Thread(target=body, args=(i,), daemon=True) for i in range(n)]
    for th in ths:
        th.start()
    quiet = lambda: all(st["waiting"][j] or st["done"][j] for j in range(n))
    with cv:
        for tid in list(schedule) + [None]:
            if not cv.wait_for(lambda: quiet() or st["dead"], timeout) or st["dead"]:
                st["dead"] = True
                break
            if tid is None:
                break
            if tid >= n or st["done"][tid]:
                continue
            st["grant"] = tid
            cv.notify_all()
            if not cv.wait_for(lambda: st["grant"] is None or st["dead"], timeout):
                st["dead"] = True
                break
        # run to completion, one thread after the other
        for tid in range(n):
            while not st["done"][tid] and not st["dead"]:
                if not cv.wait_for(lambda: quiet() or st["dead"], timeout):
                    st["dead"] = True
                    break
                if st["done"][tid]:
                    break
                st["grant"] = tid
                cv.notify_all()
                if not cv.wait_for(lambda: st["grant"] is None or st["dead"], timeout):
                    st["dead"] = True
        if st["dead"]:
            cv.notify_all()
    for th in ths:
        th.join(timeout)
    if st["dead"]:
        raise RuntimeError("step scheduler timed out")
    return results, dict(cache)


def thr_s(H, results, cache) -> str:
    parts = [r if isinstance(r, str) else list_s([k for k, _ in r], H.idx_s) for r in results]
    return "|".join(parts) + " cache=" + list_s(sorted((tuple(map(int, k)) for k in cache), key=H.key_yx), H.idx_s)


def oracle_threads(C, H, O, gs, sp, queries, schedule):
    """under this interleaving every thread got exactly what its query yields alone (with the geobox of each index), and the
    shared cache maps indices to their own geoboxes"""
    bad = None
    try:
        results, cache = run_threads(H, O, gs, queries, schedule)
        for d, r in zip(queries, results):
            if d[0] == "B":
                ref = [tuple(map(int, k)) for k, _ in H.ltiles(gs.tiles(O.BoundingBox(*d[2], H.CRS)))] if d[1] else "ERR:AssertionError"
            else:
                ref = [tuple(map(int, k)) for k, _ in H.ltiles(gs.tiles_from_geopolygon(H.mk_poly(O, d[1])))]
            got = r if isinstance(r, str) else [k for k, _ in r]
            if got != ref:
                bad = f"thread with query {d[0]} got {got if isinstance(got, str) else got[:8]} under schedule {list(schedule)}, alone it yields {ref if isinstance(ref, str) else ref[:8]}"
                break
            if not isinstance(r, str):
                for k, gb in r:
                    if gb != gs.tile_geobox(k):
                        bad = f"tile {k} came with {gb!r}"
        for k, gb in cache.items():
            if bad is None and gb != gs.tile_geobox(k):
                bad = f"cache[{k}] = {gb!r} is not the geobox of that index"
    except Exception as e:  # pylint: disable=broad-except
        bad = repr(e)
    C.oracle(bad is None, "shared-cache-interleaving-changes-result",
             {"op": "a:thr", "grid": sp.tok(), "gens": [[d[0], d[1] if d[0] == "P" else bool(d[1]), list(d[2]) if d[0] == "B" else None] for d in queries],
              "schedule": list(schedule)}, str(bad), sig="threads|step-scheduler")


def oracle_specials(C, H, O, gs, sp, q):
    """bounds containing NaN / ±inf are never answered with tiles"""
    try:
        r = H.ltiles(gs.tiles(O.BoundingBox(*q, H.CRS)))
        ok, what = False, f"tiles({q}) returned {len(r)} tiles"
    except (ValueError, OverflowError):
        ok, what = True, ""
    except Exception as e:  # pylint: disable=broad-except
        ok, what = False, repr(e)
    C.oracle(ok, "non-finite-query-answered", {"op": "a:specials", "grid": sp.tok(), "bbox": [xf_tok(v) for v in q]}, what, sig="idxbx|oracle")


# ----------------------------------------------------------------------------- main
def run_args(R, O, H, lattice, presets):
    T, np, CRSc = _T()
    rng = R.rng
    corr = H.corr
    fs = H.fs
    nan, inf = float("nan"), float("inf")

    # --- the normalisers alone: exhaustive over a pool of spellings ------------------------------------------------
    def shape_real(v):
        s = T.shape_(v)
        return f"{int(s.y)} {int(s.x)}"

    def sentinel_real(v):
        try:
            return bool_s(bool(v == (-1, -1)))
        except Exception:  # pylint: disable=broad-except   (numpy: ambiguous truth value)
            return "F"

    seen = set()
    pool_n = [-1, 0, 1, 3, True, -1.0, 2.75, -1.5, -0.5, 3.0, nan, inf, -inf]
    shapes = []
    for a, b in itertools.product(pool_n, repeat=2):
        shapes += [("tuple2", (a, b), seq_tok("T", (a, b))), ("list2", [a, b], seq_tok("L", (a, b))), ("xy", T.xy_(a, b), f"X:{num_tok(a)}:{num_tok(b)}")]
        if all(isinstance(v, int) and not isinstance(v, bool) for v in (a, b)):
            shapes.append(("shape2d", T.Shape2d(x=b, y=a), f"S:{a}:{b}"))
            shapes.append(("index2d", T.ixy_(a, b), f"X:i{a}:i{b}"))
    shapes += bad_shapes(T, np)
    for name, v, tok in shapes:
        if (tok, name == "ndarray") in seen:
            continue
        seen.add((tok, name == "ndarray"))
        # numpy arrays compare element-wise with the sentinel tuple: not a spelling the model's `other` stands for in `==`
        corr(R, f"c14 shape {tok}", lambda: guarded(lambda: shape_real(v)) + " " + ("F" if name == "ndarray" else sentinel_real(v)),
             sig=f"shape_|{name}")
    for name, v, tok in [("resolution", T.resxy_(1.5, -2.5), "R:3/2:-5/2"), ("resolution+", T.resxy_(-0.25, 0.25), "R:-1/4:1/4"), ("float", 2.5, "f5/2"),
                         ("neg-float", -0.75, "f-3/4"), ("int", 30, "i30"), ("neg-int", -7, "i-7"), ("bool", True, "i1"), ("zero", 0, "i0"),
                         ("np-float64", np.float64(0.125), "f1/8"), ("big-int-exact", 2**60, f"i{2**60}")] + bad_res(T, np):
        corr(R, f"c14 res E {tok}", lambda: (lambda r: f"{fs(r.x)} {fs(r.y)}")(T.res_(v)), sig=f"res_|{name}")
    for v in (2**53 + 1, -(2**62 + 12345), 10**20 + 7):   # float(int) rounds
        corr(R, f"c14 res F i{v}", lambda: (lambda r: f"{fs(r.x)} {fs(r.y)}")(T.res_(v)), sig="res_|big-int-rounded")
    for ix, iy in ((0, 0), (-3, 7), (5, -2)):
        for name, v, tok in idx_spellings(T, np, ix, iy) + bad_idx(T, np, ix, iy):
            corr(R, f"c14 idx {tok}", lambda: (lambda k: f"{k.x} {k.y}")(T.ixy_(v)), sig=f"ixy_|{name}")

    # --- GridSpec(...) from raw arguments --------------------------------------------------------------------------
    good_crs, bad_crs = crs_forms(H, CRSc)
    lat = rng.sample(lattice, R.pick(12, 48))
    for sp in lat:
        canon = sp.make(O)
        px, py = float(Fraction(sp.ox) + Fraction(-5, 4) * sp.szx), float(Fraction(sp.oy) + Fraction(9, 4) * sp.szy)
        k = (rng.randint(-3, 3), rng.randint(-3, 3))
        s_good, r_good = shape_spellings(T, np, sp.ny, sp.nx), res_spellings(T, np, sp.rx, sp.ry)
        if sp.rx == -sp.ry:
            pass
        o_good = [("xy", O.xy_(sp.ox, sp.oy), f"X:{fs(sp.ox)}:{fs(sp.oy)}"), ("xy-of-ints", T.xy_(int(sp.ox), int(sp.oy)), f"X:{int(sp.ox)}:{int(sp.oy)}")
                  if float(sp.ox).is_integer() and float(sp.oy).is_integer() else ("xy", O.xy_(sp.ox, sp.oy), f"X:{fs(sp.ox)}:{fs(sp.oy)}")]
        if sp.ox == 0 and sp.oy == 0:
            o_good += [("omitted", "omit", "N"), ("none", None, "N")]
        o_bad = [("tuple", (sp.ox, sp.oy), "O"), ("list", [0.0, 0.0], "O"), ("float", 0.0, "O")]

        def emit(crs, shp, res, org, tag):
            line = (f"c14 init {{m}} {crs[2]} {shp[2]} {res[2]} {org[2]} {bool_s(sp.fx)} {bool_s(sp.fy)} {fs(px)} {fs(py)} {k[0]} {k[1]}")

            def f():
                kw = {} if org[1] == "omit" and org[2] == "N" else {"origin": org[1]}
                return H.probe_s(O.GridSpec(crs[1], shp[1], res[1], flipx=sp.fx, flipy=sp.fy, **kw), px, py, k)

            for m in "EF":
                corr(R, line.format(m=m), f, sig=f"init|{m}|{tag}")

        # every good spelling of every argument (one varied at a time + random combinations)
        base = (good_crs[0], s_good[0], r_good[0], o_good[0])
        for i, alts in enumerate((good_crs, s_good, r_good, o_good)):
            for alt in alts:
                a = list(base)
                a[i] = alt
                emit(*a, tag=("crs", "shape", "res", "origin")[i] + "=" + alt[0])
        for _ in range(R.pick(3, 8)):
            emit(rng.choice(good_crs), rng.choice(s_good), rng.choice(r_good), rng.choice(o_good), tag="good-mix")
        # error precedence: each argument independently good / bad
        for mask in range(1, 16):
            if rng.random() < R.pick(0.35, 1.0):
                emit(rng.choice(bad_crs if mask & 1 else good_crs), rng.choice(bad_shapes(T, np) if mask & 2 else s_good),
                     rng.choice(bad_res(T, np) if mask & 4 else r_good), rng.choice(o_bad if mask & 8 else o_good), tag=f"bad-mask{mask:04b}")
        # oracle: the spelling does not change the grid
        for sn, _, _ in s_good:
            rn = rng.choice(r_good)[0]
            omit = sp.ox == 0 and sp.oy == 0 and rng.random() < 0.5
            try:
                alt = build_spelled(H, O, T, np, sp, sn, rn, omit)
            except Exception as e:  # pylint: disable=broad-except
                R.oracle(False, "init-spelling-changes-grid", {"op": "a:init", "grid": sp.tok(), "spelling": f"{sn}/{rn}/{omit}"},
                         f"GridSpec with shape as {sn}, resolution as {rn} raised {e!r}", sig="init|spelling-oracle")
                continue
            oracle_spelling(R, H, O, sp, alt, f"shape as {sn}, resolution as {rn}" + (", origin omitted" if omit else ""),
                            [k, (0, 0), (2, -1)], [(px, py), (float(sp.ox), float(sp.oy))])
        # --- index spellings of tile_geobox / __getitem__
        for ix, iy in ((k[0], k[1]), (0, 0)):
            for name, v, tok in idx_spellings(T, np, ix, iy) + bad_idx(T, np, ix, iy):
                for m in "EF":
                    corr(R, f"c14 tga {m} {sp.tok()} {tok}", lambda: H.tile_s(canon.tile_geobox(v)), sig=f"tile_geobox|{name}")
            corr(R, f"c14 tga E {sp.tok()} T[{ix},{iy}]", lambda: H.tile_s(canon[ix, iy]), sig="getitem|gs[ix,iy]")
            same = guarded(lambda: bool_s(canon[ix, iy] == canon[T.ixy_(ix, iy)] == canon.tile_geobox(T.xy_(ix, iy)) == canon.tile_geobox((ix, iy))))
            R.oracle(same == "T", "tile-index-spelling-changes-tile", {"op": "a:tga", "grid": sp.tok(), "k": [ix, iy]},
                     f"gs[{ix},{iy}] / Index2d / XY / tuple do not give the same GeoBox: {same}", sig="tile_geobox|oracle")
        # --- gs == something that is not a GridSpec
        corr(R, f"c14 eqo E {sp.tok()}", lambda: bool_s(any(canon == o for o in (5, None, "x", (sp.ny, sp.nx), object(), getattr(canon, "_xbin", object())))),
             sig="eq|foreign-operand")
    for sz, o, d in ((2.5, -1.75, -1), (1.0, 0.0, 1)):
        b0 = O.Bin1D(sz, o, d)
        for sz2, o2, d2 in ((sz, o, d), (sz + 1, o, d), (sz, o + 0.5, d), (sz, o, -d)):
            corr(R, f"c14 beq {fs(sz)} {fs(o)} {d} {fs(sz2)} {fs(o2)} {d2}",
                 lambda: bool_s(b0 == O.Bin1D(sz2, o2, d2)) + " " + bool_s(any(b0 == x for x in (5, None, (sz, o, d)))), sig="bin1d-eq")

    # F mode: realistic doubles through the public constructor with a scalar resolution
    for _ in range(R.pick(40, 400)):
        (ny, nx), (rx, _ry), (ox, oy) = rng.choice(presets)
        if rng.random() < 0.4:
            rx = rng.choice([10, 15, 30, 0.1, 1 / 7, 60.0, 25, 1e-3])
            ox, oy = rng.uniform(-6e6, 6e6), rng.uniform(-6e6, 6e6)
        rx = rx * rng.choice([1, 1, -1])
        sp = H.Spec(ny, nx, rx, -rx, ox, oy, rng.random() < 0.4, rng.random() < 0.4)
        shp = rng.choice(shape_spellings(T, np, ny, nx))
        res = rng.choice(res_spellings(T, np, sp.rx, sp.ry))
        k = (rng.randint(-50, 50), rng.randint(-50, 50))
        px, py = ox + rng.uniform(-9, 9) * float(sp.szx), oy + rng.uniform(-9, 9) * float(sp.szy)
        corr(R, f"c14 init F V {shp[2]} {res[2]} X:{fs(ox)}:{fs(oy)} {bool_s(sp.fx)} {bool_s(sp.fy)} {fs(px)} {fs(py)} {k[0]} {k[1]}",
             lambda: H.probe_s(O.GridSpec(H.CRS, shp[1], res[1], origin=O.xy_(ox, oy), flipx=sp.fx, flipy=sp.fy), px, py, k),
             sig=f"init|F|float|shape={shp[0]}|res={res[0]}", safe=H.e_safe_point(sp, px, py))
        alt = H.guarded_obj(lambda: O.GridSpec(H.CRS, shp[1], res[1], origin=O.xy_(ox, oy), flipx=sp.fx, flipy=sp.fy))
        if alt is not None:
            oracle_spelling(R, H, O, sp, alt, f"shape as {shp[0]}, resolution as {res[0]}", [k, (0, 0)], [(px, py)])
        else:
            R.oracle(False, "init-spelling-changes-grid", {"op": "a:init", "grid": sp.tok(), "spelling": f"{shp[0]}/{res[0]}"}, "constructor raised",
                     sig="init|spelling-oracle")

    # --- from_sample_tile from raw arguments ------------------------------------------------------------------------
    def dy(lo, hi, bits):
        return Fraction(rng.randint(lo * 2**bits, hi * 2**bits), 2**bits)

    sentinel_forms = [("default", "default", "D"), ("sentinel-tuple", (-1, -1), "T[i-1,i-1]"), ("sentinel-float-tuple", (-1.0, -1.0), "T[f-1,f-1]"),
                      ("sentinel-mixed-tuple", (-1, -1.0), "T[i-1,f-1]"), ("sentinel-shape2d", T.Shape2d(-1, -1), "S:-1:-1"),
                      ("sentinel-as-list", [-1, -1], "L[i-1,i-1]"), ("sentinel-as-xy", T.xy_(-1, -1), "X:i-1:i-1"),
                      ("sentinel-as-index2d", T.ixy_(-1, -1), "X:i-1:i-1"), ("half-sentinel", (-1, 4), "T[i-1,i4]"), ("neg-shape", (-2, -1), "T[i-2,i-1]")]
    for n in range(R.pick(120, 1200)):
        l, b = dy(-500, 500, 4), dy(-500, 500, 4)
        w, h = Fraction(rng.randint(1, 64), 2), Fraction(rng.randint(1, 64), 2)
        if rng.random() < 0.06:
            w = Fraction(0)
        ny, nx = rng.choice([1, 2, 4, 8, 16, 256]), rng.choice([1, 2, 4, 8, 16, 512])
        ix, iy = rng.randint(-50, 50), rng.randint(-50, 50)
        fx, fy = rng.random() < 0.5, rng.random() < 0.5
        q = tuple(map(float, (l, b, l + w, b + h)))
        px, py = float(l + w * Fraction(rng.randint(-40, 40), 8)), float(b + h * Fraction(rng.randint(-40, 40), 8))
        k = (rng.randint(-50, 50), rng.randint(-50, 50))
        r = rng.random()
        if n < len(sentinel_forms) * 2:
            shp = sentinel_forms[n % len(sentinel_forms)]
        elif r < 0.75:
            shp = rng.choice(shape_spellings(T, np, ny, nx))
        elif r < 0.9:
            shp = rng.choice(sentinel_forms)
        else:
            shp = rng.choice(bad_shapes(T, np) + [("zero", (0, 4), "T[i0,i4]"), ("zero-x", [4, 0], "L[i4,i0]"), ("half", (0.5, 0.5), "T[f1/2,f1/2]")])
        r = rng.random()
        if r < 0.15:
            idx = ("default", "default", "D")
            ix = iy = 0
        elif r < 0.85:
            idx = rng.choice(idx_spellings(T, np, ix, iy))
        else:
            idx = rng.choice(bad_idx(T, np, ix, iy))
        crs = ("none", None, "N") if rng.random() < 0.08 else ("valid", H.CRS, "V")

        def f():
            kw = {}
            if shp[2] != "D":
                kw["shape"] = shp[1]
            if idx[2] != "D":
                kw["idx"] = idx[1]
            return H.probe_s(O.GridSpec.from_sample_tile(O.geom.box(*q, crs[1]), flipx=fx, flipy=fy, **kw), px, py, k)

        exact = w > 0 and H.e_safe_fst(q, ix, iy, px, py)
        for m in ("EF" if exact or w == 0 else "F"):
            corr(R, f"c14 fsta {m} {crs[2]} {' '.join(fs(v) for v in q)} {shp[2]} {idx[2]} {bool_s(fx)} {bool_s(fy)} {fs(px)} {fs(py)} {k[0]} {k[1]}",
                 f, sig=f"from_sample_tile|{m}|shape={shp[0]}|idx={idx[0]}|crs={crs[0]}")
        # oracle: any accepted spelling rebuilds the same grid as the canonical spelling
        if shp[0] in dict((s[0], 1) for s in shape_spellings(T, np, 1, 1)) and not idx[0].startswith("default") and idx[0] in dict((i[0], 1) for i in idx_spellings(T, np, ix, iy)) and crs[1] and w > 0:
            a = H.guarded_obj(lambda: O.GridSpec.from_sample_tile(O.geom.box(*q, H.CRS), shape=shp[1], idx=idx[1], flipx=fx, flipy=fy))
            c0 = H.guarded_obj(lambda: O.GridSpec.from_sample_tile(O.geom.box(*q, H.CRS), shape=(ny, nx), idx=(ix, iy), flipx=fx, flipy=fy))
            ok = a is not None and c0 is not None and a == c0 and H.fbb(a[k].boundingbox) == H.fbb(c0[k].boundingbox) and \
                H.fbb(a[ix, iy].boundingbox) == tuple(map(Fraction, q))
            R.oracle(ok, "from-sample-spelling-changes-grid", {"op": "a:fsta", "box": [fs(v) for v in q], "ny": ny, "nx": nx, "ix": ix, "iy": iy,
                                                               "fx": fx, "fy": fy, "shape": shp[0], "idx": idx[0], "k": list(k)},
                     f"from_sample_tile with shape as {shp[0]}, idx as {idx[0]}: {a!r} vs {c0!r}", sig="from_sample_tile|spelling-oracle")

    # --- web_tiles(zoom, npix): npix of any numeric type, zoom beyond 0..30 ----------------------------------------
    PW = H.P_WEB
    for npix, tag in ((256, "int"), (256.0, "float"), (256.9, "frac"), (True, "bool"), (np.int64(512), "np-int"), (-1, "sentinel"), (-1.0, "sentinel-float"),
                      (-1.5, "trunc-to--1"), (0, "zero"), (0.5, "trunc-to-0"), (-3, "negative"), (nan, "nan"), (inf, "inf"), (-inf, "-inf")):
        for z in (0, 3, 11):
            n = 2**z
            kk = (rng.randint(0, n - 1), rng.randint(0, n - 1))
            px, py = rng.uniform(-PW, PW), rng.uniform(-PW, PW)
            corr(R, f"c14 weba F {fs(PW)} {z} {num_tok(npix)} {fs(px)} {fs(py)} {kk[0]} {kk[1]}",
                 lambda: H.probe_s(O.GridSpec.web_tiles(z, npix), px, py, kk), sig=f"web_tiles|npix={tag}")
        if tag in ("float", "frac", "np-int"):
            a, c0 = H.guarded_obj(lambda: O.GridSpec.web_tiles(5, npix)), O.GridSpec.web_tiles(5, int(npix))
            R.oracle(a is not None and a == c0 and a[3, 4] == c0[3, 4], "web-tiles-npix-spelling", {"op": "a:weba", "npix": repr(npix)},
                     f"web_tiles(5, {npix!r}) differs from web_tiles(5, {int(npix)})", sig="web_tiles|npix-oracle")
    for z in [31, 33, 40, 47, 52, 53, 54, 60, 100, 1000, 1074, 1075, 1076, 1100, -1, -2, -10, -60, -300, -900] + [rng.randint(25, 70) for _ in range(R.pick(4, 20))]:
        px, py = rng.uniform(-PW, PW), rng.uniform(-PW, PW)
        kk = (rng.randint(-3, 3), rng.randint(-3, 3)) if z < 0 or z > 60 else (rng.randint(0, 2**min(z, 50)), rng.randint(0, 2**min(z, 50)))
        corr(R, f"c14 weba F {fs(PW)} {z} i256 {fs(px)} {fs(py)} {kk[0]} {kk[1]}",
             lambda: H.probe_s(O.GridSpec.web_tiles(z), px, py, kk), sig="web_tiles|zoom=" + ("negative" if z < 0 else "31..60" if z <= 60 else "underflow"))

    # --- IEEE specials in points and bounds: exhaustive over {finite, nan, inf, -inf}^n on a few grids -------------
    vals = [nan, inf, -inf]
    for sp in rng.sample(lattice, R.pick(2, 6)):
        gs = sp.make(O)
        fin = [float(Fraction(sp.ox) + Fraction(5, 4) * sp.szx), float(Fraction(sp.oy) - Fraction(3, 4) * sp.szy)]
        for x, y in itertools.product([fin[0]] + vals, [fin[1]] + vals):
            for m in "EF":
                corr(R, f"c14 ptx {m} {sp.tok()} {xf_tok(x)} {xf_tok(y)}", lambda: H.idx_s(gs.pt2idx(x, y).xy),
                     sig="pt2idx|specials|" + ("finite" if x == fin[0] and y == fin[1] else "special"))
        fq = (float(Fraction(sp.ox) + Fraction(1, 4) * sp.szx), float(Fraction(sp.oy) + Fraction(1, 4) * sp.szy),
              float(Fraction(sp.ox) + Fraction(9, 4) * sp.szx), float(Fraction(sp.oy) + Fraction(5, 4) * sp.szy))
        for combo in itertools.product(*[[v] + vals for v in fq]):
            nspecial = sum(1 for a, b in zip(combo, fq) if not a == b)
            if nspecial >= 2 and rng.random() > R.pick(0.25, 1.0):
                continue
            for same in ((True, False) if nspecial <= 1 else (True,)):
                bb = O.BoundingBox(*combo, H.CRS if same else "epsg:4326")
                corr(R, f"c14 idxbx E {sp.tok()} {bool_s(same)} {' '.join(xf_tok(v) for v in combo)}",
                     lambda: guarded(lambda: " ".join(str(int(v)) for v in gs.idx_bounds(bb))) + " "
                     + guarded(lambda: list_s([tuple(map(int, kx)) for kx, _ in H.ltiles(gs.tiles(bb))], H.idx_s)),
                     sig=f"idx_bounds|specials={nspecial}|same-crs={same}")
            if nspecial:
                oracle_specials(R, H, O, gs, sp, combo)
        # through the public polygon entry point: empty geometries of every type
        import shapely.geometry as sg
        for shp in (sg.Polygon(), sg.MultiPolygon([]), sg.GeometryCollection([]), sg.Point(), sg.LineString()):
            out = guarded(lambda: str(len(H.ltiles(gs.tiles_from_geopolygon(O.geom.Geometry(shp, H.CRS))))))
            R.oracle(out == "ERR:ValueError", "non-finite-query-answered", {"op": "a:empty", "grid": sp.tok(), "wkt": shp.wkt},
                     f"tiles_from_geopolygon(empty {shp.geom_type}) gave {out}", sig="polygon|empty-geometry")

    # --- several live generators over ONE shared cache, random schedules -------------------------------------------
    for sp in rng.sample(lattice, R.pick(24, 64)):
        gs = sp.make(O)
        for _ in range(R.pick(3, 10)):
            gens, ops = gen_sched(H, rng, sp, True)
            e_ok = all(H.e_safe_query(sp, d[2]) for d in gens if d[0] == "B")
            # the cache is compared once every generator is exhausted (then it does not matter how lazily the library fills
            # it); schedules with cache.clear() compare the yielded items only
            opn = "schedo" if "c" in ops else "sched"
            if opn == "sched":
                ops = ops + drain_ops(H, O, gs, gens)
            tok = sched_tok(gens, ops)

            def f():
                outs, cache, _ = run_sched(H, O, gs, gens, ops)
                if opn == "schedo":
                    return " ".join(outs)
                return " ".join(outs) + " cache=" + list_s(sorted((tuple(map(int, kx)) for kx in cache), key=H.key_yx), H.idx_s)

            for m in ("EF" if e_ok else "F"):
                corr(R, f"c14 {opn} {m} {sp.tok()} {tok}", f,
                     sig=f"sched|{m}|gens={len(gens)}|" + ("with-clear" if "c" in ops else "no-clear") + ("|crs-assert" if any(d[0] == "B" and not d[1] for d in gens) else ""))
            oracle_sched(R, H, O, gs, sp, gens, ops)
    for _ in range(R.pick(15, 150)):
        (ny, nx), (rx, ry), (ox, oy) = rng.choice(presets)
        sp = H.Spec(ny, nx, rx * rng.choice([1, -1]), ry * rng.choice([1, -1]), ox, oy, rng.random() < 0.4, rng.random() < 0.4)
        gs = sp.make(O)
        gens, ops = gen_sched(H, rng, sp, False)
        opn = "schedo" if "c" in ops else "sched"
        if opn == "sched":
            ops = ops + drain_ops(H, O, gs, gens)
        tok = sched_tok(gens, ops)

        def f2():
            outs, cache, _ = run_sched(H, O, gs, gens, ops)
            if opn == "schedo":
                return " ".join(outs)
            return " ".join(outs) + " cache=" + list_s(sorted((tuple(map(int, kx)) for kx in cache), key=H.key_yx), H.idx_s)

        corr(R, f"c14 {opn} F {sp.tok()} {tok}", f2, sig=f"sched|F|float|gens={len(gens)}")
        oracle_sched(R, H, O, gs, sp, gens, ops)

    # --- gs.tiles(geobox.boundingbox) for GeoBoxes with arbitrary affines (composition with C16's from_transform) ----
    for _ in range(R.pick(40, 400)):
        (ny, nx), (rx, ry), (ox, oy) = rng.choice(presets)
        sp = H.Spec(ny, nx, rx * rng.choice([1, -1]), ry * rng.choice([1, -1]), ox, oy, rng.random() < 0.4, rng.random() < 0.4)
        ang = rng.uniform(0, 2 * math.pi)
        sc = float(sp.szx) * rng.uniform(0.002, 0.02)
        a, b = sc * math.cos(ang), -sc * math.sin(ang) * rng.choice([1, 1, 0.5])
        d, e = sc * math.sin(ang) * rng.choice([1, -1]), sc * math.cos(ang) * rng.choice([1, -1, 0.3])
        if abs(a * e - b * d) < 1e-9 * sc * sc:
            continue
        c = ox + rng.uniform(-30, 30) * float(sp.szx)
        f = oy + rng.uniform(-30, 30) * float(sp.szy)
        oracle_geobox_cover(R, H, O, sp.make(O), sp, (rng.randint(1, 300), rng.randint(1, 300)), (a, b, c, d, e, f), 12, rng.randint(0, 10**6))

    # --- the whole float domain: non-finite / overflowing sizes, resolutions, origins, coordinates; float-valued indices and
    #     integer indices beyond 2^53 (model: Model/C14Ext.lean; binary64 with overflow in F mode, exact in E mode on short dyadics)
    def short(v):
        if isinstance(v, int):
            return abs(v) < 2**20
        return isinstance(v, float) and math.isfinite(v) and abs(v) < 2**20 and (Fraction(v) * 1024).denominator == 1

    def kind(v):
        if isinstance(v, int):
            return "huge" if abs(v) > 10**200 else "finite"
        return "nan" if v != v else "inf" if math.isinf(v) else "huge" if abs(v) > 1e200 else "tiny" if 0 < abs(v) < 1e-200 else "finite"

    szs = [1.0, 2.5, inf, -inf, nan, 1e308, 1.7e308, 5e-324, 1e-320, 1e200, 0.0, -2.0]
    ogs = [0.0, -7.25, inf, -inf, nan, 1e308, -1.7e308]
    xs = [0.0, 3.75, -11.5, 1e300, -1e308, inf, -inf, nan, 1e-310]
    ks = [0, 1, -3, 7, 2**53 + 1, -(2**60 + 1), 10**30, 10**400, -10**400, 0.5, -2.25, nan, inf, True]
    combos = [(sz, o, d) for sz in szs for o in ogs for d in (1, -1)]
    for sz, o, d in (combos if not R.quick else rng.sample(combos, 60)):
        for x in (xs if not R.quick else rng.sample(xs, 4)):
            for m in ("EF" if short(sz) and short(o) and short(x) else "F"):
                corr(R, f"c14 binx {m} {xf_tok(sz)} {xf_tok(o)} {d} {xf_tok(x)}", lambda: str(O.Bin1D(sz, o, d).bin(x)),
                     sig=f"bin1d-ext|bin|sz={kind(sz)}|o={kind(o)}|x={kind(x)}")
        for k in (ks if not R.quick else rng.sample(ks, 5)):
            for m in ("EF" if short(sz) and short(o) and short(k) else "F"):
                corr(R, f"c14 itemx {m} {xf_tok(sz)} {xf_tok(o)} {d} {num_tok(k)}",
                     lambda: (lambda b: guarded(lambda: xf_tok(b[k][0])) + " " + guarded(lambda: xf_tok(b[k][1])))(O.Bin1D(sz, o, d)),
                     sig=f"bin1d-ext|item|sz={kind(sz)}|o={kind(o)}|k={'int' if isinstance(k, int) else 'float'}-{kind(k) if k == k else 'nan'}")
    for _ in range(R.pick(60, 600)):
        x0, x1 = rng.choice(ogs + [1.0, 3.5]), rng.choice(ogs + [1.0, 3.5, 1e308])
        idx, d = rng.choice([0, 1, -4, 1000, 2**53 + 1, 10**400]), rng.choice([1, -1])
        for m in ("EF" if all(short(v) for v in (x0, x1)) and abs(idx) < 2000 else "F"):
            corr(R, f"c14 fsbx {m} {idx} {xf_tok(x0)} {xf_tok(x1)} {d}",
                 lambda: (lambda b: f"{xf_tok(b.sz)} {xf_tok(b.origin)} {b.direction}")(O.Bin1D.from_sample_bin(idx, (x0, x1), d)), sig="bin1d-ext|from_sample_bin")
    ress = [1.0, -0.5, 25.0, inf, -inf, nan, 1e306, -1e308, 1e-320]
    for _ in range(R.pick(120, 1500)):
        ny, nx = rng.choice([1, 2, 3, 1024, 4000]), rng.choice([1, 3, 1024, 4000])
        rx, ry = rng.choice(ress), rng.choice(ress)
        ox, oy = rng.choice(ogs), rng.choice(ogs + [0.0, 0.0])
        fx, fy = rng.random() < 0.5, rng.random() < 0.5
        px, py = rng.choice(xs), rng.choice(xs)
        kx, ky = rng.choice(ks), rng.choice(ks)

        def fgx():
            gs = O.GridSpec(H.CRS, (ny, nx), O.resxy_(rx, ry), origin=O.xy_(ox, oy), flipx=fx, flipy=fy)
            A = lambda: gs.tile_geobox((kx, ky)).affine
            return (f"{xf_tok(gs.tile_size.x)} {xf_tok(gs.tile_size.y)} " + guarded(lambda: H.idx_s(gs.pt2idx(px, py).xy)) + " "
                    + guarded(lambda: (lambda a: f"{xf_tok(a.c)};{xf_tok(a.f)}")(A())))

        allshort = all(short(v) for v in (rx, ry, ox, oy, px, py, kx, ky))
        for m in ("EF" if allshort and nx < 10 and ny < 10 else "F"):
            corr(R, f"c14 gridx {m} {ny} {nx} {xf_tok(rx)} {xf_tok(ry)} {xf_tok(ox)} {xf_tok(oy)} {bool_s(fx)} {bool_s(fy)} {xf_tok(px)} {xf_tok(py)} {num_tok(kx)} {num_tok(ky)}",
                 fgx, sig=f"gridspec-ext|res={kind(rx)},{kind(ry)}|origin={kind(ox)},{kind(oy)}")
    # oracle: a grid whose constructor accepted non-finite / overflowing parameters never hands out a tile that claims a finite
    # footprint overlapping another tile's (the partition property is only claimed for finite grids; here: recorded)
    for crs_s, tokk in (("epsg:4326", "G"), ("epsg:3577", "P"), ("epsg:3857", "P"), ("epsg:4978", "O")):
        corr(R, f"c14 dims {tokk}", lambda: " ".join(O.GridSpec(crs_s, (2, 3), 1.0).dimensions), sig="dimensions|" + tokk)

    # --- web tiles: zoom z -> z+1 refinement (theorems web_tiles_children_extent / web_tiles_refinement), oracle on real output
    for z in range(0, R.pick(12, 23)):
        try:
            g0, g1 = O.GridSpec.web_tiles(z), O.GridSpec.web_tiles(z + 1)
            n = 2**z
            bad = None
            for (i, j) in {(0, 0), (n - 1, n - 1), (rng.randrange(n), rng.randrange(n))}:
                l, b, r, t = H.fbb(g0[i, j].boundingbox)
                s = Fraction(H.P_WEB) / 10**9
                for a in (0, 1):
                    for c in (0, 1):
                        cl, cb, cr, ct = H.fbb(g1[2 * i + a, 2 * j + c].boundingbox)
                        T2 = (r - l) / 2
                        want = (l + a * T2, t - (c + 1) * T2, l + (a + 1) * T2, t - c * T2)
                        if any(abs(u - v) > s for u, v in zip((cl, cb, cr, ct), want)):
                            bad = f"child ({2 * i + a},{2 * j + c}) of web tile ({i},{j}) at zoom {z}: {tuple(map(float, (cl, cb, cr, ct)))} expected {tuple(map(float, want))}"
                        # the child's centre is looked up as the parent at zoom z and as the child at zoom z+1
                        cx, cy = float((cl + cr) / 2), float((cb + ct) / 2)
                        if tuple(map(int, g0.pt2idx(cx, cy).xy)) != (i, j) or tuple(map(int, g1.pt2idx(cx, cy).xy)) != (2 * i + a, 2 * j + c):
                            bad = f"centre of child ({2 * i + a},{2 * j + c}) at zoom {z + 1} is not looked up as parent ({i},{j}) / itself"
            if abs(Fraction(g1.resolution.x) * 2 - Fraction(g0.resolution.x)) > Fraction(1, 10**9):
                bad = f"resolution at zoom {z + 1} is not half of zoom {z}"
        except Exception as e:  # pylint: disable=broad-except
            bad = repr(e)
        R.oracle(bad is None, "web-tiles-refinement", {"op": "a:webref", "z": z}, str(bad), sig="web_tiles|refinement")

    # --- threads over one shared cache: EVERY interleaving of the dictionary operations (deterministic step scheduler),
    #     2 threads x all 2^6 schedules (quick: on 3 grids), 3 threads x sampled ternary schedules
    for sp in rng.sample(lattice, R.pick(3, 10)):
        gs = sp.make(O)
        X = lambda a: float(Fraction(sp.ox) + Fraction(a) * sp.szx)
        Y = lambda b: float(Fraction(sp.oy) + Fraction(b) * sp.szy)
        q1 = ("B", True, (X(Fraction(1, 8)), Y(Fraction(1, 8)), X(Fraction(11, 8)), Y(Fraction(5, 8))))      # two tiles
        q2 = ("B", True, (X(Fraction(9, 8)), Y(Fraction(1, 8)), X(Fraction(19, 8)), Y(Fraction(5, 8))))      # two tiles, one shared with q1
        tri = H.convex_pts(rng, [(X(Fraction(1, 8)), Y(Fraction(1, 8))), (X(Fraction(15, 8)), Y(Fraction(1, 4))), (X(Fraction(1, 4)), Y(Fraction(7, 8)))])
        q3 = ("P", tri, None)
        for queries, scheds in (([q1, q2], list(itertools.product((0, 1), repeat=6))),
                                ([q1, q3], list(itertools.product((0, 1), repeat=6))[:: R.pick(4, 1)]),
                                ([q1, q2, q3], [tuple(rng.randrange(3) for _ in range(8)) for _ in range(R.pick(12, 120))])):
            for sc in scheds:
                tok = sched_tok(queries, [str(i) for i in sc])
                for m in "E":
                    corr(R, f"c14 thr {m} {sp.tok()} {tok}", lambda: thr_s(H, *run_threads(H, O, gs, queries, sc)),
                         sig=f"threads|step-scheduler|{len(queries)}-threads")
                oracle_threads(R, H, O, gs, sp, queries, sc)
    R.assumptions.append("threads over a shared geobox_cache: every interleaving of the cache's get/__setitem__ operations of 2 threads (2^6 schedules) "
                         "is enumerated deterministically on the real code (theorem threads_transparent covers any number of threads and any "
                         "schedule of the model); interleavings INSIDE tile_geobox and between other statements are only sampled by the stress")

    # --- final increment: compositions with GeoboxTiles (C04/C12) and GeoBox.from_bbox (C08), signed zeros, valid-region box
    from odc.geo.geobox import GeoBox, GeoboxTiles
    for sp in rng.sample(lattice, R.pick(6, 24)) + [H.Spec(*a) for a in ((4000, 4000, 25.0, -25.0, 0.0, 0.0, False, False), (3333, 3334, 1 / 3, -1 / 3, -1234.5678, 8765.4321, True, True))]:
        gs = sp.make(O)
        k = (rng.randint(-4, 4), rng.randint(-4, 4))
        case = {"op": "a:subtiles", "grid": sp.tok(), "k": list(k)}
        bad = None
        try:
            tile = gs[k]
            ny, nx = tile.shape
            a, b = rng.randint(1, max(1, min(ny, 1500))), rng.randint(1, max(1, min(nx, 1700)))
            case["chunk"] = [a, b]
            gbt = GeoboxTiles(tile, (a, b))
            rows, cols = gbt.shape
            seen_px, A = 0, tile.affine
            if (rows, cols) != (-(-ny // a), -(-nx // b)):
                bad = f"GeoboxTiles(gs[{k}], {(a, b)}).shape = {(rows, cols)}"
            for r in range(rows):
                for c in range(cols):
                    sub = gbt[r, c]
                    y0, x0 = r * a, c * b
                    seen_px += sub.shape[0] * sub.shape[1]
                    want = A * (x0, y0)
                    got = sub.affine * (0, 0)
                    slack = float(Fraction(1, 2**46) * max(1, abs(Fraction(want[0])), abs(Fraction(want[1]))))
                    if abs(got[0] - want[0]) > slack or abs(got[1] - want[1]) > slack or sub.shape != (min(a, ny - y0), min(b, nx - x0)) \
                            or (sub.affine.a, sub.affine.e, sub.affine.b, sub.affine.d) != (A.a, A.e, A.b, A.d):
                        bad = f"sub-tile {(r, c)} of gs[{k}] chunked {(a, b)}: {sub!r}, expected pixel origin {(x0, y0)} -> {want}"
                    if rows * cols > 400:
                        break
                if rows * cols > 400:
                    break
            if rows * cols <= 400 and seen_px != ny * nx and not bad:
                bad = f"sub-tiles of gs[{k}] cover {seen_px} pixels, the tile has {ny * nx}"
        except Exception as e:  # pylint: disable=broad-except
            bad = repr(e)
        R.oracle(bad is None, "tile-subtiles-do-not-partition", case, str(bad), sig="compose|GeoboxTiles-of-tile")
        if sp.rx > 0 and sp.ry < 0:
            try:
                tile = gs[k]
                rb = GeoBox.from_bbox(tile.boundingbox, shape=gs.tile_shape, tight=True)
                slack = float(Fraction(1, 2**46) * max([Fraction(1)] + [abs(Fraction(v)) for v in tile.boundingbox[:4]]))
                ok = rb.shape == tile.shape and rb.crs == tile.crs and all(abs(u - v) <= slack for u, v in zip(tuple(rb.affine)[:6], tuple(tile.affine)[:6]))
                what = f"from_bbox(gs[{k}].boundingbox, shape=tile_shape, tight=True) = {rb!r}, tile = {tile!r}"
            except Exception as e:  # pylint: disable=broad-except
                ok, what = False, repr(e)
            R.oracle(ok, "from-bbox-does-not-rebuild-tile", {"op": "a:frombbox", "grid": sp.tok(), "k": list(k)}, what, sig="compose|from_bbox-of-tile")
        # grid_intersect between the tilings of two DIFFERENT tiles of the grid is empty (theorem neighbour_tilings_do_not_intersect)
        for dk in rng.sample([(1, 0), (-1, 0), (0, 1), (0, -1), (1, 1), (-1, 1), (2, 0), (0, -3)], 2):
            try:
                ta, tb2 = gs[k], gs[k[0] + dk[0], k[1] + dk[1]]
                ch = lambda n_: rng.randint(n_ // 6 + 1, max(n_ // 6 + 1, n_))      # at most 6 chunks per axis
                ca = (ch(ta.shape[0]), ch(ta.shape[1]))
                cb = (ch(ta.shape[0]), ch(ta.shape[1]))
                gi = GeoboxTiles(ta, ca).grid_intersect(GeoboxTiles(tb2, cb))
                ne = {d_: s_ for d_, s_ in gi.items() if s_}
                ok, what = not ne, f"grid_intersect of the tilings of tiles {k} and {(k[0] + dk[0], k[1] + dk[1])} (chunks {ca}, {cb}) is not empty: {list(ne.items())[:3]}"
            except Exception as e:  # pylint: disable=broad-except
                ok, what = False, repr(e)
            R.oracle(ok, "tilings-of-different-tiles-intersect", {"op": "a:gridint", "grid": sp.tok(), "k": list(k), "dk": list(dk)}, what,
                     sig="compose|grid_intersect-of-neighbours")
    # signed zeros (model Bin1D.loZ/hiZ/binZ): the VALUES are compared; the sign bit of a zero edge is recorded, not judged (a commuted
    # exact product such as idx*direction*sz legitimately turns -0.0 into +0.0)
    zl, zr = [], []
    for szv in (2.5, 1.0):
        for o in (0.0, -0.0, 5.0, -2.5):
            for d in (1, -1):
                for kk in (0, 0.0, -0.0, 2.0, -1.0, 1, -2):
                    oz = o == 0 and math.copysign(1, o) < 0
                    kn = isinstance(kk, float) and kk == 0 and math.copysign(1, kk) < 0
                    zl.append(f"c14 loz {frac_s(szv)} {frac_s(o)} {bool_s(oz)} {d} {frac_s(kk)} {bool_s(kn)}")
                    try:
                        bz = O.Bin1D(szv, o, d)
                        lo, hi = bz[kk]
                        zr.append((frac_s(lo), bool_s(lo == 0 and math.copysign(1, lo) < 0), frac_s(hi), bool_s(hi == 0 and math.copysign(1, hi) < 0), str(bz.bin(float(kk)))))
                    except Exception as e:  # pylint: disable=broad-except
                        zr.append(("ERR", repr(e), "", "", ""))
    try:
        zm = [t.split(" ") for t in H.run_driver("C14", zl)] if R.proof_break is None else None
    except Exception:  # pylint: disable=broad-except
        zm = None
    if zm is not None:
        vals_ok = sum(1 for m_, r_ in zip(zm, zr) if len(m_) == 5 and (m_[0], m_[2], m_[4]) == (r_[0], r_[2], r_[4]))
        sign_ok = sum(1 for m_, r_ in zip(zm, zr) if len(m_) == 5 and (m_[1], m_[3]) == (r_[1], r_[3]))
        R.count("signed-zero|values-agree", vals_ok)
        R.count("signed-zero|sign-bits-agree", sign_ok)
        first = next((f"{l}: real {r_} model {m_}" for l, m_, r_ in zip(zl, zm, zr) if len(m_) != 5 or (m_[0], m_[2], m_[4]) != (r_[0], r_[2], r_[4])), None)
        R.oracle(first is None, "signed-zero-changes-value", {"op": "a:loz"}, str(first), sig="signed-zero|values")
        if sign_ok != len(zl):
            R.notes.append(f"signed zeros: {len(zl) - sign_ok} of {len(zl)} zero-edge sign bits differ from the model of today's code (theorem "
                           "signed_zero_lower_edge); not observable through ==, hash or any comparison; recorded only")
    # valid-region box of geojson()'s default branch: the library's own densified + projected ring -> the query box (model validRegionBox)
    for crs_s in ("epsg:3577", "epsg:3111", "epsg:32755")[: R.pick(2, 3)]:
        try:
            gs0 = O.GridSpec(crs_s, (10, 10), 1000.0)
            vr = gs0.crs.valid_region
            ring = vr.buffer(-0.05).to_crs(gs0.crs, resolution=0.5)
            pts = [(float(x), float(y)) for x, y in ring.exterior.points]
            if all(math.isfinite(v) for p_ in pts for v in p_):
                R.corr("c14 vbox " + list_s(pts, lambda p_: f"{fs(p_[0])};{fs(p_[1])}"), lambda: H.bb_s(ring.boundingbox), "geojson-default|valid-region-box")
            w, s_, e, n = vr.boundingbox[:4]
            shr = sorted((float(x), float(y)) for x, y in set(vr.buffer(-0.05).exterior.points))
            mod = H.run_driver("C14", [f"c14 shrunk {fs(w)} {fs(s_)} {fs(e)} {fs(n)}"])[0] if R.proof_break is None else None
            if mod is not None:
                mp = sorted(tuple(float(Fraction(v)) for v in q.split(";")) for q in mod[1:-1].split(","))
                same = len(mp) == len(shr) and all(abs(a_ - b_) < 1e-9 for p1, p2 in zip(mp, shr) for a_, b_ in zip(p1, p2))
                R.count("geojson-default|shrunk-box-" + ("agrees" if same else "differs"))
                if not same:
                    R.notes.append(f"valid region of {crs_s} shrunk by 0.05: library ring {shr[:5]} vs model {mp[:5]} (informational: shapely buffer)")
        except Exception as e:  # pylint: disable=broad-except
            R.notes.append(f"valid-region pipeline probe for {crs_s} failed: {e!r}")

    # --- the proved binary64 error bound (fl64_rounding_error) and the exclusion band of point lookup (bin_transfer_band_fl64),
    #     checked on CPython doubles / the real Bin1D.bin with exact Fractions
    U, ETA = Fraction(1, 2**53), Fraction(1, 2**1075)
    for _ in range(R.pick(300, 3000)):
        kind_ = rng.random()
        if kind_ < 0.5:
            qv = Fraction(rng.randint(-10**rng.randint(1, 40), 10**rng.randint(1, 40)), rng.randint(1, 10**rng.randint(1, 40)))
        elif kind_ < 0.8:
            qv = Fraction(rng.getrandbits(70) + 1, 2**rng.randint(1000, 1140)) * rng.choice([1, -1])     # around / below the subnormal range
        else:
            qv = Fraction(2 * (rng.getrandbits(53) | (1 << 52)) + 1, 2) * Fraction(2) ** rng.randint(-1100, 900)  # exact ties
        try:
            fv = Fraction(float(qv))
            ok = abs(fv - qv) <= U * abs(qv) + ETA
        except OverflowError:
            continue
        R.oracle(ok, "binary64-error-bound", {"op": "a:flb", "q": frac_s(qv)}, f"|float(q) - q| = {float(abs(fv - qv)):g} exceeds 2^-53|q| + 2^-1075",
                 sig="fl64|error-bound|" + ("subnormal" if abs(qv) < Fraction(1, 2**1022) else "normal"))
    EPS = 2 * U + U * U
    for _ in range(R.pick(300, 3000)):
        (ny_, nx_), (rx_, ry_), (ox_, oy_) = rng.choice(presets)
        szv = float(nx_ * abs(Fraction(rx_)))
        bz = O.Bin1D(szv, float(ox_), rng.choice([1, -1]))
        ktile = rng.randint(-10**4, 10**4)
        xv = float(Fraction(ox_) + (ktile + Fraction(rng.choice([rng.random(), 1e-9, 1 - 1e-9, 1e-13, 0.5]))) * Fraction(szv))
        qq = (Fraction(xv) - Fraction(float(ox_))) / Fraction(szv)
        band = EPS * abs(qq) + ETA * ((1 + U) / Fraction(szv) + 1)
        fl_ = qq.numerator // qq.denominator
        inside = not (band <= qq - fl_ and band < fl_ + 1 - qq)
        if inside:
            R.count("bin-band|point-inside-the-exclusion-band")
            continue
        got = H.guarded_obj(lambda: bz.bin(xv))
        R.oracle(got == bz.direction * fl_, "bin-differs-outside-the-exclusion-band", {"op": "a:band", "sz": fs(szv), "o": fs(ox_), "d": bz.direction, "x": fs(xv)},
                 f"Bin1D({szv},{ox_},{bz.direction}).bin({xv}) = {got}, exact floor gives {bz.direction * fl_}", sig="bin-band|outside")

    # how lazily the real generators work is recorded, not judged (the model's `generator_next_cache_keys` describes today's code:
    # nothing runs before the first next(), each next() touches the cache for the tiles it pulls only)
    try:
        spz = lattice[0]
        gz = spz.make(O)
        cz: dict = {}
        qz = (float(Fraction(spz.ox) + spz.szx / 4), float(Fraction(spz.oy) + spz.szy / 4), float(Fraction(spz.ox) + spz.szx * 9 / 4), float(Fraction(spz.oy) + spz.szy * 9 / 4))
        it = gz.tiles(O.BoundingBox(*qz, H.CRS), cz)
        n0 = len(cz)
        next(it)
        lazy = n0 == 0 and len(cz) == 1
        try:
            gz.tiles(O.BoundingBox(*qz, "epsg:4326"), cz)
            eager_crs = False
        except AssertionError:
            eager_crs = True
        R.count("generator-laziness|" + ("lazy-cache-fill" if lazy else "eager-cache-fill") + ("|crs-checked-at-call" if eager_crs else "|crs-checked-at-first-next"))
        if not lazy or eager_crs:
            R.notes.append(f"tiles(): after one next() of a 9-tile query the shared cache holds {len(cz)} entries (model: 1); CRS guard raised at "
                           f"{'call' if eager_crs else 'first next()'} (model: first next()). Not part of the property; recorded only.")
    except Exception as e:  # pylint: disable=broad-except
        R.notes.append(f"generator laziness probe failed: {e!r}")

    # --- geojson(): document with bbox / polygon / both / NO argument (valid region of the CRS) --------------------
    for sp in rng.sample(lattice, R.pick(6, 24)):
        gs = sp.make(O)
        X = lambda a: float(Fraction(sp.ox) + Fraction(a) * sp.szx)
        Y = lambda b: float(Fraction(sp.oy) + Fraction(b) * sp.szy)
        qb = (X(Fraction(1, 4)), Y(Fraction(-3, 4)), X(Fraction(9, 4)), Y(Fraction(5, 4)))
        tri = H.convex_pts(rng, [(X(Fraction(1, 4)), Y(Fraction(1, 4))), (X(Fraction(11, 4)), Y(Fraction(1, 2))), (X(Fraction(1, 2)), Y(Fraction(9, 4)))])
        ptok = list_s(tri, lambda p: f"{fs(p[0])};{fs(p[1])}")
        qtok = " ".join(fs(v) for v in qb)
        bbq, pq = O.BoundingBox(*qb, H.CRS), H.mk_poly(O, tri)
        for m in "EF":
            corr(R, f"c14 gjd {m} {sp.tok()} 0 0 1 1 B {qtok}", lambda: gj_s(gs.geojson(bbox=bbq)), sig="geojson-doc|bbox")
            corr(R, f"c14 gjd {m} {sp.tok()} 0 0 1 1 P {ptok}", lambda: gj_s(gs.geojson(geopolygon=pq)), sig="geojson-doc|poly")
            corr(R, f"c14 gjd {m} {sp.tok()} 0 0 1 1 PB {ptok} {qtok}", lambda: gj_s(gs.geojson(geopolygon=pq, bbox=bbq)), sig="geojson-doc|both")
        oracle_geojson_both(R, H, O, gs, sp, tri, qb)
    sinu = "+proj=sinu +lon_0=0 +x_0=0 +y_0=0 +R=6371007.181 +units=m +no_defs"
    gj_grids = [("epsg:3577", H.Spec(4000, 4000, 250.0, -250.0, 0.0, 0.0, False, False)),
                (sinu, H.Spec(10, 10, 333585.0, -333585.0, -20015109.354, -10007554.677, False, False)),
                ("epsg:3111", H.Spec(500, 400, 100.0, -100.0, 2123456.0, 2234567.0, False, False)),    # VicGrid: ~900 x 600 km valid region
                ("epsg:4326", H.Spec(60, 60, 1.0, -1.0, -180.0, -90.0, False, False)),
                ("epsg:32755", H.Spec(5000, 5000, 200.0, -200.0, 399960.0, 9000040.0, False, True)),
                ("epsg:3577", H.Spec(2000, 3000, 300.0, 300.0, 1234.5, -777.25, True, False)),
                ("epsg:4326", H.Spec(45, 30, 1 / 3, -1 / 3, 0.1, 0.2, False, True)),
                ("epsg:3857", H.Spec(256, 256, 39135.75848200009, -39135.75848200009, -20037508.342789244, 20037508.342789244, False, True))]
    for crs, sp in gj_grids[: R.pick(5, len(gj_grids))]:
        gs = O.GridSpec(crs, (sp.ny, sp.nx), O.resxy_(sp.rx, sp.ry), origin=O.xy_(sp.ox, sp.oy), flipx=sp.fx, flipy=sp.fy)
        vb = H.guarded_obj(lambda: valid_bbox(gs, O))
        if vb is None or not all(math.isfinite(v) for v in vb):
            R.count("geojson-default|valid-region-not-finite")
            continue
        corr(R, f"c14 gjd F {sp.tok()} {' '.join(fs(v) for v in vb)} N", lambda: gj_s(gs.geojson()),
             sig="geojson-doc|no-argument|" + ("no-valid-region" if gs.crs.valid_region is None else "valid-region"))
        # oracle: the document lists exactly the tiles of that box, once each, with their own footprint
        fc = H.guarded_obj(gs.geojson)
        ok, what = fc is not None, "geojson() raised"
        if ok:
            ids = [tuple(int(v) for v in f["properties"]["idx"].split(",")) for f in fc["features"]]
            ref = [tuple(map(int, kx)) for kx, _ in H.ltiles(gs.tiles(vb))]
            ok = ids == ref and len(set(ids)) == len(ids) and len(ids) > 0
            what = f"geojson() lists {len(ids)} tiles {ids[:5]}, the valid-region box holds {len(ref)} {ref[:5]}"
        R.oracle(ok, "geojson-default-not-valid-region-tiles", {"op": "a:gj", "crs": crs, "grid": sp.tok()}, what, sig="geojson-doc|oracle")


# ----------------------------------------------------------------------------- failing-input search / replay
def battery(C, O, H):
    """fixed battery of the oracles of this file (used by the failing-input search after a broken correspondence)"""
    T, np, CRSc = _T()
    for n, sp in enumerate((H.Spec(10, 10, 0.5, -0.5, 0.0, 0.0, False, False), H.Spec(3, 2, -0.75, 0.75, -0.75, 2.5, True, False),
                            H.Spec(4000, 4000, 25.0, -25.0, 0.0, 0.0, False, True))):
        rng = random.Random(n)
        try:
            for sn, _, _ in shape_spellings(T, np, sp.ny, sp.nx):
                for rn, _, _ in res_spellings(T, np, sp.rx, sp.ry):
                    for omit in ((False, True) if sp.ox == 0 and sp.oy == 0 else (False,)):
                        alt = build_spelled(H, O, T, np, sp, sn, rn, omit)
                        oracle_spelling(C, H, O, sp, alt, f"shape as {sn}, resolution as {rn}" + (", origin omitted" if omit else ""),
                                        [(0, 0), (2, -3)], [(float(sp.ox) + 0.3 * float(sp.szx), float(sp.oy) - 1.7 * float(sp.szy))])
            gs = sp.make(O)
            for _ in range(12):
                gens, ops = gen_sched(H, rng, sp, False)
                oracle_sched(C, H, O, gs, sp, gens, ops)
            for q in ((float("nan"),) * 4, (0.0, 0.0, float("inf"), 1.0), (float("-inf"), 0.0, 1.0, 1.0)):
                oracle_specials(C, H, O, gs, sp, q)
            same = gs[1, -2] == gs[T.ixy_(1, -2)] == gs.tile_geobox(T.xy_(1, -2))
            C.oracle(same, "tile-index-spelling-changes-tile", {"op": "a:tga", "grid": sp.tok(), "k": [1, -2]}, "index spellings disagree")
        except Exception as e:  # pylint: disable=broad-except
            C.oracle(False, "init-spelling-changes-grid", {"op": "a:init", "grid": sp.tok(), "spelling": "battery"}, repr(e))
        if C.fail:
            return
    try:
        for npix in (256.0, 300.9, np.int64(512)):
            a, c0 = O.GridSpec.web_tiles(5, npix), O.GridSpec.web_tiles(5, int(npix))
            C.oracle(a == c0 and a[3, 4] == c0[3, 4], "web-tiles-npix-spelling", {"op": "a:weba", "npix": repr(npix)},
                     f"web_tiles(5, {npix!r}) differs from web_tiles(5, {int(npix)})")
        for spb in (H.Spec(10, 10, 0.5, -0.5, 0.0, 0.0, False, False), H.Spec(3, 2, -0.75, 0.25, -0.75, 2.5, True, True)):
            Xb = lambda a: float(Fraction(spb.ox) + Fraction(a) * spb.szx)
            Yb = lambda b: float(Fraction(spb.oy) + Fraction(b) * spb.szy)
            tri = H.convex_pts(random.Random(0), [(Xb(0.25), Yb(0.25)), (Xb(2.75), Yb(0.5)), (Xb(0.5), Yb(2.25))])
            oracle_geojson_both(C, H, O, spb.make(O), spb, tri, (Xb(0.25), Yb(-0.75), Xb(2.25), Yb(1.25)))
        if C.fail:
            return
        gs = O.GridSpec("epsg:3577", (4000, 4000), 250.0)
        ids = [tuple(int(v) for v in f["properties"]["idx"].split(",")) for f in gs.geojson()["features"]]
        ref = [tuple(map(int, kx)) for kx, _ in H.ltiles(gs.tiles(valid_bbox(gs, O)))]
        C.oracle(ids == ref and ids, "geojson-default-not-valid-region-tiles", {"op": "a:gj", "crs": "epsg:3577", "grid": "4000 4000 250 -250 0 0 F F"},
                 f"geojson() lists {ids[:5]}…, valid region holds {ref[:5]}…")
    except Exception as e:  # pylint: disable=broad-except
        C.oracle(False, "geojson-default-not-valid-region-tiles", {"op": "a:gj", "crs": "epsg:3577", "grid": "4000 4000 250 -250 0 0 F F"}, repr(e))


def replay_args(C, O, H, case) -> None:
    """re-run one recorded oracle case of this file on the real code (failures land in the collector `C`)"""
    T, np, CRSc = _T()
    op = case.get("op")
    f = lambda s: float(Fraction(s)) if s not in ("nan", "inf", "-inf") else float(s)
    if op in ("a:init", "a:tga", "a:sched", "a:specials", "a:empty"):
        sp = H.Spec.from_tok(case["grid"].split(" "))
        gs = sp.make(O)
        if op == "a:init":
            for sn, _, _ in shape_spellings(T, np, sp.ny, sp.nx):
                for rn, _, _ in res_spellings(T, np, sp.rx, sp.ry):
                    try:
                        alt = build_spelled(H, O, T, np, sp, sn, rn, False)
                    except Exception as e:  # pylint: disable=broad-except
                        C.oracle(False, "init-spelling-changes-grid", case, f"shape as {sn}, resolution as {rn}: {e!r}")
                        continue
                    oracle_spelling(C, H, O, sp, alt, f"shape as {sn}, resolution as {rn}", [(0, 0), (2, -3), (-1, 1)], [(float(sp.ox) + 0.3, float(sp.oy) - 1.7)])
        elif op == "a:tga":
            ix, iy = case["k"]
            same = guarded(lambda: bool_s(gs[ix, iy] == gs[T.ixy_(ix, iy)] == gs.tile_geobox(T.xy_(ix, iy)) == gs.tile_geobox((ix, iy))))
            C.oracle(same == "T", "tile-index-spelling-changes-tile", case, f"index spellings give different tiles: {same}")
        elif op == "a:sched":
            gens = [("B", g[1], tuple(g[2])) if g[0] == "B" else ("P", [tuple(p) for p in g[1]], None) for g in case["gens"]]
            oracle_sched(C, H, O, gs, sp, gens, case["ops"])
        elif op == "a:specials":
            oracle_specials(C, H, O, gs, sp, tuple(f(v) for v in case["bbox"]))
        else:
            import shapely
            out = guarded(lambda: str(len(H.ltiles(gs.tiles_from_geopolygon(O.geom.Geometry(shapely.from_wkt(case["wkt"]), H.CRS))))))
            C.oracle(out == "ERR:ValueError", "non-finite-query-answered", case, f"empty geometry gave {out}")
    elif op == "a:gjboth":
        sp = H.Spec.from_tok(case["grid"].split(" "))
        oracle_geojson_both(C, H, O, sp.make(O), sp, [tuple(f(v) for v in p) for p in case["tri"]], tuple(f(v) for v in case["bbox"]))
    elif op == "a:webref":
        z = case["z"]
        g0, g1 = O.GridSpec.web_tiles(z), O.GridSpec.web_tiles(z + 1)
        n = 2**z
        for (i, j) in ((0, 0), (n - 1, n - 1), (n // 2, n // 3)):
            l, b, r, t = H.fbb(g0[i, j].boundingbox)
            for a in (0, 1):
                for c in (0, 1):
                    cl, cb, cr, ct = H.fbb(g1[2 * i + a, 2 * j + c].boundingbox)
                    T2 = (r - l) / 2
                    want = (l + a * T2, t - (c + 1) * T2, l + (a + 1) * T2, t - c * T2)
                    C.oracle(all(abs(u - v) <= Fraction(H.P_WEB) / 10**9 for u, v in zip((cl, cb, cr, ct), want)), "web-tiles-refinement", case,
                             f"child ({2 * i + a},{2 * j + c}) of ({i},{j}) at zoom {z}")
    elif op == "a:thr":
        sp = H.Spec.from_tok(case["grid"].split(" "))
        gens = [("B", g[1], tuple(g[2])) if g[0] == "B" else ("P", [tuple(p) for p in g[1]], None) for g in case["gens"]]
        oracle_threads(C, H, O, sp.make(O), sp, gens, case["schedule"])
    elif op == "a:gridint":
        from odc.geo.geobox import GeoboxTiles
        sp = H.Spec.from_tok(case["grid"].split(" "))
        gs = sp.make(O)
        k, dk = tuple(case["k"]), tuple(case["dk"])
        ta, tb2 = gs[k], gs[k[0] + dk[0], k[1] + dk[1]]
        for ca in ((2, 3), (max(1, ta.shape[0] // 3), max(1, ta.shape[1] // 2)), tuple(ta.shape)):
            gi = GeoboxTiles(ta, ca).grid_intersect(GeoboxTiles(tb2, ca))
            ne = {d_: s_ for d_, s_ in gi.items() if s_} if len(gi) < 5000 else {}
            C.oracle(not ne, "tilings-of-different-tiles-intersect", case, f"chunks {ca}: {list(ne.items())[:3]}")
    elif op in ("a:subtiles", "a:frombbox"):
        from odc.geo.geobox import GeoBox, GeoboxTiles
        sp = H.Spec.from_tok(case["grid"].split(" "))
        gs = sp.make(O)
        tile = gs[tuple(case["k"])]
        if op == "a:frombbox":
            rb = GeoBox.from_bbox(tile.boundingbox, shape=gs.tile_shape, tight=True)
            print("from_bbox:", rb, "tile:", tile)
            C.oracle(rb.shape == tile.shape and all(abs(u - v) <= 1e-9 * max(1, abs(v)) for u, v in zip(tuple(rb.affine)[:6], tuple(tile.affine)[:6])),
                     "from-bbox-does-not-rebuild-tile", case, f"{rb!r} vs {tile!r}")
        else:
            a, b = case.get("chunk", [2, 3])
            gbt = GeoboxTiles(tile, (a, b))
            tot = 0
            for r in range(gbt.shape[0]):
                for c in range(gbt.shape[1]):
                    sub = gbt[r, c]
                    tot += sub.shape[0] * sub.shape[1]
                    want, got = tile.affine * (c * b, r * a), sub.affine * (0, 0)
                    C.oracle(all(abs(u - v) <= 1e-9 * max(1, abs(v)) for u, v in zip(got, want)), "tile-subtiles-do-not-partition", case,
                             f"sub-tile {(r, c)}: {got} vs {want}")
            C.oracle(tot == tile.shape[0] * tile.shape[1], "tile-subtiles-do-not-partition", case, f"{tot} pixels covered")
    elif op == "a:flb":
        qv = Fraction(case["q"])
        C.oracle(abs(Fraction(float(qv)) - qv) <= Fraction(1, 2**53) * abs(qv) + Fraction(1, 2**1075), "binary64-error-bound", case, "float(q) too far from q")
    elif op == "a:band":
        bz = O.Bin1D(f(case["sz"]), f(case["o"]), case["d"])
        qq = (Fraction(case["x"]) - Fraction(case["o"])) / Fraction(case["sz"])
        C.oracle(bz.bin(f(case["x"])) == case["d"] * (qq.numerator // qq.denominator), "bin-differs-outside-the-exclusion-band", case, "rounded lookup differs")
    elif op == "a:cover":
        sp = H.Spec.from_tok(case["grid"].split(" "))
        oracle_geobox_cover(C, H, O, sp.make(O), sp, tuple(case["shape"]), tuple(f(v) for v in case["affine"]), case["n"], case["seed"])
    elif op == "a:fsta":
        q = tuple(f(v) for v in case["box"])
        ny, nx, ix, iy = case["ny"], case["nx"], case["ix"], case["iy"]
        c0 = O.GridSpec.from_sample_tile(O.geom.box(*q, H.CRS), shape=(ny, nx), idx=(ix, iy), flipx=case["fx"], flipy=case["fy"])
        for sn, sv, _ in shape_spellings(T, np, ny, nx):
            for iname, iv, _ in idx_spellings(T, np, ix, iy):
                a = H.guarded_obj(lambda: O.GridSpec.from_sample_tile(O.geom.box(*q, H.CRS), shape=sv, idx=iv, flipx=case["fx"], flipy=case["fy"]))
                k = tuple(case["k"])
                C.oracle(a is not None and a == c0 and H.fbb(a[k].boundingbox) == H.fbb(c0[k].boundingbox), "from-sample-spelling-changes-grid", case,
                         f"shape as {sn}, idx as {iname}: {a!r} vs {c0!r}")
    elif op == "a:weba":
        for npix in (256.0, 256.9, np.int64(512)):
            a, c0 = H.guarded_obj(lambda: O.GridSpec.web_tiles(5, npix)), O.GridSpec.web_tiles(5, int(npix))
            C.oracle(a is not None and a == c0 and a[3, 4] == c0[3, 4], "web-tiles-npix-spelling", case, f"web_tiles(5, {npix!r}) vs web_tiles(5, {int(npix)})")
    elif op == "a:gj":
        sp = H.Spec.from_tok(case["grid"].split(" "))
        gs = O.GridSpec(case["crs"], (sp.ny, sp.nx), O.resxy_(sp.rx, sp.ry), origin=O.xy_(sp.ox, sp.oy), flipx=sp.fx, flipy=sp.fy)
        fc = H.guarded_obj(gs.geojson)
        ids = [tuple(int(v) for v in ft["properties"]["idx"].split(",")) for ft in fc["features"]] if fc else None
        ref = [tuple(map(int, kx)) for kx, _ in H.ltiles(gs.tiles(valid_bbox(gs, O)))]
        print("geojson() ids:", (ids or [])[:10], "… valid-region tiles:", ref[:10])
        C.oracle(ids == ref and bool(ids), "geojson-default-not-valid-region-tiles", case, f"{len(ids or [])} vs {len(ref)} tiles")
