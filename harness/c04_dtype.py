"""C04 — dtype / fill-value glue of BlockAssembler (`__init__` dtype, `_find_common_type`, `extract(fill, dtype=)`)
against Model/C04Dtype.lean, and the numpy reference semantics that model uses (np.result_type of any number of
dtypes, np.can_cast safe, np.min_scalar_type, np.full's refusal of out-of-range Python ints)."""
from __future__ import annotations

import itertools
import warnings
from fractions import Fraction

import numpy as np

from .common import Run, bool_s, frac_s, guarded, list_s

NAMES = ["bool", "uint8", "uint16", "uint32", "uint64", "int8", "int16", "int32", "int64",
         "float16", "float32", "float64", "complex64", "complex128"]
DTS = [np.dtype(n) for n in NAMES]


def dt_s(d) -> str:
    d = np.dtype(d)
    if d.kind not in "buifc":
        return "object"
    return f"{d.kind}{d.itemsize * 8}"


def fill_tok(v) -> str:
    if v is None:
        return "N"
    if isinstance(v, bool):
        return "B=" + bool_s(v)
    if isinstance(v, int):
        return f"I={v}"
    if v != v or v in (float("inf"), float("-inf")):
        return "F=x"
    return "F=" + frac_s(v)


INT_FILLS = [0, 1, -1, 127, 128, -128, -129, 255, 256, 300, 32767, 32768, -32768, -32769, 65535, 65536, 2 ** 31 - 1, 2 ** 31,
             -2 ** 31, -2 ** 31 - 1, 2 ** 32 - 1, 2 ** 32, 2 ** 63 - 1, 2 ** 63, -2 ** 63, 2 ** 64 - 1]
FLOAT_FILLS = [0.0, 1.5, -2.25, 64999.0, 65000.0, -65000.0, 65504.0, 70000.0, 1e10, 3.3e38, float(np.nextafter(3.4e38, 0)), 3.4e38,
               -3.4e38, 1e40, -1e300, float("nan"), float("inf"), float("-inf")]


def dtype_stream(R: Run, BlockAssembler):
    rng = R.rng
    with warnings.catch_warnings():
        warnings.simplefilter("ignore")
        with np.errstate(all="ignore"):
            _dtype_stream(R, BlockAssembler, rng)
    R.assumptions.append("numpy promotion as modelled (np.result_type of 1-3 dtypes exhaustively, np.can_cast 'safe' on all pairs, "
                         "np.min_scalar_type at every range edge, np.full's OverflowError for out-of-range Python ints) is "
                         "validated against the installed numpy on every run")


def _dtype_stream(R: Run, BlockAssembler, rng):
    # ---- reference semantics of numpy
    for k in (1, 2, 3):
        for combo in itertools.product(DTS, repeat=k):
            R.corr(f"c04 dt rt {list_s([dt_s(d) for d in combo])}", lambda combo=combo: dt_s(np.result_type(*combo)),
                   sig=f"dt-rt|{k}|{np.result_type(*combo).kind}")
    for _ in range(R.pick(60, 600)):
        combo = [rng.choice(DTS) for _ in range(rng.randint(4, 7))]
        R.corr(f"c04 dt rt {list_s([dt_s(d) for d in combo])}", lambda combo=combo: dt_s(np.result_type(*combo)), sig="dt-rt|many")
    for a, b in itertools.product(DTS, repeat=2):
        R.corr(f"c04 dt cast {dt_s(a)} {dt_s(b)}", lambda a=a, b=b: bool_s(np.can_cast(a, b, "safe")), sig=f"dt-cast|{a.kind}{b.kind}")
    for v in [True, False] + INT_FILLS + [2 ** 64, -2 ** 63 - 1] + FLOAT_FILLS:
        R.corr(f"c04 dt min {fill_tok(v)}", lambda v=v: (lambda d: "N" if d == "object" else d)(dt_s(np.min_scalar_type(v))),
               sig=f"dt-min|{type(v).__name__}")

    # ---- BlockAssembler.__init__: dtype of the mosaic
    def mk(dts):
        chy, chx = (2,) * max(1, len(dts)), (3,)
        blocks = {(i, 0): (np.arange(6).reshape(2, 3) % 2).astype(d) for i, d in enumerate(dts)}
        return BlockAssembler(blocks, (chy, chx)), chy

    combos = [()] + [(d,) for d in DTS] + list(itertools.product(DTS, repeat=2))
    combos += [tuple(rng.choice(DTS) for _ in range(3)) for _ in range(R.pick(40, 400))]
    for combo in combos:
        R.corr(f"c04 dt init {list_s([dt_s(d) for d in combo])}", lambda combo=combo: dt_s(mk(combo)[0].dtype), sig=f"dt-init|{len(combo)}")

    # ---- extract(fill, dtype=): the allocated dtype, the default fill, numpy's refusal of out-of-range int fills
    fills = [None, True, False] + INT_FILLS + FLOAT_FILLS
    dargs = [None, None, None] + DTS
    cases = []
    for d in DTS:                                   # one block dtype: every fill with dtype=None, a few explicit dtypes
        for f in fills:
            cases.append(((d,), None, f))
        for _ in range(R.pick(6, 40)):
            cases.append(((d,), rng.choice(DTS), rng.choice(fills)))
    for _ in range(R.pick(150, 1500)):
        cases.append((tuple(rng.choice(DTS) for _ in range(rng.randint(0, 3))), rng.choice(dargs), rng.choice(fills)))
    for combo, darg, fill in cases:
        case = {"blocks": [dt_s(d) for d in combo], "dtype": None if darg is None else dt_s(darg), "fill": repr(fill)}
        res = []

        def f():
            # one more row of tiles than blocks: the last tile is absent, its cells hold the fill
            blocks = {(i, 0): (np.arange(6).reshape(2, 3) % 2).astype(d) for i, d in enumerate(combo)}
            a = BlockAssembler(blocks, ((2,) * len(combo) + (2,), (3,)))
            kw = {} if darg is None else {"dtype": darg}
            xx = a.extract(fill, **kw) if fill is not None else a.extract(**kw)
            res.append(xx)
            cell = xx[-1, -1]
            if fill is not None:
                seen = "given"
            elif cell != cell:
                seen = "nan"
            elif cell == 0:
                seen = "0"
            else:
                seen = repr(cell)
            return f"{dt_s(xx.dtype)} {seen}"

        out = guarded(f)
        if out == "ERR:TypeError":
            continue  # casting="same_kind" refuses the paste into an explicitly narrower dtype: not this model's subject
        R.corr(f"c04 dt extract {list_s([dt_s(d) for d in combo])} {'N' if darg is None else dt_s(darg)} {fill_tok(fill)}",
               lambda out=out: out, sig=f"dt-extract|{'explicit' if darg is not None else 'auto'}|{type(fill).__name__}|"
                                        f"{'raises' if out.startswith('ERR') else 'ok'}")
        if not res:
            continue
        xx = res[0]
        # model-independent: present blocks keep their values, and a fill that the result dtype can represent is
        # written exactly
        for i, d in enumerate(combo):
            want = (np.arange(6).reshape(2, 3) % 2).astype(d)
            got = xx[2 * i:2 * i + 2]
            R.oracle(bool(np.array_equal(got.astype("complex128"), want.astype("complex128"))), "assembler-mixed-dtype-wrong", case,
                     f"block {i} ({d}) reads back as {got.tolist()}", sig="dt-values")
        if fill is not None:
            cell = xx[-1, -1]
            try:
                representable = bool(xx.dtype.type(fill) == fill) or (fill != fill)
            except Exception:  # pylint: disable=broad-except
                representable = False
            # small fills must survive whatever the blocks' dtypes are when the dtype is left to extract()
            small = darg is None and (isinstance(fill, bool) or (isinstance(fill, int) and -100 <= fill <= 100)
                                      or (isinstance(fill, float) and (fill != fill or fill in (0.0, 1.5, -2.25))))
            if representable or small:
                ok = bool(cell == fill) or (fill != fill and cell != cell)
                R.oracle(ok, "assembler-fill-not-preserved", case, f"absent cell holds {cell!r}, fill was {fill!r}",
                         sig=f"dt-fill|{xx.dtype.kind}")
            else:
                R.count("dt-fill-unrepresentable")

    # ---- casting= and an explicit dtype=: np.copyto refuses (TypeError) by rule, for EVERY block of the mapping, also one
    # that does not meet the requested window
    RULES = {"no": "no", "equiv": "equiv", "safe": "safe", "same_kind": "same_kind", "unsafe": "anycast"}
    for rule, tok in RULES.items():
        for a, b in itertools.product(DTS, repeat=2):
            R.corr(f"c04 dt ccast {tok} {dt_s(a)} {dt_s(b)}", lambda a=a, b=b, rule=rule: bool_s(np.can_cast(a, b, rule)),
                   sig=f"dt-ccast|{rule}")
    ccases = []
    for d in DTS:
        for darg in DTS:
            ccases.append(((d,), darg, None, "same_kind", False))
    for _ in range(R.pick(400, 4000)):
        combo = tuple(rng.choice(DTS) for _ in range(rng.randint(0, 3)))
        ccases.append((combo, rng.choice([None] + DTS), rng.choice([None, None, 0, 1, -1, 300, 1.5, float("nan"), True]),
                       rng.choice(list(RULES)), rng.random() < 0.5))
    for combo, darg, fill, rule, first_tile_only in ccases:
        def f():
            blocks = {(i, 0): (np.arange(6).reshape(2, 3) % 2).astype(d) for i, d in enumerate(combo)}
            a = BlockAssembler(blocks, ((2,) * len(combo) + (2,), (3,)))
            kw = {"casting": rule}
            if darg is not None:
                kw["dtype"] = darg
            if first_tile_only:
                kw["roi"] = (slice(0, 2), slice(0, 3))
            xx = a.extract(fill, **kw) if fill is not None else a.extract(**kw)
            return dt_s(xx.dtype)

        out = guarded(f)
        R.corr(f"c04 dt extractc {list_s([dt_s(d) for d in combo])} {'N' if darg is None else dt_s(darg)} {fill_tok(fill)} {RULES[rule]}",
               lambda out=out: out, sig=f"dt-extractc|{rule}|{'explicit' if darg is not None else 'auto'}|"
                                        f"{'window' if first_tile_only else 'all'}|{out if out.startswith('ERR') else 'ok'}")
        if darg is None and rule in ("same_kind", "safe", "unsafe"):
            R.oracle(out != "ERR:TypeError", "assembler-auto-dtype-refuses-block",
                     {"blocks": [dt_s(d) for d in combo], "fill": repr(fill), "casting": rule},
                     f"extract with the dtype left to it refused one of its own blocks: {out}", sig=f"dt-cast-oracle|{rule}")

    # ---- the VALUES numpy writes when an integer block is narrowed (reference semantics castInt; extract_narrowed_cells)
    from .c04 import cell_vals, enc, ints

    int_dts = [d for d in DTS if d.kind in "bui"]
    edge = sorted({s_ * v + o for v in (0, 1, 127, 128, 255, 256, 32767, 32768, 65535, 65536, 2 ** 31, 2 ** 32, 2 ** 63 - 1)
                   for s_ in (1, -1) for o in (-1, 0, 1) if -2 ** 63 <= s_ * v + o < 2 ** 63})
    for d in int_dts + [np.dtype("float32")]:
        for v in edge:
            R.corr(f"c04 dt castv {dt_s(d)} {v}",
                   lambda d=d, v=v: "N" if d.kind == "f" else str(int(np.array(v, dtype="int64").astype(d))), sig=f"dt-castv|{d.kind}")
    for _ in range(R.pick(60, 600)):
        chy = [rng.randint(1, 3) for _ in range(rng.randint(1, 3))]
        chx = [rng.randint(1, 3) for _ in range(rng.randint(1, 2))]
        keys = [(iy, ix) for iy in range(len(chy)) for ix in range(len(chx)) if rng.random() < 0.7]
        m = rng.choice([300, 1000, 100000, 2 ** 40])
        d = rng.choice(int_dts)
        blocks = {k: (cell_vals(m, k, [], chy[k[0]], chx[k[1]], []) - m // 2).astype("int64") for k in keys}
        NY, NX = sum(chy), sum(chx)
        y0, x0 = rng.randint(0, NY - 1), rng.randint(0, NX - 1)
        wy, wx = slice(y0, rng.randint(y0 + 1, NY)), slice(x0, rng.randint(x0 + 1, NX))

        def f():
            a = BlockAssembler(blocks, (tuple(chy), tuple(chx))) if keys else None
            if a is None:
                return None
            xx = a.extract(0, dtype=d, casting="unsafe", roi=(wy, wx))
            return f"{xx.shape[0]} {xx.shape[1]} {list_s([int(v) for v in xx.ravel()])}"

        out = guarded(f)
        if out is None:
            continue
        R.corr(f"c04 dt asmcast {ints(chy)} {ints(chx)} {list_s([f'{k[0]};{k[1]}' for k in keys])} {enc(wy)} {enc(wx)} {m} {dt_s(d)}",
               lambda out=out: out, sig=f"dt-asmcast|{d.kind}{d.itemsize * 8}")

