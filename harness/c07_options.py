"""C07, second part — the option paths of Geometry.to_crs and their public users (Model/C07Fix.lean):
_multigeom / multigeom, clip_lon180 incl. its Multi* branch, Geometry.filter / dropna, maybe_fix (check_and_fix=True),
to_crs with every option, lonlat_bounds, mid_longitude; shapely's ring / polygon construction as validated reference
semantics."""
from __future__ import annotations

import itertools
import math
import warnings
from fractions import Fraction
from typing import Any, Dict, List

from .common import Run, frac_s

NANV = Fraction(2) ** 200   # how a non-finite coordinate is sent to / read from the Lean driver (Drv.nanV)


def _c07():
    from . import c07

    return c07


def nf(v) -> Fraction:
    return Fraction(v) if math.isfinite(v) else NANV


def pt_nf(p) -> str:
    return f"{frac_s(nf(p[0]))};{frac_s(nf(p[1]))}"


def pts_nf(ps) -> str:
    return "[" + ",".join(pt_nf(p) for p in ps) + "]"


def enc_nf(g) -> str:
    """shapely geometry -> driver tokens; non-finite coordinates as NANV; `POINT EMPTY` as EMPTYPOINT"""
    t = g.geom_type
    if t == "Point":
        return "EMPTYPOINT" if g.is_empty else "P " + pt_nf(g.coords[0])
    if t == "MultiPoint":
        return "MP " + pts_nf([q.coords[0] for q in g.geoms])
    if t == "LineString":
        return "L " + pts_nf(g.coords)
    if t == "LinearRing":
        return "R " + pts_nf(g.coords)
    if t == "Polygon":
        return " ".join([f"PG {len(g.interiors)}", pts_nf(g.exterior.coords)] + [pts_nf(i.coords) for i in g.interiors])
    tag = {"MultiLineString": "ML", "MultiPolygon": "MG", "GeometryCollection": "GC"}[t]
    return " ".join([f"{tag} {len(g.geoms)}"] + [enc_nf(x) for x in g.geoms])


class FakeNF:
    """stand-in exact projection (same map as Drv.fakeProjNF): fails in x for source x > 1000, in both for x < -1000"""

    def __init__(self, s: int, t: int):
        self.s, self.t = s, t

    def _one(self, a, b):
        u, v = 2 * a + b + self.s, b - a / 2 + 4 * self.t
        # pyproj reports a point it cannot project as inf (tuple / scalar branch: no NaN harmonisation)
        if a > 1000:
            return float("inf"), v
        if a < -1000:
            return float("inf"), float("inf")
        return u, v

    def transform(self, x, y, **kw):
        import numpy as np

        if isinstance(x, np.ndarray):
            u = 2 * x + y + self.s
            v = y - x / 2 + 4 * self.t
            u = np.where((x > 1000) | (x < -1000), np.inf, u)
            v = np.where(x < -1000, np.inf, v)
            return u, v
        if isinstance(x, (tuple, list)):
            r = [self._one(a, b) for a, b in zip(x, y)]
            return tuple(p[0] for p in r), tuple(p[1] for p in r)
        return self._one(x, y)


def all_vertices(g) -> List[Any]:
    return [p for c in _c07().rings_of(g) for p in c] if not g.is_empty else []


def clip_variant(gm) -> str:
    """which `clip_lon180` the tree has: R (fix2-C07: empty Multi* handed back) or F (as found: KeyError)"""
    from shapely import geometry as sg

    try:
        with warnings.catch_warnings():
            warnings.simplefilter("ignore")
            gm.clip_lon180(gm.Geometry(sg.MultiPolygon(), "EPSG:4326"))
        return "R"
    except KeyError:
        return "F"
    except Exception:  # pylint: disable=broad-except
        return "R"   # anything else is not the defect as found: compare with the repaired model


def collections_for(rng, origin=None, unit=None, lon_mode=False):
    """GeometryCollections of every make-up: homogeneous (polygons / lines / points / rings / Multi* members), a single
    member of each kind, mixed, nested (collections of collections, homogeneous inside), empty.  Edges axis-parallel
    with power-of-two lengths or 3-4-5 hypotenuses and r = 35u/8, so every densification is exact in binary64."""
    from shapely import geometry as sg

    u = unit if unit is not None else 2.0 ** rng.randint(-2, 3)
    r = 35 * u / 8
    ox, oy = origin if origin is not None else rng.choice([(0.0, 0.0), (1000.0, 0.0), (-37.5, 0.25)])

    def P(x, y):
        return (ox + x * u, oy + y * u)

    def sq(x, y, m):
        return [P(x, y), P(x, y + m), P(x + m, y + m), P(x + m, y), P(x, y)]

    def tri(x, y, k):
        return [P(x, y), P(x + 3 * k, y + 4 * k), P(x + 3 * k, y), P(x, y)]

    poly_a = sg.Polygon(sq(0, 0, 16), [tri(2, 2, 1)[::-1]])
    poly_b = sg.Polygon(tri(40, 0, 4))
    poly_c = sg.Polygon(sq(60, 8, 35 / 8))
    line_a = sg.LineString([P(100, 0), P(103, 4), P(103, 20)])
    line_b = sg.LineString([P(110, 0), P(110, 0.5)])
    pt_a, pt_b = sg.Point(P(200, 1)), sg.Point(P(-8, 3))
    ring_a = sg.LinearRing(sq(300, 0, 8))
    mpoly = sg.MultiPolygon([poly_b, poly_c])
    mline = sg.MultiLineString([line_a, line_b])
    mpt = sg.MultiPoint([P(1, 1), P(5, 2)])
    kinds = {
        "gc:polygons": sg.GeometryCollection([poly_a, poly_b, poly_c]),
        "gc:lines": sg.GeometryCollection([line_a, line_b]),
        "gc:points": sg.GeometryCollection([pt_a, pt_b]),
        "gc:single-polygon": sg.GeometryCollection([poly_a]),
        "gc:single-line": sg.GeometryCollection([line_a]),
        "gc:single-point": sg.GeometryCollection([pt_a]),
        "gc:single-multipolygon": sg.GeometryCollection([mpoly]),
        "gc:multipolygons": sg.GeometryCollection([mpoly, sg.MultiPolygon([poly_a])]),
        "gc:multilines": sg.GeometryCollection([mline, mline]),
        "gc:multipoints": sg.GeometryCollection([mpt, mpt]),
        "gc:mixed": sg.GeometryCollection([pt_a, poly_a, line_a]),
        "gc:nested-homogeneous": sg.GeometryCollection([sg.GeometryCollection([poly_a]), sg.GeometryCollection([poly_b, poly_c])]),
        "gc:nested-mixed": sg.GeometryCollection([line_a, sg.GeometryCollection([poly_a, poly_b]), sg.GeometryCollection([sg.GeometryCollection([pt_a])])]),
        "gc:rings": sg.GeometryCollection([ring_a]),
        "gc:empty": sg.GeometryCollection(),
        "gc:polygon+empty": sg.GeometryCollection([poly_b, sg.Polygon()]),
    }
    del lon_mode
    return kinds, r


# --------------------------------------------------------------------------- shapely construction semantics
def run_construct(R: Run):
    from shapely import geometry as sg

    c7 = _c07()
    gm, _ = c7._mods()  # pylint: disable=protected-access
    atoms = [(0.0, 0.0), (4.0, 0.0), (4.0, 4.0), (0.0, 4.0)]
    seqs: List[List[Any]] = [[]]
    for n in range(1, 6):
        for combo in itertools.product(range(len(atoms)), repeat=n):
            if n >= 4 and R.quick and R.rng.random() > 0.25:
                continue
            seqs.append([atoms[i] for i in combo])
    for cs in seqs:
        def fr():
            try:
                return c7.pts_s(sg.LinearRing(cs).coords)
            except BaseException as e:  # pylint: disable=broad-except
                return c7.err_s(e)

        R.corr(f"c07 closering {c7.pts_s(cs)}", fr, sig=f"closering|n={len(cs)}|" + ("closed" if len(cs) > 1 and cs[0] == cs[-1] else "open"))
    hole_opts: List[List[List[Any]]] = [[], [[(1.0, 1.0), (2.0, 1.0), (2.0, 2.0)]], [[(1.0, 1.0), (2.0, 1.0), (2.0, 2.0), (1.0, 1.0)]],
                                        [[(1.0, 1.0), (2.0, 1.0), (2.0, 2.0), (1.0, 2.0)], [(3.0, 3.0), (3.5, 3.0), (3.5, 3.5)]]]
    for cs in seqs[:: (3 if R.quick else 1)]:
        for holes in hole_opts:
            def fp():
                try:
                    with warnings.catch_warnings():
                        warnings.simplefilter("ignore")
                        return c7.enc_geom(gm.polygon(cs, None, *holes).geom)
                except BaseException as e:  # pylint: disable=broad-except
                    return c7.err_s(e)

            R.corr(" ".join([f"c07 mkpolygon {len(holes)}", c7.pts_s(cs)] + [c7.pts_s(h) for h in holes]), fp,
                   sig=f"mkpolygon|n={min(len(cs), 4)}|holes={len(holes)}")


# --------------------------------------------------------------------------- multigeom, clip_lon180
def run_multigeom(R: Run):
    from shapely import geometry as sg

    c7 = _c07()
    gm, _ = c7._mods()  # pylint: disable=protected-access
    atoms = {
        "pt": sg.Point(1, 2), "pt2": sg.Point(-3, 0.5), "line": sg.LineString([(0, 0), (1, 1)]), "line0": sg.LineString(),
        "poly": sg.box(0, 0, 2, 2), "poly0": sg.Polygon(), "polyh": sg.Polygon(sg.box(0, 0, 8, 8).exterior.coords, [sg.box(1, 1, 2, 2).exterior.coords]),
        "ring": sg.LinearRing([(0, 0), (1, 0), (1, 1)]), "mpt": sg.MultiPoint([(0, 0), (1, 1)]), "mpoly": sg.MultiPolygon([sg.box(0, 0, 1, 1)]),
        "gc": sg.GeometryCollection([sg.Point(5, 5)]), "gc0": sg.GeometryCollection(),
    }
    names = list(atoms)
    combos: List[Any] = [()]
    for n in (1, 2, 3):
        for combo in itertools.product(names, repeat=n):
            if n == 3 and R.rng.random() > R.pick(0.15, 1.0):
                continue
            combos.append(combo)
    for combo in combos:
        shp = [atoms[k] for k in combo]
        kinds = {s.geom_type for s in shp}

        def fm():
            try:
                with warnings.catch_warnings():
                    warnings.simplefilter("ignore")
                    return c7.enc_geom(gm.multigeom([gm.Geometry(s, "EPSG:3857") for s in shp]).geom)
            except BaseException as e:  # pylint: disable=broad-except
                return c7.err_s(e)

        if shp:
            case = {"fn": "multigeom", "wkts": [x.wkt for x in shp]}
            try:
                with warnings.catch_warnings():
                    warnings.simplefilter("ignore")
                    mg = gm.multigeom([gm.Geometry(x, "EPSG:3857") for x in shp]).geom
                okm, whatm = True, ""
                if len(kinds) == 1 and next(iter(kinds)) in ("Polygon", "LineString", "Point"):
                    want = [x.wkb for x in shp if not x.is_empty]
                    okm = mg.geom_type == "Multi" + next(iter(kinds)) and [x.wkb for x in mg.geoms] == want
                    whatm = f"-> {mg.wkt[:80]}"
            except BaseException as e:  # pylint: disable=broad-except
                okm, whatm = False, f"raised {e!r}"
            R.oracle(okm, "multigeom-wrong-parts", case, f"multigeom({[x.wkt[:30] for x in shp]}) {whatm}", sig="multigeom|parts")
        R.corr(" ".join([f"c07 multigeom {len(shp)}"] + [c7.enc_geom(s) for s in shp]), fm,
               sig=f"multigeom|n={len(shp)}|" + ("mixed" if len(kinds) > 1 else "empty" if not kinds else next(iter(kinds)))
               + ("|has-empty" if any(s.is_empty for s in shp) else ""))


def run_clip2(R: Run, variant: str):
    """clip_lon180 through its Multi* branch: empty multi-geometries, multi-geometries of every part count; and the
    defect fix2-C07 repairs (KeyError on an empty Multi*), reported on the real code under its own key"""
    from shapely import geometry as sg

    c7 = _c07()
    gm, _ = c7._mods()  # pylint: disable=protected-access
    rng = R.rng
    tol = 0.125
    th = 180 - tol
    xs = [180.0, -180.0, th, -th, th - 2.0 ** -12, th + 2.0 ** -12, -170.0, 10.0, 0.0, 181.0, -185.5]

    def pts(n):
        return [(rng.choice(xs), rng.randint(-40, 40) / 4) for _ in range(n)]

    def ring(n):
        p = pts(n)
        return p + [p[0]]

    shapes = [("empty-multipolygon", sg.MultiPolygon()), ("empty-multiline", sg.MultiLineString()), ("empty-multipoint", sg.MultiPoint()),
              ("empty-polygon", sg.Polygon()), ("empty-line", sg.LineString()), ("empty-collection", sg.GeometryCollection())]
    for _ in range(R.pick(6, 60)):
        shapes += [("multipoint", sg.MultiPoint(pts(rng.randint(1, 5)))), ("multiline", sg.MultiLineString([pts(rng.randint(2, 4)) for _ in range(rng.randint(1, 3))])),
                   ("multipolygon", sg.MultiPolygon([sg.Polygon(ring(rng.randint(3, 5)), [ring(3)] if rng.random() < 0.4 else []) for _ in range(rng.randint(1, 3))])),
                   ("collection", sg.GeometryCollection([sg.MultiPoint(pts(2)), sg.LineString(pts(2)), sg.GeometryCollection()])),
                   ("polygon", sg.Polygon(ring(4))), ("point", sg.Point(pts(1)[0])),
                   ("gc:polygons", sg.GeometryCollection([sg.Polygon(ring(4)), sg.Polygon(ring(3), [ring(3)])])),
                   ("gc:lines", sg.GeometryCollection([sg.LineString(pts(3)), sg.LineString(pts(2))])),
                   ("gc:points", sg.GeometryCollection([sg.Point(pts(1)[0]), sg.Point(pts(1)[0])])),
                   ("gc:single", sg.GeometryCollection([rng.choice([sg.Polygon(ring(4)), sg.LineString(pts(3)), sg.Point(pts(1)[0])])])),
                   ("gc:multis", sg.GeometryCollection([sg.MultiPoint(pts(2)), sg.MultiPoint(pts(3))])),
                   ("gc:nested", sg.GeometryCollection([sg.GeometryCollection([sg.Polygon(ring(4))]), sg.GeometryCollection([sg.Polygon(ring(3))])])),
                   ("gc:mixed", sg.GeometryCollection([sg.Point(pts(1)[0]), sg.Polygon(ring(4))]))]
    for kind, shp in shapes:
        box: Dict[str, Any] = {}

        def f():
            try:
                with warnings.catch_warnings():
                    warnings.simplefilter("ignore")
                    out = gm.clip_lon180(gm.Geometry(shp, "EPSG:4326"), tol)
            except BaseException as e:  # pylint: disable=broad-except
                box["exc"] = e
                return c7.err_s(e)
            box["out"] = out
            return c7.enc_geom(out.geom)

        R.corr(f"c07 clip2 {variant} {frac_s(tol)} {c7.enc_geom(shp)}", f, sig=f"clip2|{kind}")
        case = {"fn": "clip_lon180", "wkt": shp.wkt, "kind": kind, "tol": tol}
        if "exc" in box:
            R.oracle(False, "clip-lon180-raises" + ("-on-empty-multi" if kind.startswith("empty-multi") else ""), case,
                     f"clip_lon180 of a {kind} ({shp.wkt[:60]}) raised {box['exc']!r}", sig=f"clip2|raises|{kind}")
        else:
            out = box["out"]
            R.oracle(c7.skel_of(out.geom) == c7.skel_of(shp) and str(out.crs) == "EPSG:4326", "clip-lon180-moves-wrong-vertex", case,
                     f"clip_lon180 changed type / structure: {c7.skel_of(shp)} -> {c7.skel_of(out.geom)}", sig=f"clip2|structure|{kind}")
            if c7.skel_of(out.geom) == c7.skel_of(shp) and not shp.is_empty:
                # documented rule, per coordinate sequence: latitudes untouched; a longitude within tol of +-180 goes to the
                # side where the majority of the OTHER (untouched) longitudes lie, +180 on a tie; nothing else moves
                oks = True
                for ci, co in zip(c7.rings_of(shp), c7.rings_of(out.geom)):
                    cc = sum((1 if x > 0 else -1) for x, _ in ci if abs(x) < th)
                    side = 180.0 if cc >= 0 else -180.0
                    for (x, y), (u, v) in zip(ci, co):
                        oks = oks and v == y and (u == x if abs(x) < th else u == side)
                R.oracle(oks, "clip-lon180-moves-wrong-vertex", case,
                         f"clip_lon180({shp.wkt[:70]}, {tol}) -> {out.geom.wkt[:70]}: a vertex is not where the majority rule puts it",
                         sig=f"clip2|side|{kind}")
    # the same through the public entry point, real pyproj
    for kind, shp in shapes[:6]:
        for src, dst in (("EPSG:3857", "EPSG:4326"), ("EPSG:3577", "EPSG:4326"), ("EPSG:4326", "EPSG:3857")):
            for wd in (False, True):
                case = {"fn": "to_crs-empty", "wkt": shp.wkt, "kind": kind, "src": src, "dst": dst, "wrapdateline": wd}
                try:
                    with warnings.catch_warnings():
                        warnings.simplefilter("ignore")
                        out = gm.Geometry(shp, src).to_crs(dst, wrapdateline=wd)
                    ok, what = (out.geom.geom_type == shp.geom_type and out.geom.is_empty and str(out.crs) == dst,
                                f"-> {out.geom.wkt[:60]} tagged {out.crs}")
                except BaseException as e:  # pylint: disable=broad-except
                    ok, what = False, f"raised {e!r}"
                R.oracle(ok, "clip-lon180-raises-on-empty-multi" if kind.startswith("empty-multi") and wd else "to-crs-empty-geometry-changed", case,
                         f"to_crs({dst}, wrapdateline={wd}) of an empty {shp.geom_type} in {src} {what}", sig=f"empty|{kind}|wd={wd}")


# --------------------------------------------------------------------------- Geometry.filter
def _thresholds(vals, rng, n):
    vs = sorted(set(vals))
    cand = [vs[0] - 1, vs[-1] + 1] + vs + [(a + b) / 2 for a, b in zip(vs[:-1], vs[1:])]
    rng.shuffle(cand)
    return cand[:n]


def oracle_filter(R: Run, shp, pred, out, case, sig):
    """independent of the model: every surviving vertex satisfies the predicate and is a vertex of the input; geometry
    type kept; nothing that satisfies the predicate is lost from point sets and lines"""
    c7 = _c07()
    vin = {tuple(p) for p in all_vertices(shp)}
    vout = all_vertices(out)
    ok = all(pred(x, y) for x, y in vout) and all(tuple(p) in vin for p in vout) and out.geom_type == shp.geom_type
    if ok and shp.geom_type in ("MultiPoint", "LineString"):
        keep = [tuple(p) for p in all_vertices(shp) if pred(*p)]
        if not (shp.geom_type == "LineString" and len(keep) == 1):
            ok = [tuple(p) for p in vout] == keep
    R.oracle(ok, "filter-keeps-rejected-or-invents-vertex", case,
             f"Geometry.filter: {shp.wkt[:80]} -> {out.wkt[:80]}", sig=sig)
    if shp.geom_type == "Polygon" and out.geom_type == "Polygon" and not out.is_empty:
        # two-sided for the holes: a hole survives iff at least 3 of its vertices do (the closing vertex counted once), with
        # exactly its surviving vertices in order
        want = []
        for ring in shp.interiors:
            keep = [tuple(p) for p in ring.coords if pred(*p)]
            if len(keep) >= 3:
                want.append(keep)
        got = [[tuple(p) for p in ring.coords] for ring in out.interiors]
        okh = len(got) == len(want) and all(g[: len(w)] == w and all(q == w[0] for q in g[len(w):]) for g, w in zip(got, want))
        R.oracle(okh, "filter-loses-or-keeps-wrong-hole", case,
                 f"Geometry.filter: holes {[len(w) for w in want]} (surviving vertices) expected, got {[len(g) for g in got]}: "
                 f"{shp.wkt[:80]} -> {out.wkt[:80]}", sig=sig + "|holes")
    del c7


def run_filter(R: Run):
    from shapely import geometry as sg

    c7 = _c07()
    gm, _ = c7._mods()  # pylint: disable=protected-access
    rng = R.rng
    fixed = {
        "polygon+hole": sg.Polygon([(0, 0), (10, 0), (10, 10), (0, 10), (0, 0)], [[(1, 1), (2, 1), (2, 2), (1, 1)], [(4, 4), (8, 4), (8, 8), (4, 8), (4, 4)]]),
        "triangle": sg.Polygon([(0, 0), (6, 1), (3, 5)]),
        "ring": sg.LinearRing([(0, 0), (10, 0), (10, 10), (5, 12), (0, 0)]),
        "line2": sg.LineString([(0, 0), (3, 3)]), "line": sg.LineString([(0, 0), (5, 5), (9, 9), (2, 7)]),
        "point": sg.Point(3, 4), "multipoint": sg.MultiPoint([(0, 0), (7, 7), (3, 9)]),
        "multiline": sg.MultiLineString([[(0, 0), (5, 5), (9, 1)], [(6, 6), (7, 8)]]),
        "multipolygon": sg.MultiPolygon([sg.box(0, 0, 3, 3), sg.Polygon(sg.box(5, 5, 9, 9).exterior.coords, [sg.box(6, 6, 7, 7).exterior.coords[::-1]])]),
        "collection": sg.GeometryCollection([sg.Point(1, 1), sg.LineString([(0, 0), (5, 5), (9, 9)]), sg.MultiPoint([(0, 0), (7, 7)]),
                                             sg.GeometryCollection([sg.box(2, 2, 8, 8), sg.LinearRing([(0, 0), (9, 0), (9, 9)])])]),
    }
    todo = [(k, s, None) for k, s in fixed.items()]
    for _ in range(R.pick(2, 14)):
        kinds, _r = c7.shapes_for(rng, rng.choice(["axis", "pyth"]))
        todo += [(k, s, 6) for k, s in kinds.items()]
    for kind, shp, limit in todo:
        vs = all_vertices(shp)
        xs, ys = [p[0] for p in vs], [p[1] for p in vs]
        n = limit if limit is not None else 99
        preds = [("all", lambda x, y: True), ("none", lambda x, y: False)]
        for v in _thresholds(xs, rng, n):
            preds += [(f"xlt:{frac_s(v)}", lambda x, y, v=v: x < v), (f"xge:{frac_s(v)}", lambda x, y, v=v: x >= v)]
        for v in _thresholds(ys, rng, n):
            preds += [(f"ylt:{frac_s(v)}", lambda x, y, v=v: y < v), (f"yge:{frac_s(v)}", lambda x, y, v=v: y >= v)]
        sx = sorted(set(xs))
        for a, b in itertools.combinations(sx[:: max(1, len(sx) // 4)], 2):
            preds.append((f"band:{frac_s(a)}:{frac_s(b)}", lambda x, y, a=a, b=b: a <= x < b))
        for ptok, pred in preds:
            box: Dict[str, Any] = {}

            def f():
                try:
                    with warnings.catch_warnings():
                        warnings.simplefilter("ignore")
                        out = gm.Geometry(shp, "EPSG:3857").filter(pred)
                except BaseException as e:  # pylint: disable=broad-except
                    box["exc"] = e
                    return c7.err_s(e)
                box["out"] = out
                return enc_nf(out.geom)

            real = R.corr(f"c07 filter {ptok} {c7.enc_geom(shp)}", f,
                          sig=f"filter|{kind}|" + ptok.split(":")[0])
            R.count("filter-outcome:" + (real if real.startswith("ERR") else "EMPTYPOINT" if real == "EMPTYPOINT" else "ok"))
            if "out" in box:
                oracle_filter(R, shp, pred, box["out"].geom, {"fn": "filter", "wkt": shp.wkt, "pred": ptok}, f"filter|{kind}")
                R.oracle(str(box["out"].crs) == "EPSG:3857", "filter-drops-crs", {"fn": "filter", "wkt": shp.wkt, "pred": ptok},
                         "Geometry.filter changed the CRS", trivial=True)


# --------------------------------------------------------------------------- to_crs with every option, lonlat_bounds
def _fake_nf(R, crsmod, pool):
    return _c07().fake_transformers(R, crsmod, lambda a, b: FakeNF(pool._obj[id(a)], pool._obj[id(b)]))  # pylint: disable=protected-access


def _validity(gm, g, dst, res):
    """what shapely says of the projected geometry and of what dropna leaves of it (intermediate values of the real
    run; `is_valid` is a parameter of the model)"""
    with warnings.catch_warnings():
        warnings.simplefilter("ignore")
        dens = g if (res is None or not res > 0) else g.segmented(res)
        proj = dens.to_crs(dst)
        v0 = bool(proj.is_valid)
        nonfinite = any(not (math.isfinite(p[0]) and math.isfinite(p[1])) for p in all_vertices(proj.geom))
        try:
            v1 = bool(proj.dropna().is_valid)
        except Exception:  # pylint: disable=broad-except
            v1 = False
    return v0, v1, nonfinite


def _shift_onto_edge(shp, rng):
    """move the geometry so that the failure threshold of the stand-in projection (source x = +-1000) falls on, between
    or beside its vertices"""
    from shapely import affinity

    vs = all_vertices(shp)
    if not vs:
        return shp, "empty"
    xv = rng.choice(vs)[0]
    mode = rng.choice(["inside", "inside", "hi", "hi", "hi-all", "lo", "lo-all"])
    if mode == "inside":
        off = -xv
    elif mode == "hi":
        off = 1000 - xv
    elif mode == "hi-all":
        off = 1001 - min(p[0] for p in vs)
    elif mode == "lo":
        off = -1000 - xv
    else:
        off = -1001 - max(p[0] for p in vs)
    return affinity.translate(shp, xoff=off), mode


def run_to_crs_all(R: Run, pool, variant: str):
    c7 = _c07()
    gm, crsmod = c7._mods()  # pylint: disable=protected-access
    rng = R.rng
    ents = pool.entries[:6]
    eps_tok = frac_s(Fraction(180) - Fraction(180 - 1e-4))
    orig_buffer = gm.Geometry.buffer
    with _fake_nf(R, crsmod, pool):
        for rnd in range(R.pick(4, 12)):
            if rnd % 3 == 2:
                kinds, r0 = c7.multipart_for(rng, origin=(0.0, 0.0))
            else:
                kinds, r0 = c7.shapes_for(rng, "axis" if rnd % 2 == 0 else "pyth")
            from shapely import geometry as sg

            kinds = dict(kinds)
            ck, cr = collections_for(rng)
            if rnd % 3 == 2 or R.quick:
                names = list(ck)
                rng.shuffle(names)
                ck = {k: ck[k] for k in names[: R.pick(5, 16)]}
            kinds["bowtie"] = sg.Polygon([(0, 0), (8, 8), (8, 0), (0, 8), (0, 0)])       # invalid without any NaN
            kinds["empty-multipolygon"] = sg.MultiPolygon()
            rof = {k: r0 for k in kinds}
            rof.update({k: cr for k in ck})
            kinds.update(ck)
            for kind, shp0 in kinds.items():
                r0 = rof[kind]
                shp, where = _shift_onto_edge(shp0, rng)
                pairs = [(es, et) for es in ents for et in ents]
                rng.shuffle(pairs)
                for es, et in pairs[: R.pick(5, 14)]:
                    for res, wd, caf in itertools.product((None, r0), (False, True), (False, True)):
                        if R.quick and rng.random() < 0.35:
                            continue
                        if kind == "bowtie" and res is not None:
                            continue   # irrational diagonals
                        if c7.skip_empty_densify(R, gm, shp, res):
                            continue
                        g = gm.Geometry(shp, es[2])
                        geo = bool(et[2] is not None and et[2].geographic)
                        differ = es[2] is not None and et[2] is not None and not es[2] == et[2]
                        v0 = v1 = True
                        if differ:
                            try:
                                v0, v1, nonfinite = _validity(gm, g, et[2], res)
                            except c7.Timeout:
                                continue
                            except Exception:  # pylint: disable=broad-except
                                v0, v1, nonfinite = True, True, False
                            if not nonfinite and v0 != v1:
                                continue   # dropna of an all-finite geometry changed its validity: not expressible with two bits
                            if wd and geo:
                                try:
                                    with warnings.catch_warnings():
                                        warnings.simplefilter("ignore")
                                        l180 = gm.projected_lon(es[2], 180, step=0.1)
                                        dens = g if res is None else g.segmented(res)
                                        if dens.intersects(l180):
                                            continue  # would be chopped: `hit` / `split` are parameters of the model
                                except Exception:  # pylint: disable=broad-except
                                    continue
                        line = (f"c07 tocrsall {variant} {pool.rec(es[2])} {pool.rec(et[2])} {'T' if geo else 'F'} {'T' if wd else 'F'} "
                                f"{'T' if caf else 'F'} {eps_tok} {'N' if res is None else frac_s(res)} {'T' if v0 else 'F'} "
                                f"{'T' if v1 else 'F'} {c7.enc_geom(shp)}")
                        box: Dict[str, Any] = {}

                        def f():
                            seen = {"buf": False}

                            def rec_buffer(self, distance, resolution=30):
                                seen["buf"] = True
                                return self

                            gm.Geometry.buffer = rec_buffer
                            try:
                                with warnings.catch_warnings():
                                    warnings.simplefilter("ignore")
                                    with c7.time_limit():
                                        out = g.to_crs(et[2], resolution=res, wrapdateline=wd, check_and_fix=caf)
                            except BaseException as e:  # pylint: disable=broad-except
                                box["exc"] = e
                                return "buffer0=F " + c7.err_s(e)
                            finally:
                                gm.Geometry.buffer = orig_buffer
                            box["out"] = out
                            return f"buffer0={'T' if seen['buf'] else 'F'} " + pool.rec(out.crs) + " " + enc_nf(out.geom)

                        real = R.corr(line, f, sig=f"tocrsall|{'wd' if wd else '--'}|{'fix' if caf else '---'}|{'geo' if geo else 'proj'}|"
                                      f"{'differ' if differ else 'same-or-none'}|{where}|{kind.split(':')[0]}")
                        if differ:
                            R.count("tocrsall-outcome:" + ("raises" if "ERR" in real else "buffer0" if real.startswith("buffer0=T") else
                                                         "dropna" if (caf and not v0) else "plain"))
                        # the property on the real output (independent of the model): with check_and_fix nothing non-finite
                        # survives in a result that is reported valid, and a valid projection is not touched
                        if differ and "out" in box and caf:
                            out = box["out"]
                            vout = all_vertices(out.geom)
                            okf = v0 or all(math.isfinite(p[0]) and math.isfinite(p[1]) for p in vout)
                            if not v0 and out.geom.geom_type in ("Polygon", "MultiPolygon") and not (wd and geo):
                                # (with wrapdateline the clip to +-180 comes AFTER the fix and may flatten what the stand-in
                                # projection sends far outside +-180)
                                # with the real buffer(0) (not the recording stand-in): what check_and_fix promises for
                                # polygonal results — a valid geometry
                                try:
                                    with warnings.catch_warnings():
                                        warnings.simplefilter("ignore")
                                        fixed = g.to_crs(et[2], resolution=res, wrapdateline=wd, check_and_fix=True)
                                    okv, whatv = bool(fixed.is_valid), f"-> {fixed.geom.wkt[:80]}"
                                except BaseException as e:  # pylint: disable=broad-except
                                    okv, whatv = False, f"raised {e!r}"
                                R.oracle(okv, "to-crs-check-and-fix-result-invalid",
                                         {"fn": "to_crs-fix", "wkt": shp.wkt, "src": es[0], "dst": et[0], "resolution": res, "wrapdateline": wd},
                                         f"to_crs(check_and_fix=True) of a {out.geom.geom_type} whose projection is invalid {whatv}",
                                         sig=f"fix|valid|{out.geom.geom_type}")
                            R.oracle(okf, "to-crs-check-and-fix-leaves-nonfinite-vertex",
                                     {"fn": "to_crs-fix", "wkt": shp.wkt, "src": es[0], "dst": et[0], "resolution": res, "wrapdateline": wd},
                                     "to_crs(check_and_fix=True) returned an invalid geometry that still has NaN vertices",
                                     sig=f"fix|finite|{kind.split(':')[0]}")
    gm.Geometry.buffer = orig_buffer


LONS = [-359.0, -200.0, -179.5, -170.0, -90.0, -0.5, 0.0, 0.5, 10.0, 90.0, 170.0, 179.5, 180.0, 200.0, 359.0]


def run_lonlat(R: Run, pool):
    from shapely import geometry as sg

    c7 = _c07()
    gm, crsmod = c7._mods()  # pylint: disable=protected-access
    rng = R.rng
    ents = pool.entries[:6]
    c4326 = crsmod.CRS("EPSG:4326")
    t4326 = pool.rec(c4326)
    with _fake_nf(R, crsmod, pool):
        def one(g, es, mode, res, sig):
            geo = bool(es[2] is not None and es[2].geographic)
            v0 = v1 = True
            if es[2] is not None and not geo:
                try:
                    v0, v1, nonfinite = _validity(gm, g, c4326, res)
                except Exception:  # pylint: disable=broad-except
                    v0, v1, nonfinite = True, True, False
                if not nonfinite and v0 != v1:
                    return
            rtok = "N" if res is None else ("nf" if isinstance(res, float) and not math.isfinite(res) else frac_s(res))
            line = (f"c07 lonlat {pool.rec(es[2])} {t4326} {'T' if geo else 'F'} {'T' if mode == 'safe' else 'F'} {rtok} "
                    f"{'T' if v0 else 'F'} {'T' if v1 else 'F'} {c7.enc_geom(g.geom)}")
            box: Dict[str, Any] = {}

            def f():
                orig_buffer = gm.Geometry.buffer
                gm.Geometry.buffer = lambda self, distance, resolution=30: self   # shapely's buffer(0) is a parameter (id in the driver)
                try:
                    with warnings.catch_warnings():
                        warnings.simplefilter("ignore")
                        with c7.time_limit(risky=(res is not None and not res > 0)):
                            out = gm.lonlat_bounds(g, mode, resolution=res) if res is not None else gm.lonlat_bounds(g, mode)
                except BaseException as e:  # pylint: disable=broad-except
                    return c7.err_s(e)
                finally:
                    gm.Geometry.buffer = orig_buffer
                box["out"] = out
                if any(math.isnan(v) for v in out.bbox):
                    return pool.rec(out.crs) + " EMPTY"
                return pool.rec(out.crs) + " " + " ".join(frac_s(v) for v in out.bbox)

            R.corr(line, f, sig=sig)
            return box.get("out")

        # exhaustive at the boundaries of the wrap rule: every ordered pair of longitudes of the image x both modes
        src = ents[2]    # EPSG:3857 (not geographic)
        s_obj = pool._obj[id(src[2].proj)]  # pylint: disable=protected-access
        for ua, ub in itertools.product(LONS, LONS):
            for mode in ("safe", "quick"):
                xa, xb = (ua - s_obj) / 2, (ub - s_obj) / 2          # image longitude u = 2x + y + s with y = 0
                g = gm.Geometry(sg.LineString([(xa, 0.0), (xb, 0.0)]), src[2])
                span = abs(ua - ub)
                out = one(g, src, mode, None, f"lonlat|{mode}|" + ("span>180" if span > 180 else "span=180" if span == 180 else "span<180"))
                if out is not None:
                    # independent reading of the contract: sorted; quick = plain range; safe never widens the range and every
                    # end is an input longitude up to a full turn
                    lo, hi = min(ua, ub), max(ua, ub)
                    l, _b, r, _t = out.bbox
                    # "add back 360 but only for X<0 values": an end is an input longitude, or a NEGATIVE one plus 360
                    ok = l <= r and (mode == "safe" or (l, r) == (lo, hi)) and (r - l) <= (hi - lo) and all(
                        any(e == u or (u < 0 and e == u + 360) for u in (ua, ub)) for e in (l, r))
                    if mode == "safe" and hi - lo <= 180:
                        ok = ok and (l, r) == (lo, hi)
                    R.oracle(ok, "lonlat-bounds-wrap", {"fn": "lonlat", "lons": [ua, ub], "mode": mode},
                             f"lonlat_bounds({mode}) of a line with image longitudes {ua}, {ub} gave x range ({l}, {r})",
                             sig=f"lonlat|wrap|{mode}")
        # every kind / source CRS / resolution, vertices on and beyond the failure threshold of the stand-in projection
        for rnd in range(R.pick(3, 24)):
            kinds, r0 = c7.shapes_for(rng, "axis" if rnd % 2 == 0 else "pyth")
            kinds = dict(kinds)
            kinds["empty-multipolygon"] = sg.MultiPolygon()
            for kind, shp0 in kinds.items():
                shp, where = _shift_onto_edge(shp0, rng)
                for es in ents:
                    for mode in ("safe", "quick"):
                        for res in (None, r0, 0.0, float("inf")):
                            if R.quick and rng.random() < 0.5:
                                continue
                            if shp.is_empty and res == r0:
                                continue
                            if c7.skip_empty_densify(R, gm, shp, res):
                                continue
                            one(gm.Geometry(shp, es[2]), es, mode, res,
                                f"lonlat|{mode}|{'none' if es[2] is None else 'geo' if es[2].geographic else 'proj'}|{where}|"
                                f"{'r' if res == r0 else res}|{kind}")
        # mid_longitude: the centroid (shapely; passed as an intermediate value) through to_crs
        for _ in range(R.pick(20, 200)):
            x, y = rng.randint(-400, 400) / 4, rng.randint(-200, 200) / 4
            shp = rng.choice([sg.Point(x, y), sg.box(x - 2, y - 1, x + 2, y + 1), sg.MultiPoint([(x - 1, y), (x + 1, y)])])
            for es in ents:
                g = gm.Geometry(shp, es[2])
                cx, cy = shp.centroid.coords[0]
                if Fraction(cx).denominator > 2 ** 20 or Fraction(cy).denominator > 2 ** 20:
                    continue

                def fm():
                    with warnings.catch_warnings():
                        warnings.simplefilter("ignore")
                        return frac_s(gm.mid_longitude(g))

                R.corr(f"c07 midlon {pool.rec(es[2])} {t4326} {frac_s(cx)} {frac_s(cy)}", fm,
                       sig="midlon|" + ("none" if es[2] is None else "same" if es[2] == c4326 else "other"))


# --------------------------------------------------------------------------- Geometry.geojson; collections through real pyproj
def enc_gj(d) -> str:
    """GeoJSON dict of `Geometry.geojson` -> driver tokens (`F <geom>` / `FC n …`)"""
    from shapely import geometry as sg

    if d["type"] == "FeatureCollection":
        return " ".join([f"FC {len(d['features'])}"] + [enc_gj(f) for f in d["features"]])
    return "F " + enc_nf(sg.shape(d["geometry"]))


def gj_leaves(d) -> List[Any]:
    if d["type"] == "FeatureCollection":
        return [x for f in d["features"] for x in gj_leaves(f)]
    return [d]


def geom_leaves(shp) -> List[Any]:
    """what `geojson` renders one Feature for: everything that is not a GeometryCollection"""
    if shp.geom_type == "GeometryCollection":
        return [x for g in shp.geoms for x in geom_leaves(g)]
    return [shp]


def call_geojson(g, res, wd, form: int):
    if form == 0:
        return g.geojson(resolution=res, simplify=0, wrapdateline=wd)
    if form == 1:
        return g.geojson(None, 0, res, wd)                      # all positional
    if form == 2:
        return g.geojson(None, 0, resolution=res, wrapdateline=wd)
    return g.geojson(simplify=0, resolution=res, wrapdateline=wd, name="x")   # extra **props


def run_geojson(R: Run, pool, variant: str):
    c7 = _c07()
    gm, crsmod = c7._mods()  # pylint: disable=protected-access
    rng = R.rng
    ents = pool.entries[:6]
    c4326 = crsmod.CRS("EPSG:4326")
    t4326 = pool.rec(c4326)
    eps_tok = frac_s(Fraction(180) - Fraction(180 - 1e-4))
    with c7.fake_transformers(R, crsmod, lambda a, b: c7.Fake(pool._obj[id(a)], pool._obj[id(b)])):  # pylint: disable=protected-access
        for rnd in range(R.pick(2, 12)):
            kinds, r0 = c7.shapes_for(rng, "axis" if rnd % 2 == 0 else "pyth")
            ck, cr = collections_for(rng)
            mk, mr = c7.multipart_for(rng)
            todo = [(k, s, r0) for k, s in kinds.items()] + [(k, s, cr) for k, s in ck.items()] + [
                (k, s, mr) for k, s in mk.items() if k.startswith("collection")]
            for kind, shp, rr in todo:
                for es in ents:
                    if R.quick and not kind.startswith(("gc:", "collection")) and rng.random() < 0.75:
                        continue
                    for res, wd in itertools.product((None, rr), (False, True)):
                        if c7.skip_empty_densify(R, gm, shp, res):
                            continue
                        g = gm.Geometry(shp, es[2])
                        if wd and es[2] is not None and not es[2] == c4326:
                            try:
                                with warnings.catch_warnings():
                                    warnings.simplefilter("ignore")
                                    l180 = gm.projected_lon(es[2], 180, step=0.1)
                                    dens = g if res is None else g.segmented(res)
                                    if dens.intersects(l180):
                                        continue
                            except Exception:  # pylint: disable=broad-except
                                continue
                        form = rng.randint(0, 3)
                        box: Dict[str, Any] = {}

                        def f():
                            try:
                                with warnings.catch_warnings():
                                    warnings.simplefilter("ignore")
                                    with c7.time_limit():
                                        out = call_geojson(g, res, wd, form)
                            except BaseException as e:  # pylint: disable=broad-except
                                return c7.err_s(e)
                            box["out"] = out
                            return enc_gj(out)

                        R.corr(f"c07 geojson {variant} {pool.rec(es[2])} {t4326} {'T' if wd else 'F'} {eps_tok} {'N' if res is None else frac_s(res)} "
                               f"{c7.enc_geom(shp)}", f,
                               sig=f"geojson|{'wd' if wd else '--'}|{'res' if res is not None else 'nores'}|"
                               f"{'none' if es[2] is None else 'same' if es[2] == c4326 else 'other'}|form{form}|{kind}")
                        if "out" in box and es[2] is not None and not es[2] == c4326 and res is not None:
                            # the property on the real output: every rendered member is densified as requested — its vertex
                            # count is that of `member.segmented(res)` (whose edges the gap oracle judges)
                            leaves, feats = geom_leaves(shp), gj_leaves(box["out"])
                            ok = len(leaves) == len(feats)
                            what = f"{len(leaves)} members rendered as {len(feats)} features"
                            if ok:
                                for lf, ft in zip(leaves, feats):
                                    from shapely import geometry as sg

                                    want = gm.Geometry(lf, es[2]).segmented(res).geom
                                    got = sg.shape(ft["geometry"])
                                    nw, ng = [len(c) for c in c7.rings_of(want)], [len(c) for c in c7.rings_of(got)] if not got.is_empty else []
                                    if nw != ng and not want.is_empty:
                                        ok, what = False, (f"member {lf.geom_type} has rings of {ng} vertices, densified at "
                                                           f"{res} it has {nw}")
                                        break
                            R.oracle(ok, "geojson-member-not-densified", {"fn": "geojson", "wkt": shp.wkt, "src": es[0], "resolution": res,
                                                                          "wrapdateline": wd, "form": form},
                                     f"geojson(resolution={res}) of a {kind}: {what}", sig=f"geojson|densified|{kind.split(':')[0]}")


def run_collections_pyproj(R: Run):
    """GeometryCollections of every make-up (and the other kinds) through every to_crs option combination and through
    geojson, real pyproj: type / part structure kept, every vertex == fresh pyproj of the (densified) source vertex"""
    import pyproj
    from shapely import geometry as sg

    c7 = _c07()
    gm, crsmod = c7._mods()  # pylint: disable=protected-access
    rng = R.rng
    setups = (("3857", (1.5e6, 6.0e6), 1024.0), ("32633", (4.0e5, 5.2e6), 256.0), ("3577", (1.0e5, -3.0e6), 512.0))
    for (a, origin, unit) in setups:
        for b in ("4326", "3857" if a != "3857" else "6933"):
            ra, rb = pyproj.CRS.from_epsg(int(a)), pyproj.CRS.from_epsg(int(b))
            fresh = c7._fresh_tr(ra, rb, True)  # pylint: disable=protected-access
            src, dst = crsmod.CRS(f"EPSG:{a}"), crsmod.CRS(f"EPSG:{b}")
            kinds, r = collections_for(rng, origin=origin, unit=unit * 2.0 ** rng.randint(-1, 1))
            names = list(kinds)
            if R.quick:
                rng.shuffle(names)
                names = names[:8]
            for kind in names:
                shp = kinds[kind]
                g = gm.Geometry(shp, src)
                for res, wd, caf in itertools.product((None, r), (False, True), (False, True)):
                    if caf and R.quick and rng.random() < 0.5:
                        continue
                    if c7.skip_empty_densify(R, gm, shp, res):
                        continue   # as-found tree: densify([]) is an IndexError (reported under its own key)
                    case = {"fn": "to_crs", "kind": kind, "wkt": shp.wkt, "src": a, "dst": b, "resolution": res,
                            "opts": {"wrapdateline": wd, "check_and_fix": caf}}
                    opts = {"wrapdateline": wd, "check_and_fix": caf}
                    if res is not None:
                        opts["resolution"] = res
                    c7.judge_to_crs(R, gm, g, dst, rb, fresh, False, opts, case,
                                    f"collections|{a}->{b}|{kind}|{'wd' if wd else '--'}|{'fix' if caf else '---'}|{'res' if res else 'nores'}")
                # geojson: member by member == member.to_crs(4326, resolution, wrapdateline) vertex by vertex (fresh pyproj)
                if b != "4326":
                    continue
                for res, wd in itertools.product((None, r), (False, True)):
                    if c7.skip_empty_densify(R, gm, shp, res):
                        continue
                    case = {"fn": "geojson-pyproj", "kind": kind, "wkt": shp.wkt, "src": a, "resolution": res, "wrapdateline": wd}
                    try:
                        with warnings.catch_warnings():
                            warnings.simplefilter("ignore")
                            out = g.geojson(resolution=res, simplify=0, wrapdateline=wd)
                    except BaseException as e:  # pylint: disable=broad-except
                        R.oracle(False, "geojson-raises", case, repr(e))
                        continue
                    leaves, feats = geom_leaves(shp), gj_leaves(out)
                    ok, what = len(leaves) == len(feats), f"{len(leaves)} members rendered as {len(feats)} features"
                    if ok:
                        for lf, ft in zip(leaves, feats):
                            base = gm.Geometry(lf, src)
                            if res is not None:
                                base = base.segmented(res)
                            got = sg.shape(ft["geometry"])
                            rin, rout = c7.rings_of(base.geom) if not base.geom.is_empty else [], c7.rings_of(got) if not got.is_empty else []
                            if got.geom_type != lf.geom_type or [len(c) for c in rin] != [len(c) for c in rout]:
                                ok, what = False, (f"member {lf.geom_type}: rings of {[len(c) for c in rout]} vertices rendered, "
                                                   f"{[len(c) for c in rin]} after densifying at {res}")
                                break
                            for ci, co in zip(rin, rout):
                                for (x, y), (u, v) in zip(ci, co):
                                    if (u, v) != tuple(fresh.transform(x, y)):
                                        ok, what = False, f"({x},{y}) rendered as ({u},{v}), pyproj gives {fresh.transform(x, y)}"
                                        break
                    R.oracle(ok, "geojson-member-differs-from-to-crs", case,
                             f"geojson(resolution={res}, wrapdateline={wd}) of {kind} in EPSG:{a}: {what}",
                             sig=f"geojson-pyproj|{kind}|{'wd' if wd else '--'}|{'res' if res else 'nores'}")


def run_lonlat_pyproj(R: Run):
    """mid_longitude against a fresh pyproj Transformer, and geojson(wrapdateline=True) of a collection with a member that
    ends within 5e-5 degrees of the antimeridian against the member's own to_crs(wrapdateline=True)"""
    import pyproj
    from shapely import geometry as sg

    c7 = _c07()
    gm, crsmod = c7._mods()  # pylint: disable=protected-access
    rng = R.rng
    for a in ("3857", "3577", "32633"):
        ra, r4 = pyproj.CRS.from_epsg(int(a)), pyproj.CRS.from_epsg(4326)
        fresh = c7._fresh_tr(ra, r4, True)  # pylint: disable=protected-access
        inv = c7._fresh_tr(r4, ra, True)  # pylint: disable=protected-access
        src = crsmod.CRS(f"EPSG:{a}")
        lon0, lat0 = {"3857": (20.0, 30.0), "3577": (135.0, -25.0), "32633": (15.0, 50.0)}[a]
        for _ in range(R.pick(4, 40)):
            x, y = inv.transform(lon0 + rng.uniform(-2, 2), lat0 + rng.uniform(-2, 2))
            w, h = rng.uniform(1e3, 2e5), rng.uniform(1e3, 2e5)
            for shp in (sg.box(x, y, x + w, y + h), sg.Point(x, y), sg.LineString([(x, y), (x + w, y + h)]),
                        sg.MultiPoint([(x, y), (x + w, y)])):
                case = {"fn": "mid_longitude", "wkt": shp.wkt, "src": a}
                try:
                    with warnings.catch_warnings():
                        warnings.simplefilter("ignore")
                        got = gm.mid_longitude(gm.Geometry(shp, src))
                    want = fresh.transform(*shp.centroid.coords[0])[0]
                    ok, what = got == want, f"is {got!r}, the centroid converted by pyproj has longitude {want!r}"
                except BaseException as e:  # pylint: disable=broad-except
                    ok, what = False, f"raised {e!r}"
                R.oracle(ok, "mid-longitude-differs-from-pyproj", case, f"mid_longitude of {shp.wkt[:60]} in EPSG:{a} {what}",
                         sig=f"midlon-pyproj|{a}|{shp.geom_type}")
    # geojson(wrapdateline=True) of a collection: every member as its own to_crs(wrapdateline=True)
    ra, r4 = pyproj.CRS.from_epsg(3857), pyproj.CRS.from_epsg(4326)
    inv = c7._fresh_tr(r4, ra, True)  # pylint: disable=protected-access
    src = crsmod.CRS("EPSG:3857")
    for d in (5e-5, 2e-5, 1e-6):
        for sign in (1, -1):
            near = inv.transform(sign * (180.0 - d), 10.0)
            far = inv.transform(sign * 170.0, 12.0)
            mid = inv.transform(sign * 175.0, 8.0)
            members = [sg.LineString([far, mid, near]), sg.Polygon([far, mid, near, far]), sg.Point(near)]
            for shp in (sg.GeometryCollection(members), sg.GeometryCollection([members[0]]), sg.GeometryCollection([sg.GeometryCollection(members[:2])])):
                case = {"fn": "geojson-wrap", "wkt": shp.wkt, "delta": d}
                try:
                    with warnings.catch_warnings():
                        warnings.simplefilter("ignore")
                        out = gm.Geometry(shp, src).geojson(simplify=0, wrapdateline=True)
                        feats, leaves = gj_leaves(out), geom_leaves(shp)
                        ok, what = len(feats) == len(leaves), f"{len(leaves)} members, {len(feats)} features"
                        for lf, ft in zip(leaves, feats):
                            want = gm.Geometry(lf, src).to_crs("EPSG:4326", wrapdateline=True).geom
                            got = sg.shape(ft["geometry"])
                            if got.wkb != want.wkb:
                                ok, what = False, f"member {lf.geom_type} rendered as {got.wkt[:70]}, its to_crs(wrapdateline=True) is {want.wkt[:70]}"
                except BaseException as e:  # pylint: disable=broad-except
                    ok, what = False, f"raised {e!r}"
                R.oracle(ok, "geojson-member-differs-from-to-crs", case,
                         f"geojson(wrapdateline=True) of a collection ending {d} degrees from the antimeridian: {what}",
                         sig="geojson-wrap|" + ("near" if d > 1e-5 else "at"))


def run_empty_densify(R: Run):
    """a densification resolution on a geometry that is empty or has an empty member (the result of an intersection):
    the property asks for the same (empty) geometry back; the code as found indexes `coords[0]` of the empty list"""
    from shapely import geometry as sg

    c7 = _c07()
    gm, _ = c7._mods()  # pylint: disable=protected-access
    shapes = {"empty-line": sg.LineString(), "empty-polygon": sg.Polygon(), "empty-ring": sg.LinearRing(),
              "collection-with-empty-polygon": sg.GeometryCollection([sg.box(0, 0, 4, 4), sg.Polygon()]),
              "empty-multipolygon": sg.MultiPolygon(), "empty-collection": sg.GeometryCollection(), "empty-multipoint": sg.MultiPoint()}
    for kind, shp in shapes.items():
        for how in ("segmented", "to_crs", "geojson"):
            case = {"fn": "empty-densify", "kind": kind, "wkt": shp.wkt, "how": how}
            g = gm.Geometry(shp, "EPSG:3857")
            try:
                with warnings.catch_warnings():
                    warnings.simplefilter("ignore")
                    if how == "segmented":
                        out = g.segmented(1.0).geom
                    elif how == "to_crs":
                        out = g.to_crs("EPSG:4326", resolution=1.0).geom
                    else:
                        g.geojson(resolution=1.0, simplify=0)
                        out = shp
                ok, what = c7.skel_of(out) == c7.skel_of(shp), f"-> {out.wkt[:60]}"
            except BaseException as e:  # pylint: disable=broad-except
                ok, what = False, f"raised {e!r}"
            needs_densify = kind in ("empty-line", "empty-polygon", "empty-ring", "collection-with-empty-polygon")
            R.oracle(ok, "densify-raises-on-empty-geometry" if needs_densify else "to-crs-empty-geometry-changed", case,
                     f"{how}(resolution=1.0) of {shp.wkt[:70]} {what}", sig=f"empty-densify|{kind}|{how}")


# --------------------------------------------------------------------------- projected_lon, chop_along_antimeridian, _geojson_to_shapely
class FakeSwap:
    """stand-in projection that is exact on EVERY double (Drv.fakeProjSwap): (x, y) -> (-2y, x/2)"""

    def __init__(self, s: int, t: int):
        self.s, self.t = s, t

    def transform(self, x, y, **kw):
        import numpy as np

        if isinstance(x, np.ndarray):
            return -2 * y, x / 2
        if isinstance(x, (tuple, list)):
            return tuple(-2 * b for b in y), tuple(a / 2 for a in x)
        return -2 * y, x / 2


class FakeLat:
    """stand-in projection that fails by latitude (Drv.fakeProjLat): both coordinates for y > 60, x only for y < -70"""

    def __init__(self, s: int, t: int):
        self.s, self.t = s, t

    def transform(self, x, y, **kw):
        import numpy as np

        x, y = np.asarray(x), np.asarray(y)
        u = 2 * x + y + self.s
        v = y - x / 2 + 4 * self.t
        u = np.where((y > 60) | (y < -70), np.inf, u)
        v = np.where(y > 60, np.inf, v)
        return u, v


def run_projected_lon(R: Run, pool):
    c7 = _c07()
    gm, crsmod = c7._mods()  # pylint: disable=protected-access
    t4326 = pool.rec(crsmod.CRS("EPSG:4326"))
    ents = pool.entries[:4]
    with c7.fake_transformers(R, crsmod, lambda a, b: FakeLat(pool._obj[id(a)], pool._obj[id(b)])):  # pylint: disable=protected-access
        for e in ents:
            for lon in (180.0, -180.0, 0.0, 10.5):
                for lat0 in (-90.0, -72.0, -64.0, 0.0, 56.0, 62.0):
                    for step in (1.0, 0.5, 8.0, 16.0):
                        for lat1 in (90.0, 64.0, 60.0, -66.0, lat0, lat0 + step, lat0 + 2 * step):
                            if R.quick and R.rng.random() < 0.7:
                                continue

                            def f():
                                try:
                                    with warnings.catch_warnings():
                                        warnings.simplefilter("ignore")
                                        out = gm.projected_lon(e[2], lon, (lat0, lat1), step)
                                except BaseException as ex:  # pylint: disable=broad-except
                                    return c7.err_s(ex)
                                return "L " + pts_nf(out.geom.coords)

                            out = R.corr(f"c07 projlon {t4326} {pool.rec(e[2])} {frac_s(lon)} {frac_s(lat0)} {frac_s(lat1)} {frac_s(step)}", f,
                                         sig=f"projlon|{'none' if e[2] is None else 'crs'}|" + ("range-empty" if lat1 <= lat0 else "span>=2" if lat1 - lat0 > step else "one-sample"))
                            R.count("projlon-outcome:" + ("error" if out.startswith("ERR") else "empty" if out == "L []" else "line"))
                            if e[2] is not None and not out.startswith("ERR"):
                                # independent of the model: the images of the sampled latitudes that project cleanly, in order;
                                # a line needs two of them
                                import numpy as np

                                s_, t_ = pool._obj[id(crsmod.CRS("EPSG:4326").proj)], pool._obj[id(e[2].proj)]  # pylint: disable=protected-access
                                want = [(Fraction(2 * lon) + Fraction(float(y)) + s_, Fraction(float(y)) - Fraction(lon) / 2 + 4 * t_)
                                        for y in np.arange(lat0, lat1, step, dtype="float32") if -70 <= float(y) <= 60]
                                if len(want) < 2:
                                    want = []
                                R.oracle(out == "L " + c7.pts_s(want), "projected-lon-wrong-vertices",
                                         {"fn": "projected_lon", "lon": lon, "lat": [lat0, lat1], "step": step},
                                         f"projected_lon(lon={lon}, lat=({lat0}, {lat1}), step={step}) with a transformer failing outside "
                                         f"[-70, 60]: {out[:120]}; {len(want)} samples project cleanly", sig="projlon|vertices")


def run_chop(R: Run, pool, variant: str):
    """geometries that ARE chopped: chop_along_antimeridian and to_crs(wrapdateline=True) with the result of shapely's
    intersects / split captured on the real run (public Geometry.intersects / Geometry.split) and handed to the model"""
    from shapely import geometry as sg

    c7 = _c07()
    gm, crsmod = c7._mods()  # pylint: disable=protected-access
    rng = R.rng
    ents = pool.entries[:6]
    eps_tok = frac_s(Fraction(180) - Fraction(180 - 1e-4))
    # under FakeSwap the meridian lon=180 of EPSG:4326 becomes the horizontal line y = 90, x in (-180, 180]

    def shapes():
        x0 = rng.randint(-60, 40) * 1.0
        w = rng.choice([4.0, 10.0, 25.5])
        return {
            "line-crossing": sg.LineString([(x0, 80.0), (x0 + w, 96.0), (x0 + 2 * w, 85.0)]),
            "line-below": sg.LineString([(x0, 10.0), (x0 + w, 60.0)]),
            "line-touching": sg.LineString([(x0, 70.0), (x0 + w, 90.0)]),
            "polygon-crossing": sg.box(x0, 82.0, x0 + w, 101.0),
            "polygon+hole-crossing": sg.Polygon(sg.box(x0, 70.0, x0 + 3 * w, 110.0).exterior.coords, [sg.box(x0 + w, 85.0, x0 + 2 * w, 95.0).exterior.coords[::-1]]),
            "polygon-above": sg.box(x0, 95.0, x0 + w, 120.0),
            "multipolygon-one-crossing": sg.MultiPolygon([sg.box(x0, 80.0, x0 + w, 100.0), sg.box(x0 + 2 * w, 10.0, x0 + 3 * w, 20.0)]),
            "multiline-crossing": sg.MultiLineString([[(x0, 80.0), (x0, 99.0)], [(x0 + w, 50.0), (x0 + w, 60.0)]]),
            "collection-crossing": sg.GeometryCollection([sg.box(x0, 85.0, x0 + w, 93.0), sg.Point(x0, 5.0)]),
            "point-on-line": sg.Point(x0, 90.0),
            "empty-multipolygon": sg.MultiPolygon(),
        }

    def captured(call):
        rec: Dict[str, Any] = {}
        orig_i, orig_s = gm.Geometry.intersects, gm.Geometry.split

        def spy_i(self, other):
            r = orig_i(self, other)
            rec.setdefault("hit", bool(r))
            return r

        def spy_s(self, other):
            parts = list(orig_s(self, other))
            rec.setdefault("pieces", [p.geom for p in parts])
            return iter(parts)

        gm.Geometry.intersects, gm.Geometry.split = spy_i, spy_s
        try:
            with warnings.catch_warnings():
                warnings.simplefilter("ignore")
                with c7.time_limit(5):
                    out = call()
        except BaseException as ex:  # pylint: disable=broad-except
            return c7.err_s(ex), rec, None
        finally:
            gm.Geometry.intersects, gm.Geometry.split = orig_i, orig_s
        return None, rec, out

    def chop_tokens(rec):
        hit = rec.get("hit", False)
        pieces = rec.get("pieces", []) if hit else []
        if hit and "pieces" not in rec:
            return None
        return f"{'T' if hit else 'F'} {len(pieces)}" + "".join(" " + c7.enc_geom(p) for p in pieces)

    with c7.fake_transformers(R, crsmod, lambda a, b: FakeSwap(pool._obj[id(a)], pool._obj[id(b)])):  # pylint: disable=protected-access
        for _ in range(R.pick(2, 12)):
            for kind, shp in shapes().items():
                for es in ents:
                    g = gm.Geometry(shp, es[2])
                    for precision in ((0.5,) if R.quick else (0.5, 0.1, 2.0)):
                        err, rec, out = captured(lambda: gm.chop_along_antimeridian(g, precision))
                        toks = chop_tokens(rec)
                        if toks is None:
                            if err is not None:
                                R.count("chop:shapely-split-raised")      # shapely refuses to split this kind: a parameter of the model
                            else:
                                note = "chop stream: the pieces of the split were not seen at Geometry.split; cases skipped"
                                if note not in R.notes:
                                    R.notes.append(note)
                            continue
                        real = err if err is not None else c7.enc_geom(out.geom)
                        R.corr(f"c07 chop {pool.rec(es[2])} {toks} {c7.enc_geom(shp)}", lambda o=real: o,
                               sig=f"chop|{'none' if es[2] is None else 'hit' if rec.get('hit') else 'miss'}|{kind}")
                        if out is not None:
                            # independent of the model: chopping neither loses nor invents area / length, keeps the CRS, and
                            # hands a geometry that does not meet the line back as it is
                            tol = 1e-9 * max(1.0, shp.area, shp.length)
                            ok = abs(out.geom.area - shp.area) <= tol and abs(out.geom.length - shp.length) <= tol + (
                                4 * 360.0 if shp.area > 0 else 0.0) and out.crs == g.crs and (rec.get("hit") or out is g)
                            if rec.get("hit") and shp.geom_type in ("Polygon", "LineString"):
                                ok = ok and out.geom.geom_type == "Multi" + shp.geom_type     # "multi-geometry that has been split"
                            R.oracle(ok, "chop-changes-geometry", {"fn": "chop", "wkt": shp.wkt, "precision": precision},
                                     f"chop_along_antimeridian({shp.wkt[:60]}) -> {out.geom.wkt[:80]}", sig=f"chop|measure|{kind}")
                    for et in ents:
                        for wd in (False, True):
                            if R.quick and rng.random() < 0.5:
                                continue
                            geo = bool(et[2] is not None and et[2].geographic)
                            err, rec, out = captured(lambda: g.to_crs(et[2], wrapdateline=wd))
                            toks = chop_tokens(rec)
                            if toks is None:
                                continue
                            real = err if err is not None else pool.rec(out.crs) + " " + enc_nf(out.geom)
                            R.corr(f"c07 tocrschop {variant} {pool.rec(es[2])} {pool.rec(et[2])} {'T' if geo else 'F'} {'T' if wd else 'F'} {eps_tok} "
                                   f"{toks} {c7.enc_geom(shp)}", lambda o=real: o,
                                   sig=f"tocrschop|{'wd' if wd else '--'}|{'geo' if geo else 'proj'}|{'chopped' if rec.get('hit') else 'whole'}|{kind}")


def run_geojson_shape(R: Run):
    """Geometry(dict): which geometry a Feature / FeatureCollection / plain GeoJSON geometry becomes"""
    from shapely import geometry as sg

    c7 = _c07()
    gm, _ = c7._mods()  # pylint: disable=protected-access
    atoms = {"pt": sg.Point(1, 2), "pt2": sg.Point(-3, 0.5), "line": sg.LineString([(0, 0), (1, 1)]), "poly": sg.box(0, 0, 2, 2),
             "polyh": sg.Polygon(sg.box(0, 0, 8, 8).exterior.coords, [sg.box(1, 1, 2, 2).exterior.coords]), "mpt": sg.MultiPoint([(0, 0), (1, 1)]),
             "mpoly": sg.MultiPolygon([sg.box(0, 0, 1, 1)]), "poly0": sg.Polygon(), "line0": sg.LineString()}

    def feat(k):
        return {"type": "Feature", "geometry": sg.mapping(atoms[k]), "properties": {"name": k}}

    cases: List[Any] = [("X", {"coordinates": [1, 2]}, "no-type"), ("X", {}, "no-type")]
    for k, shp in atoms.items():
        cases.append(("G " + c7.enc_geom(shp), sg.mapping(shp), "geometry"))
        cases.append(("F " + c7.enc_geom(shp), feat(k), "feature"))
        cases.append(("F " + c7.enc_geom(shp), {**feat(k), "type": "FEATURE"}, "feature"))
    names = list(atoms)
    tok_members: Dict[str, List[str]] = {}
    combos: List[Any] = [()]
    for n in (1, 2, 3):
        for combo in itertools.product(names, repeat=n):
            if n == 3 and R.rng.random() > R.pick(0.1, 1.0):
                continue
            combos.append(combo)
    for combo in combos:
        tok = " ".join([f"FC {len(combo)}"] + [c7.enc_geom(atoms[k]) for k in combo])
        tok_members[tok] = list(combo)
        cases.append((tok, {"type": R.rng.choice(["FeatureCollection", "featurecollection"]), "features": [feat(k) for k in combo]},
                      f"fc|n={len(combo)}"))
    for tok, d, sig in cases:
        def f():
            try:
                with warnings.catch_warnings():
                    warnings.simplefilter("ignore")
                    return c7.enc_geom(gm.Geometry(d).geom)
            except BaseException as ex:  # pylint: disable=broad-except
                return c7.err_s(ex)

        real = R.corr("c07 gjshape " + tok, f, sig="gjshape|" + sig)
        if sig.startswith("fc|") and not real.startswith("ERR"):
            members = [atoms[k] for k in tok_members.get(tok, [])]
            kinds_ = {m.geom_type for m in members}
            got = gm.Geometry(d).geom
            if len(members) == 1:
                okg = got.wkb == members[0].wkb
            elif len(kinds_) == 1 and next(iter(kinds_)) in ("Polygon", "Point", "LineString"):
                okg = got.geom_type == "Multi" + next(iter(kinds_)) and [x.wkb for x in got.geoms] == [m.wkb for m in members if not m.is_empty]
            else:
                okg = got.geom_type == "GeometryCollection" and len(got.geoms) == len(members)
            R.oracle(okg, "feature-collection-wrong-shape", {"fn": "gjshape", "members": [m.wkt for m in members]},
                     f"Geometry(FeatureCollection of {[m.geom_type for m in members]}) is {got.wkt[:100]}", sig="gjshape|members")


def run_options(R: Run):
    import time

    from .c01 import Pool

    c7 = _c07()
    gm, _ = c7._mods()  # pylint: disable=protected-access
    variant = clip_variant(gm)
    R.extra["clip_lon180_variant"] = {"R": "repaired (ee68993)", "F": "as found (KeyError on an empty Multi*)"}[variant]
    pool = Pool(False)
    timing = {}
    for name, fn in (("construct", lambda: run_construct(R)), ("multigeom", lambda: run_multigeom(R)), ("clip2", lambda: run_clip2(R, variant)),
                     ("filter", lambda: run_filter(R)), ("to_crs_all", lambda: run_to_crs_all(R, pool, variant)),
                     ("lonlat", lambda: run_lonlat(R, pool)), ("geojson", lambda: run_geojson(R, pool, variant)),
                     ("projected_lon", lambda: run_projected_lon(R, pool)), ("chop", lambda: run_chop(R, pool, variant)),
                     ("geojson_shape", lambda: run_geojson_shape(R)),
                     ("collections_pyproj", lambda: run_collections_pyproj(R)), ("lonlat_pyproj", lambda: run_lonlat_pyproj(R)),
                     ("empty_densify", lambda: run_empty_densify(R))):
        t0 = time.time()
        fn()
        timing[name] = round(time.time() - t0, 2)
    R.extra["options_section_seconds"] = timing


def replay_options(R: Run, rec) -> int:
    """replay of the records written by this file; returns 1 if the case still fails on the real code, else 0, and
    -1 if the record is not one of ours"""
    from shapely import wkt

    c7 = _c07()
    gm, _ = c7._mods()  # pylint: disable=protected-access
    case = rec.get("case") or {}
    fn = case.get("fn")
    if fn == "clip_lon180":
        try:
            out = gm.clip_lon180(gm.Geometry(wkt.loads(case["wkt"]), "EPSG:4326"), case.get("tol", 1e-6))
            print("clip_lon180 ->", out)
            return 0 if c7.skel_of(out.geom) == c7.skel_of(wkt.loads(case["wkt"])) else 1
        except Exception as e:  # pylint: disable=broad-except
            print("clip_lon180 raised", repr(e))
            return 1
    if fn == "to_crs-empty":
        shp = wkt.loads(case["wkt"])
        try:
            out = gm.Geometry(shp, case["src"]).to_crs(case["dst"], wrapdateline=case["wrapdateline"])
            print("to_crs ->", out)
            return 0 if (out.geom.geom_type == shp.geom_type and out.geom.is_empty) else 1
        except Exception as e:  # pylint: disable=broad-except
            print(f"to_crs({case['dst']}, wrapdateline={case['wrapdateline']}) of {shp.wkt} raised", repr(e))
            return 1
    if fn == "empty-densify":
        shp = wkt.loads(case["wkt"])
        g = gm.Geometry(shp, "EPSG:3857")
        try:
            out = {"segmented": lambda: g.segmented(1.0), "to_crs": lambda: g.to_crs("EPSG:4326", resolution=1.0),
                   "geojson": lambda: g.geojson(resolution=1.0, simplify=0)}[case["how"]]()
            print(case["how"], "->", out)
            return 0
        except Exception as e:  # pylint: disable=broad-except
            print(f"{case['how']}(resolution=1.0) of {shp.wkt} raised", repr(e))
            return 1
    if fn == "geojson-pyproj":
        import pyproj
        from shapely import geometry as sg

        shp = wkt.loads(case["wkt"])
        src = f"EPSG:{case['src']}"
        g = gm.Geometry(shp, src)
        out = g.geojson(resolution=case["resolution"], simplify=0, wrapdateline=case["wrapdateline"])
        bad = 0
        for lf, ft in zip(geom_leaves(shp), gj_leaves(out)):
            base = gm.Geometry(lf, src)
            if case["resolution"] is not None:
                base = base.segmented(case["resolution"])
            got = sg.shape(ft["geometry"])
            nw = [len(c) for c in c7.rings_of(base.geom)] if not base.geom.is_empty else []
            ng = [len(c) for c in c7.rings_of(got)] if not got.is_empty else []
            print(f"member {lf.geom_type}: rendered rings {ng}, member.segmented({case['resolution']}) has {nw}")
            bad += nw != ng
        del pyproj
        return 1 if bad or len(geom_leaves(shp)) != len(gj_leaves(out)) else 0
    if fn == "geojson":
        shp = wkt.loads(case["wkt"])
        from .c01 import Pool

        byl = {e[0]: e[2] for e in Pool(False).entries}
        g = gm.Geometry(shp, byl.get(case["src"]))
        out = call_geojson(g, case["resolution"], case["wrapdateline"], case.get("form", 0))
        bad = 0
        from shapely import geometry as sg

        for lf, ft in zip(geom_leaves(shp), gj_leaves(out)):
            want = gm.Geometry(lf, g.crs).segmented(case["resolution"]).geom
            got = sg.shape(ft["geometry"])
            nw = [len(c) for c in c7.rings_of(want)] if not want.is_empty else []
            ng = [len(c) for c in c7.rings_of(got)] if not got.is_empty else []
            print(f"member {lf.geom_type}: rendered rings {ng}, member.segmented({case['resolution']}) has {nw}")
            bad += nw != ng
        return 1 if bad or len(geom_leaves(shp)) != len(gj_leaves(out)) else 0
    if fn == "multigeom":
        shp = [wkt.loads(w) for w in case["wkts"]]
        try:
            mg = gm.multigeom([gm.Geometry(x, "EPSG:3857") for x in shp]).geom
            print("multigeom ->", mg.wkt[:200])
            kinds = {x.geom_type for x in shp}
            if len(kinds) == 1 and next(iter(kinds)) in ("Polygon", "LineString", "Point"):
                return 0 if [x.wkb for x in mg.geoms] == [x.wkb for x in shp if not x.is_empty] else 1
            return 0
        except Exception as e:  # pylint: disable=broad-except
            print("multigeom raised", repr(e))
            return 1
    if fn == "mid_longitude":
        import pyproj

        shp = wkt.loads(case["wkt"])
        got = gm.mid_longitude(gm.Geometry(shp, f"EPSG:{case['src']}"))
        want = pyproj.Transformer.from_crs(int(case["src"]), 4326, always_xy=True).transform(*shp.centroid.coords[0])[0]
        print(f"mid_longitude -> {got!r}; pyproj on the centroid -> {want!r}")
        return 0 if got == want else 1
    if fn == "geojson-wrap":
        from shapely import geometry as sg

        shp = wkt.loads(case["wkt"])
        out = gm.Geometry(shp, "EPSG:3857").geojson(simplify=0, wrapdateline=True)
        bad = 0
        for lf, ft in zip(geom_leaves(shp), gj_leaves(out)):
            want = gm.Geometry(lf, "EPSG:3857").to_crs("EPSG:4326", wrapdateline=True).geom
            got = sg.shape(ft["geometry"])
            print(f"member {lf.geom_type}: rendered {got.wkt[:80]}; to_crs(wrapdateline=True) {want.wkt[:80]}")
            bad += got.wkb != want.wkb
        return 1 if bad else 0
    if fn == "filter" and ":" in case.get("pred", ""):
        shp = wkt.loads(case["wkt"])
        op, *vals = case["pred"].split(":")
        v = [float(Fraction(x)) for x in vals]
        pred = {"xlt": lambda x, y: x < v[0], "xge": lambda x, y: x >= v[0], "ylt": lambda x, y: y < v[0], "yge": lambda x, y: y >= v[0],
                "band": lambda x, y: v[0] <= x < v[1]}[op]
        before = len(R.oracle_failures)
        try:
            out = gm.Geometry(shp, "EPSG:3857").filter(pred)
            print("filter ->", out.geom.wkt[:200])
            oracle_filter(R, shp, pred, out.geom, case, "replay")
        except Exception as e:  # pylint: disable=broad-except
            print("filter raised", repr(e))
            return 0
        return 1 if len(R.oracle_failures) > before else 0
    if fn in ("filter", "lonlat", "to_crs-fix"):
        print("re-run `check.py C07` with the recorded seed: the record holds the geometry, the predicate / options")
        return 1
    return -1
