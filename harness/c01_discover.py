"""
C01 helper — discovery, by introspection of the live odc-geo modules, of every public callable
that takes two or more CRS-tagged operands (or an iterable of them).

A parameter counts as a CRS-tagged operand when
  * it is `self` of a CRS-tagged class (Geometry, BoundingBox, GeoBox, GeoboxTiles), or
  * its annotation names one of those classes (an `Iterable/List/Sequence[...]` of them counts
    as "two or more"), or
  * it has no (useful) annotation and a *probing call* with a CRS-tagged object in that position
    is accepted (returns, or fails with ValueError/AssertionError — i.e. it got as far as looking
    at the object; TypeError/AttributeError/anything else means "not an operand").
"""
from __future__ import annotations

import inspect
import re
import warnings
from typing import Any, Callable, Dict, List, Tuple

LIFECYCLE = {
    "__init__", "__new__", "__setstate__", "__getstate__", "__reduce__", "__reduce_ex__", "__class__",
    "__init_subclass__", "__subclasshook__", "__class_getitem__", "__getattribute__", "__setattr__",
    "__delattr__", "__dir__", "__format__", "__sizeof__", "__repr__", "__str__", "__hash__",
    "__dask_tokenize__",
}
TAGGED_NAMES = ("Geometry", "BoundingBox", "GeoBoxBase", "GeoBox", "GeoboxTiles")
_TAG_RE = re.compile(r"\b(Geometry|BoundingBox|GeoBoxBase|GeoBox|GeoboxTiles)\b")
_ITER_RE = re.compile(r"\b(Iterable|List|Sequence|Iterator|Tuple|list|tuple)\[[^\]]*\b(Geometry|BoundingBox|GeoBoxBase|GeoBox|GeoboxTiles)\b")
_VAGUE = {"Any", "object", "typing.Any", "<class 'object'>"}


def _ann_str(ann) -> str:
    if ann is inspect.Parameter.empty:
        return ""
    if isinstance(ann, str):
        return ann
    return getattr(ann, "__name__", None) if isinstance(ann, type) else str(ann)


def _samples():
    from affine import Affine
    from odc.geo import geom as G
    from odc.geo.geobox import GeoBox, GeoboxTiles

    crs = "EPSG:4326"
    g = G.box(0, 0, 2, 2, crs)
    bb = G.BoundingBox(0, 0, 2, 2, crs)
    gb = GeoBox((8, 8), Affine(1, 0, 0, 0, -1, 8), crs)
    gt = GeoboxTiles(gb, (4, 4))
    return {"Geometry": g, "BoundingBox": bb, "GeoBox": gb, "GeoboxTiles": gt}


def _accepted(fn: Callable, args: List[Any]) -> bool:
    try:
        with warnings.catch_warnings():
            warnings.simplefilter("ignore")
            out = fn(*args)
            if inspect.isgenerator(out):
                # generators (split, tiles, geoms) do their work on first next()
                for _ in out:
                    break
        return True
    except (ValueError, AssertionError):
        return True
    except BaseException:  # pylint: disable=broad-except
        return False


def _operand_params(owner, name: str, fn: Callable, is_method: bool, samples) -> Tuple[int, bool]:
    """-> (number of CRS-tagged operand positions, takes an iterable of them)"""
    try:
        sig = inspect.signature(fn)
    except (TypeError, ValueError):
        return 0, False
    params = list(sig.parameters.values())
    n = 0
    it = False
    if is_method:
        if not params:
            return 0, False
        params = params[1:]
        n += 1
    positional = [p for p in params if p.kind in (p.POSITIONAL_ONLY, p.POSITIONAL_OR_KEYWORD)]
    for i, p in enumerate(positional):
        a = _ann_str(p.annotation) or ""
        if _ITER_RE.search(a):
            it = True
            n += 2
            continue
        if _TAG_RE.search(a):
            n += 1
            continue
        if a == "" or a in _VAGUE:
            # probing call: tagged object here, required neighbours filled with plain numbers
            ok = False
            for s in samples.values():
                args = []
                if is_method:
                    args.append(samples[owner] if owner in samples else None)
                for j, q in enumerate(positional):
                    if j == i:
                        args.append(s)
                    elif q.default is inspect.Parameter.empty:
                        args.append(0.0)
                    else:
                        break
                if is_method and args[0] is None:
                    break
                if _accepted(fn, args):
                    ok = True
                    break
            if ok:
                n += 1
    return n, it


def discover() -> Dict[str, Dict[str, Any]]:
    """name -> {"operands": n, "iterable": bool}; names are `Class.method` / `module.function`."""
    import odc.geo.geobox as gbmod
    import odc.geo.geom as gmod

    samples = _samples()
    found: Dict[str, Dict[str, Any]] = {}
    classes = {
        "Geometry": gmod.Geometry,
        "BoundingBox": gmod.BoundingBox,
        "GeoBox": gbmod.GeoBox,
        "GeoboxTiles": gbmod.GeoboxTiles,
    }
    for cname, cls in classes.items():
        for name in dir(cls):
            if name in LIFECYCLE:
                continue
            if name.startswith("_") and not (name.startswith("__") and name.endswith("__")):
                continue
            # only what odc-geo defines (not object / Sequence / Protocol machinery)
            definer = next((k for k in cls.__mro__ if name in k.__dict__), None)
            if definer is None or not definer.__module__.startswith("odc.geo"):
                continue
            raw = definer.__dict__[name]
            if isinstance(raw, property):
                continue
            if isinstance(raw, staticmethod):
                fn, is_method = raw.__func__, False
            elif isinstance(raw, classmethod):
                continue
            elif callable(raw):
                fn, is_method = raw, True
            else:
                continue
            n, it = _operand_params(cname, name, fn, is_method, samples)
            if n >= 2:
                found[f"{cname}.{name}"] = {"operands": n, "iterable": it}
    for mname, mod in (("geom", gmod), ("geobox", gbmod)):
        for name, fn in vars(mod).items():
            if name.startswith("_") or not inspect.isfunction(fn) or fn.__module__ != mod.__name__:
                continue
            n, it = _operand_params(None, name, fn, False, samples)
            if n >= 2:
                found[f"{mname}.{name}"] = {"operands": n, "iterable": it}
    return found


if __name__ == "__main__":
    for k, v in sorted(discover().items()):
        print(k, v)
