"""C19, second growth increment: SHARING of one CRS instance by several values, CRS.authority and the lazy EPSG field,
the NaN clean-up of the transformer wrapper (Model/C19Alias.lean, Props/C19Alias.lean).

Everything runs in-process on the real objects.  Only observable behaviour is compared; the one interception point is
pyproj's own Transformer.transform (an external collaborator), used to hand the wrapper results real PROJ does not
produce (NaN in one coordinate only); when the wrapper does not go through it the stream is skipped with a note."""
from __future__ import annotations

import copy
import itertools
import math
from fractions import Fraction

from . import c19_access as A
from .common import Run, bool_s, frac_s, list_s

K4 = "crs-eq-depends-on-lazy-epsg"

LOSSY_4326 = "+proj=longlat +datum=WGS84 +no_defs"
LOSSY_7855 = "+proj=utm +zone=55 +south +ellps=GRS80 +units=m +no_defs"
TEXTS = [LOSSY_4326, "EPSG:4326", LOSSY_7855, "EPSG:7855", "EPSG:3857", "ESRI:54009", "OGC:CRS84", "IGNF:LAMB93",
         "EPSG:2154"]


def part_alias(R: Run):
    from .c19 import Enc

    E = Enc()
    A.guard("sharing of CRS instances", lambda: sharing(R, E))
    A.guard("CRS.authority and the lazy EPSG field", lambda: authority(R, E))
    A.guard("NaN clean-up of the transformer wrapper", lambda: nan_wrapper(R))
    A.guard("CRS.units / CRS.dimensions", lambda: units_dims(R))
    A.guard("hashable CRS-like objects as cache keys", lambda: like_cache(R, E))


def _hash(o):
    try:
        return hash(o)
    except TypeError:
        return None


class _CrsOnly:
    """a value without == of its own (GCPMapping): the CRS it holds decides; dask tokens / pickles are the value's"""

    def __init__(self, o):
        self.o = o

    crs = property(lambda self: self.o.crs)

    def __eq__(self, other):
        return isinstance(other, _CrsOnly) and (self.o.crs == other.o.crs or (self.o.crs is None and other.o.crs is None))

    __hash__ = None

    def __copy__(self):
        return _CrsOnly(copy.copy(self.o))

    def __dask_tokenize__(self):
        from dask.base import tokenize

        return ("holder", tokenize(self.o))


class _ViaBase(_CrsOnly):
    """GeoboxTiles: holds the instance through its base GeoBox; == is its own"""

    crs = property(lambda self: self.o.base.crs)

    def __eq__(self, other):
        return isinstance(other, _ViaBase) and bool(self.o == other.o)

    __hash__ = None

    def __copy__(self):
        return _ViaBase(copy.copy(self.o))


# ----------------------------------------------------------------------------------------------------------------
def sharing(R: Run, E):
    """random histories over CRS instances and the values that hold them"""
    import pickle

    import pyproj
    from affine import Affine
    from dask.base import tokenize

    from odc.geo.crs import CRS
    from odc.geo.geobox import GeoBox
    from odc.geo.geom import BoundingBox

    from .c19_world import to_epsg_memo

    rng = R.rng
    A0 = Affine(1.0, 0.0, 10.0, 0.0, -1.0, 20.0)
    # the witness of Props/C19Alias `shared_read_changes_equality_cex` first, then random histories
    fixed = [[("n", 0, LOSSY_4326), ("c", 2, 0), ("n", 1, "EPSG:4326"), ("h", 1, 0), ("h", 2, 2), ("h", 3, 1),
              ("e", 1, 3), ("e", 2, 3), ("e", 1, 2), ("r", 0), ("e", 1, 3), ("e", 2, 3), ("e", 1, 2)]]
    nh = R.pick(14, 120)
    import numpy as np

    from odc.geo import geom as geom_
    from odc.geo.gcp import GCPMapping
    from odc.geo.geobox import GeoboxTiles
    from odc.geo.gridspec import GridSpec

    pix_ = np.array([(0, 0), (4, 0), (0, 3), (4, 3)], dtype="float64")
    makers = {
        "bbox": lambda c: BoundingBox(0, 1, 2, 3, crs=c),
        "gbox": lambda c: GeoBox((3, 4), A0, c),
        "geom": lambda c: geom_.point(1.0, 2.0, c),
        "gridspec": lambda c: GridSpec(c, (10, 10), 8),
        "gcpmap": lambda c: _CrsOnly(GCPMapping(pix_, pix_ * 2 + 10, c)),
        "gbt": lambda c: _ViaBase(GeoboxTiles(GeoBox((10, 10), A0, c), (5, 5))),
    }
    more_kinds = ["geom", "gridspec", "gcpmap", "gbt"]
    n_more = R.pick(4, 40)
    for hno in range(nh + len(fixed) + n_more):
        base_n = nh + len(fixed)
        kind = ("bbox" if hno % 2 == 0 else "gbox") if hno < base_n else more_kinds[(hno - base_n) % len(more_kinds)]
        mk_holder = makers[kind]
        texts = rng.sample(TEXTS, 4) if hno >= len(fixed) else TEXTS
        inst: dict = {}      # instance id -> CRS object; ids are never reused (a value keeps the OBJECT it was given,
        var: dict = {}       # whatever a variable name is bound to later); variable name -> current instance id
        hold: dict = {}
        ref: dict = {}     # holder -> instance name (harness bookkeeping for the oracles only)
        ops_l: list = []
        outs: list = []
        script = fixed[hno] if hno < len(fixed) else None
        nops = len(script) if script else R.pick(26, 40)

        def rec(c) -> str:
            ie = to_epsg_memo(A.pyproj_of(c))
            return f"{E.crs(c)};{'N' if ie is None else ie}"

        for k in range(nops):
            if script:
                op = script[k]
            else:
                r = rng.random()
                if r < 0.22 or len(var) < 2:
                    op = ("n", rng.randint(0, 4), rng.choice(texts))
                elif r < 0.30:
                    op = ("c", rng.randint(0, 4), rng.choice(sorted(var)))
                elif r < 0.36:
                    op = ("p", rng.randint(0, 4), rng.choice(sorted(var)))
                elif r < 0.56 or len(hold) < 2:
                    op = ("h", rng.randint(0, 5), rng.choice(sorted(var))) if (rng.random() < 0.9 or kind == "gridspec") \
                        else ("hn", rng.randint(0, 5))
                elif r < 0.64:
                    op = ("rh", rng.randint(0, 5), rng.choice(sorted(hold)))
                elif r < 0.80:
                    op = ("r", rng.choice(sorted(var)))
                else:
                    op = ("e", rng.choice(sorted(hold)), rng.choice(sorted(hold)))
            t = op[0]
            if t in ("n", "c", "p"):
                new_id = len(inst)
                src_id = var[op[2]] if t != "n" else None
                if t == "n":
                    inst[new_id] = CRS(op[2])
                    ops_l.append(f"n;{new_id};{rec(inst[new_id])}")
                elif t == "c":
                    inst[new_id] = CRS(inst[src_id])
                    ops_l.append(f"c;{new_id};{src_id}")
                else:
                    # an unpickled clone is CRS(_str): a new instance whose fields come from the construction cache
                    inst[new_id] = pickle.loads(pickle.dumps(inst[src_id]))
                    ops_l.append(f"n;{new_id};{rec(inst[new_id])}")
                var[op[1]] = new_id
                outs.append("-")
                continue
            if t in ("h", "r"):
                op = (t, *op[1:-1], var[op[-1]])   # from here on the instance id
            if t == "h":
                hold[op[1]] = mk_holder(inst[op[2]])
                ref[op[1]] = op[2]
                got = hold[op[1]].crs
                R.oracle(got is inst[op[2]] or (got == inst[op[2]] and str(got) == str(inst[op[2]])),
                         "value-does-not-hold-the-crs-it-was-given", {"kind": kind, "text": str(inst[op[2]])},
                         "a value constructed with crs=<CRS instance> reports another CRS", trivial=True)
                if got is inst[op[2]]:
                    ops_l.append(f"h;{op[1]};{op[2]}")
                    outs.append("-")
                else:
                    # the value keeps a COPY of the instance (observable: `.crs is not` the argument): the model follows
                    cid = len(inst)
                    inst[cid] = got
                    ref[op[1]] = cid
                    ops_l += [f"c;{cid};{op[2]}", f"h;{op[1]};{cid}"]
                    outs += ["-", "-"]
            elif t == "hn":
                hold[op[1]] = mk_holder(None)
                ref[op[1]] = None
                ops_l.append(f"hn;{op[1]}")
                outs.append("-")
            elif t == "rh":
                src = hold[op[2]]
                how = rng.randrange(3)
                if how == 0 or kind not in ("bbox", "gbox"):
                    new = copy.copy(src)
                elif kind == "bbox":
                    new = BoundingBox(*src.bbox, crs=src.crs)
                else:
                    new = GeoBox(src.shape, src.affine, src.crs)
                hold[op[1]] = new
                if new.crs is src.crs:
                    ref[op[1]] = ref[op[2]]
                    ops_l.append(f"rh;{op[1]};{op[2]}")
                    outs.append("-")
                else:
                    cid, src_ref = len(inst), ref[op[2]]
                    inst[cid] = new.crs
                    ref[op[1]] = cid
                    ops_l += [f"c;{cid};{src_ref}", f"h;{op[1]};{cid}"]
                    outs += ["-", "-"]
            elif t == "r":
                names = sorted(hold)
                before = {(a, b): bool(hold[a] == hold[b]) for a in names for b in names}
                hb = {a: (_hash(hold[a]), tokenize(hold[a])) for a in names}
                holders_of = [a for a in names if ref[a] == op[1] and hold[a].crs is inst[op[1]]]
                # read through a holder when there is one: it is the same instance
                target = hold[rng.choice(holders_of)].crs if holders_of and rng.random() < 0.5 else inst[op[1]]
                e = target.epsg
                ops_l.append(f"r;{op[1]}")
                outs.append("e:" + ("N" if e is None else str(e)))
                case = {"kind": kind, "ops": list(ops_l), "texts": {str(i): str(c)[:60] for i, c in inst.items()}}
                for a in names:
                    R.oracle(_hash(hold[a]) == hb[a][0], "holder-hash-changes-after-epsg-read", {**case, "holder": a},
                             f"hash of a {kind} changed when .epsg of a CRS was read")
                    R.oracle(tokenize(hold[a]) == hb[a][1], "holder-token-changes-after-epsg-read", {**case, "holder": a},
                             f"dask token of a {kind} changed when .epsg of a CRS was read")
                for a, b in itertools.combinations(names, 2):
                    now = bool(hold[a] == hold[b])
                    same_sys = (hold[a].crs is None and hold[b].crs is None) or (
                        hold[a].crs is not None and hold[b].crs is not None
                        and A.pyproj_of(hold[a].crs) == A.pyproj_of(hold[b].crs))
                    # an equality that moved because a lazily found EPSG code now short-cuts == is finding K4
                    key = K4 if (now and not same_sys) or (before[a, b] and not same_sys) else "holder-eq-changes-after-epsg-read"
                    R.oracle(now == before[a, b], key, {**case, "a": a, "b": b},
                             f"{kind} #{a} == {kind} #{b} was {before[a, b]} and is {now} after .epsg of CRS #{op[1]} was "
                             "read (nobody touched the two values)")
            elif t == "e":
                a, b = op[1], op[2]
                r_ = bool(hold[a] == hold[b])
                ops_l.append(f"e;{a};{b}")
                outs.append(bool_s(r_))
                if ref[a] is not None and ref[a] == ref[b] and hold[a].crs is hold[b].crs:
                    R.oracle(r_ and _hash(hold[a]) == _hash(hold[b]), "shared-crs-holders-unequal",
                             {"kind": kind, "ops": list(ops_l)}, "two values holding the SAME CRS instance are unequal / hash apart")
        A.corr(R, "c19 alias run " + list_s(ops_l), lambda outs=outs: ",".join(outs),
               sig=f"alias|history|{kind}|" + ("witness" if script else "random"))
        R.count("alias-ops", len(ops_l))
    _ = pyproj


# ----------------------------------------------------------------------------------------------------------------
def authority(R: Run, E):
    from odc.geo.crs import CRS

    from .c19_world import to_epsg_memo

    def auth_s(t) -> str:
        return f"{t[0]}~{t[1]}"

    for text in TEXTS + ["+proj=merc +a=6378137 +b=6378137 +lat_ts=0 +lon_0=0 +x_0=0 +y_0=0 +k=1 +units=m +nadgrids=@null "
                         "+wktext +no_defs", "ESRI:102001"]:
        try:
            x = CRS(text)
        except Exception:  # pylint: disable=broad-except
            continue
        p = A.pyproj_of(x)
        ta = p.to_authority()
        ta_s = "N" if ta is None else f"{ta[0]}~{ta[1]}"
        ie = to_epsg_memo(p)
        before = x.authority
        aux = (x.units, x.dimensions, str(x), x.geographic)
        A.corr(R, lambda x=x: f"c19 alias auth {E.crs(x)} {'N' if ie is None else ie} {ta_s}", lambda before=before: auth_s(before),
               sig="alias|authority|before-read")
        x.epsg  # noqa: B018
        after = x.authority
        A.corr(R, lambda x=x: f"c19 alias auth {E.crs(x)} {'N' if ie is None else ie} {ta_s}", lambda after=after: auth_s(after),
               sig="alias|authority|after-read")
        # the same root as K4: a lazily found EPSG code takes over
        R.oracle(before == after, K4, {"text": text, "before": list(before), "after": list(after), "what": "authority"},
                 f"CRS({text!r}).authority is {before} until .epsg is read and {after} afterwards")
        R.oracle(aux == (x.units, x.dimensions, str(x), x.geographic), "crs-units-dimensions-change-after-epsg-read",
                 {"text": text}, "units / dimensions / str of a CRS changed when .epsg was read")


# ----------------------------------------------------------------------------------------------------------------
def nan_wrapper(R: Run):
    import numpy as np
    import pyproj

    from odc.geo.crs import CRS

    a, b = CRS("EPSG:4326"), CRS("EPSG:3857")
    f = a.transformer_to_crs(b)
    nan = float("nan")

    def enc(v) -> str:
        return "N" if math.isnan(v) else frac_s(Fraction(v))

    # 1. real PROJ: NaN in either input coordinate comes out as NaN in both, finite input stays finite
    xs = np.array([nan, 10.0, 10.0, nan, 20.5])
    ys = np.array([5.0, nan, 45.0, nan, -33.25])
    rx, ry = f(xs.copy(), ys.copy())
    for k in range(len(xs)):
        bad = math.isnan(xs[k]) or math.isnan(ys[k])
        R.oracle((math.isnan(rx[k]) and math.isnan(ry[k])) if bad else (math.isfinite(rx[k]) and math.isfinite(ry[k])),
                 "transformer-nan-not-on-both-coordinates", {"x": repr(xs[k]), "y": repr(ys[k])},
                 f"transform of ({xs[k]}, {ys[k]}) gave ({rx[k]}, {ry[k]})")
    # 2. the wrapper itself, fed through pyproj's Transformer.transform (external boundary) with results PROJ does not
    # produce: NaN in one coordinate only
    vals = [nan, 0.5, 3.0]
    cases = [((), ())]
    for k in (1, 2):
        for xs_ in itertools.product(vals, repeat=k):
            for ys_ in itertools.product(vals, repeat=k):
                cases.append((xs_, ys_))
    for _ in range(R.pick(20, 200)):
        k = R.rng.randint(3, 6)
        cases.append((tuple(R.rng.choice(vals + [-7.25]) for _ in range(k)), tuple(R.rng.choice(vals + [1e6]) for _ in range(k))))
    Tr = pyproj.Transformer
    real_transform = Tr.transform
    state = {"hit": 0, "ret": None}

    def fake(self, *args, **kw):
        state["hit"] += 1
        return state["ret"]

    lines = []
    Tr.transform = fake
    try:
        for xs_, ys_ in cases:
            state["ret"] = (np.array(xs_, dtype="float64"), np.array(ys_, dtype="float64"))
            ox, oy = f(np.zeros(len(xs_)), np.zeros(len(xs_)))
            lines.append(("A", xs_, ys_, [float(v) for v in ox], [float(v) for v in oy]))
        for x_, y_ in itertools.product(vals, repeat=2):
            state["ret"] = (x_, y_)
            ox, oy = f(0.0, 0.0)
            lines.append(("S", x_, y_, float(ox), float(oy)))
    finally:
        Tr.transform = real_transform
    if state["hit"] != len(lines):
        A.note("the transformer wrapper does not go through pyproj.Transformer.transform on this tree: its NaN clean-up "
               "is judged on real PROJ output only")
        return
    for kind, xs_, ys_, ox, oy in lines:
        if kind == "A":
            A.corr(R, f"c19 alias nan A {list_s(enc(v) for v in xs_)} {list_s(enc(v) for v in ys_)}",
                   lambda ox=ox, oy=oy: f"A {list_s(enc(v) for v in ox)} {list_s(enc(v) for v in oy)}",
                   sig=f"alias|nan-clean|arrays|n={min(len(xs_), 3)}")
            for k in range(len(xs_)):
                bad = math.isnan(xs_[k]) or math.isnan(ys_[k])
                ok = (math.isnan(ox[k]) and math.isnan(oy[k])) if bad else (ox[k] == xs_[k] and oy[k] == ys_[k])
                R.oracle(ok, "transformer-wrapper-nan-clean-up", {"x": repr(xs_), "y": repr(ys_), "k": k},
                         f"wrapper turned ({xs_[k]}, {ys_[k]}) into ({ox[k]}, {oy[k]})")
        else:
            A.corr(R, f"c19 alias nan S {enc(xs_)} {enc(ys_)}", lambda ox=ox, oy=oy: f"S {enc(ox)} {enc(oy)}",
                   sig="alias|nan-clean|scalars")


# ----------------------------------------------------------------------------------------------------------------
def units_dims(R: Run):
    """CRS.units / CRS.dimensions against the model's dispatch over pyproj's axis_info (Model/C19Units.lean); the
    polar systems (both axes pointing the same way) are the ones the fix on main is about"""
    from odc.geo.crs import CRS

    from .common import guarded

    codes = [4326, 3857, 32755, 32633, 3577, 2193, 27700, 3031, 3413, 32661, 32761, 5041, 5042, 3995, 3976, 3032, 4978, 4979,
             2154, 28355, 3112, 7844, 4269, 3035, 2056, 31370, 5514, 2065, 22275, 3346]
    enc = lambda t: str(t).replace(" ", "_").replace(",", ".").replace(";", ".") or "-"  # noqa: E731
    specs = [f"EPSG:{c}" for c in codes] + ["ESRI:54009", "+proj=stere +lat_0=90 +lat_ts=70 +lon_0=-45 +units=us-ft +no_defs",
                                            "+proj=laea +lat_0=-90 +lon_0=0 +units=km +no_defs"]
    for spec in specs:
        try:
            c = CRS(spec)
        except Exception:  # pylint: disable=broad-except
            continue
        p = A.pyproj_of(c)
        kind = "G" if c.geographic else ("P" if c.projected else "O")
        axes = [(enc(ax.direction), enc(ax.abbrev), enc(ax.unit_name)) for ax in p.axis_info]

        def f(c=c):
            y, x = c.units
            return f"{enc(y) if y != '' else ''}~{enc(x) if x != '' else ''}"
        A.corr(R, f"c19 units {kind} {list_s(';'.join(a) for a in axes)}", lambda f=f: guarded(f),
               sig=f"units|{kind}|axes={len(axes)}|dirs={'+'.join(sorted({a[0] for a in axes}))}")
        A.corr(R, f"c19 dims {kind}", lambda c=c: guarded(lambda: "~".join(c.dimensions)), sig=f"dims|{kind}")
        if kind == "P" and len(axes) >= 2:
            try:
                y, x = c.units
            except Exception as e:  # pylint: disable=broad-except
                R.oracle(False, "crs-units-raises", {"spec": spec}, f"CRS({spec!r}).units raised {e!r}")
                continue
            names = [ax.unit_name for ax in p.axis_info]
            ok = y != "" and x != "" and any(names[i] == y and names[j] == x for i in range(len(names))
                                             for j in range(len(names)) if i != j)
            R.oracle(ok, "crs-units-not-of-two-axes", {"spec": spec, "units": [y, x], "axes": axes},
                     f"CRS({spec!r}).units is {(y, x)}: not the units of two different axes {names}")


# ----------------------------------------------------------------------------------------------------------------
def like_cache(R: Run, E):
    """CRS(obj) for hashable CRS-like objects (Model/C19Like.lean): the same object again gives the same pyproj object
    (a cache hit under the object's own key), another object with the same WKT a different one, all equal as CRSs.
    Observable relations only; the growth of the cache is compared softly (internal state)."""
    import pyproj

    import odc.geo.crs as C
    from odc.geo.crs import CRS

    W = E.W
    wkts = [pyproj.CRS.from_epsg(c).to_wkt() for c in (3577, 3112)]
    names = [W.add_text(w) for w in wkts]
    ents = []
    for n in names:
        d = W.info[n]
        ents.append(f"{n};{d['sys']};{d['srs']};{d['wkt']};{'N' if d['epsg'] is None else d['epsg']}")
    ts = list_s(ents)

    class Like:   # hashable by identity, not a pyproj CRS
        def __init__(self, wkt):
            self._w = wkt

        def to_wkt(self, *a, **kw):
            return self._w

    class Broken(Like):
        def to_wkt(self, *a, **kw):
            return "not-wkt"

    for _ in range(R.pick(4, 30)):
        objs = {}     # lid -> (object, name of its wkt)
        made = {}
        ops, outs = [], []
        before = A.crs_cache_len(C)
        nv = 0
        for _k in range(R.pick(14, 24)):
            r = R.rng.random()
            if r < 0.5 or len(made) < 2:
                lid = R.rng.randint(0, 4)
                if lid not in objs:
                    k = R.rng.randrange(2)
                    objs[lid] = (Broken("x"), "not-wkt") if R.rng.random() < 0.1 else (Like(wkts[k]), names[k])
                try:
                    c = CRS(objs[lid][0])
                    made[nv] = c
                    outs.append("s:" + W.name(str(c)))
                except Exception as e:  # pylint: disable=broad-except
                    from .common import err_s
                    outs.append(err_s(e))
                ops.append(f"l;{nv};{lid};{objs[lid][1]};{R.rng.randint(0, 2)}")
                nv += 1
            else:
                a, b = R.rng.choice(sorted(made)), R.rng.choice(sorted(made))
                if r < 0.8:
                    ops.append(f"same;{a};{b}")
                    outs.append(bool_s(A.pyproj_of(made[a]) is A.pyproj_of(made[b])))
                else:
                    ops.append(f"eq;{a};{b}")
                    outs.append(bool_s(made[a] == made[b]))
                    R.oracle(bool(made[a] == made[b]) == (str(made[a]) == str(made[b])), "crs-like-objects-unequal",
                             {"ops": list(ops)}, "CRSs built from CRS-like objects with the same WKT are unequal", trivial=True)
        after = A.crs_cache_len(C)
        good = len({lid for op in ops if op.startswith("l;") for lid in [op.split(";")[2]] if objs[int(lid)][1] != "not-wkt"})
        grew = None if before is None or after is None else after - before
        if grew is not None and grew != good:
            A.note(f"CRS construction cache grew by {grew} entries for {good} distinct CRS-like objects (internal state; "
                   "not a verdict)")
        R.count("like-cache-growth-agrees", int(grew == good))
        A.corr(R, f"c19 like {ts} {list_s(ops)}", lambda outs=outs, good=good: ",".join(outs) + f" likes={good}",
               sig="like|history")
