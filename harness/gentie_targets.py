"""
Manifest of the source tie (tools/py2lean.py, harness/gentie.py): which Python functions of /repo are
regenerated as Lean definitions on every run, with which types, and which hand-model definition each one is
proved equal to (theorem `OdcGeo.Cxx.tie_<lean name>` in lean/OdcGeo/Props/GenCxx.lean).

Per function:
  module   path of the python file below the repository root
  py       qualified name: `f`, `Class.method`, `outer.inner` (nested function)
  lean     name of the generated definition (namespace OdcGeo.Gen.Cxx)
  params   ordered [name, type]; for a nested function the closure variables it reads come after its own parameters
  ret      result type
  model    the hand-model definition it is tied to (documentation; the theorem is what counts); None = helper only
  tie      name of the tie theorem (None for helpers that are inlined into their callers' proofs)
  fuel     one Lean `Nat` expression per `while` loop, over the parameters ({name} placeholders)
  domain   predicate over the dict of generated arguments: the precondition of the tie theorem (the domain on which
           the hand model speaks); the escalated search after a lost tie only uses inputs inside it
  helper   a private helper without hand-model counterpart: its definition is tagged `@[gen_helpers]` and unfolded by
           the tie proofs of its callers; `optional`: it may disappear from the source (inlined) without the tie being lost
  pycall   how the self-check calls the real code: expression over the imported module `m` giving a callable of the
           parameters (default: the function itself); `gen` overrides the input generator per parameter
Types: int float bool none opt[T] tuple[T,..] and the named types of the property (`types`).
"""

SLICE_TYPES = {
    # `int | slice(start, stop)` with optional bounds (roi.py `SomeSlice`, step None)
    "someslice": {"kind": "intorslice", "lean": "OdcGeo.C17.PIdx", "int_ctor": ".idx", "slice_ctor": ".slc"},
    # `slice(start, stop)` with two integer bounds (roi.py `NormalizedSlice`)
    "nslice": {"kind": "struct", "lean": "OdcGeo.C17.NSlice", "fields": [["start", "int"], ["stop", "int"]],
               "pyclass": "slice", "py_make": "lambda start, stop: slice(start, stop)"},
}

TARGETS = {
    "C17": {
        "imports": ["OdcGeo.Model.C17"],
        "types": SLICE_TYPES,
        # `shape_((ny, nx))` is a `Shape2d` that iterates as `(ny, nx)`: the identity on the modelled pair
        "transparent": {"shape_": "types.shape_ on a (ny, nx) pair of ints"},
        "functions": [
            {"module": "odc/geo/math.py", "py": "align_down", "lean": "align_down",
             "params": [["x", "int"], ["align", "int"]], "ret": "int",
             "model": "OdcGeo.C17.alignDown", "tie": "tie_align_down", "domain": "lambda a: a['align'] > 0"},
            {"module": "odc/geo/math.py", "py": "align_up", "lean": "align_up",
             "params": [["x", "int"], ["align", "int"]], "ret": "int",
             "model": "OdcGeo.C17.alignUp", "tie": "tie_align_up", "domain": "lambda a: a['align'] > 0"},
            {"module": "odc/geo/roi.py", "py": "_fill_if_none", "lean": "fill_if_none",
             "params": [["x", "opt[int]"], ["val_if_none", "int"]], "ret": "int",
             "model": None, "tie": None, "helper": True, "optional": True},
            {"module": "odc/geo/roi.py", "py": "_norm_slice_or_error", "lean": "norm_slice_or_error",
             "params": [["s", "someslice"]], "ret": "nslice",
             "model": "OdcGeo.C17.normSliceOrError", "tie": "tie_norm_slice_or_error"},
            {"module": "odc/geo/roi.py", "py": "_norm_slice", "lean": "norm_slice",
             "params": [["s", "someslice"], ["n", "int"]], "ret": "nslice",
             "model": "OdcGeo.C17.normSlice", "tie": "tie_norm_slice"},
            {"module": "odc/geo/roi.py", "py": "slice_intersect3", "lean": "slice_intersect3",
             "params": [["a", "someslice"], ["b", "someslice"]], "ret": "tuple[nslice,nslice,nslice]",
             "model": "OdcGeo.C17.sliceIntersect3", "tie": "tie_slice_intersect3"},
            {"module": "odc/geo/roi.py", "py": "roi_intersect.slice_intersect", "lean": "slice_intersect",
             "params": [["a", "someslice"], ["b", "someslice"]], "ret": "nslice",
             "model": "OdcGeo.C17.sliceIntersect", "tie": "tie_slice_intersect",
             "pycall": "lambda a, b: m.roi_intersect(a, b)"},
            {"module": "odc/geo/roi.py", "py": "roi_shape.slice_dim", "lean": "slice_dim",
             "params": [["s", "someslice"]], "ret": "int",
             "model": "OdcGeo.C17.sliceDim", "tie": "tie_slice_dim",
             "pycall": "lambda s: m.roi_shape(s)[0]"},
            {"module": "odc/geo/roi.py", "py": "roi_is_full.slice_full", "lean": "slice_full",
             "params": [["s", "someslice"], ["n", "int"]], "ret": "bool",
             "model": "OdcGeo.C17.sliceFull", "tie": "tie_slice_full",
             "pycall": "lambda s, n: m.roi_is_full(s, n)"},
            {"module": "odc/geo/roi.py", "py": "roi_center.slice_center", "lean": "slice_center",
             "params": [["s", "someslice"]], "ret": "float",
             "model": "OdcGeo.C17.sliceCenter", "tie": "tie_slice_center",
             "pycall": "lambda s: m.roi_center(s)"},
            {"module": "odc/geo/roi.py", "py": "roi_pad.pad_slice", "lean": "pad_slice",
             "params": [["s", "someslice"], ["n", "int"], ["pad", "int"]], "ret": "nslice",
             "model": "OdcGeo.C17.padSlice", "tie": "tie_pad_slice",
             "pycall": "lambda s, n, pad: m.roi_pad(s, pad, n)"},
            {"module": "odc/geo/roi.py", "py": "scaled_down_roi", "lean": "scaled_down_roi",
             "params": [["roi", "tuple[nslice,nslice]"], ["scale", "int"]], "ret": "tuple[nslice,nslice]",
             "model": "OdcGeo.C17.scaledDownSlice", "tie": "tie_scaled_down_roi", "domain": "lambda a: a['scale'] > 0"},
            {"module": "odc/geo/roi.py", "py": "scaled_up_roi", "lean": "scaled_up_roi",
             "params": [["roi", "tuple[nslice,nslice]"], ["scale", "int"], ["shape", "opt[tuple[int,int]]"]],
             "ret": "tuple[nslice,nslice]",
             "model": "OdcGeo.C17.scaledUpSlice", "tie": "tie_scaled_up_roi"},
            {"module": "odc/geo/roi.py", "py": "scaled_down_shape", "lean": "scaled_down_shape",
             "params": [["shape", "tuple[int,int]"], ["scale", "int"]], "ret": "tuple[int,int]",
             "model": "OdcGeo.C17.scaledDownDim", "tie": "tie_scaled_down_shape", "domain": "lambda a: a['scale'] > 0"},
        ],
    },
    "C20": {
        "imports": ["OdcGeo.Model.C20"],
        "types": {
            "Bin1D": {"kind": "struct", "lean": "OdcGeo.C20.Bin1D", "pyclass": "Bin1D",
                      "fields": [["sz", "float"], ["origin", "float"], ["direction", "int"]],
                      "gen": {"sz": "pospow2", "direction": "pm1"},
                      "py_make": "lambda sz, origin, direction: __import__('odc.geo.math', fromlist=['Bin1D']).Bin1D(sz, origin, direction)"},
        },
        "functions": [
            {"module": "odc/geo/math.py", "py": "maybe_zero", "lean": "maybe_zero",
             "params": [["x", "float"], ["tol", "float"]], "ret": "float", "gen": {"tol": "tol"},
             "model": "OdcGeo.C20.maybeZero", "tie": "tie_maybe_zero"},
            {"module": "odc/geo/math.py", "py": "split_float", "lean": "split_float",
             "params": [["x", "float"]], "ret": "tuple[float,float]",
             "model": "OdcGeo.C20.splitFloat", "tie": "tie_split_float"},
            {"module": "odc/geo/math.py", "py": "maybe_int", "lean": "maybe_int",
             "params": [["x", "float"], ["tol", "float"]], "ret": "float", "gen": {"tol": "tol"},
             "model": "OdcGeo.C20.maybeInt", "tie": "tie_maybe_int"},
            {"module": "odc/geo/math.py", "py": "is_almost_int", "lean": "is_almost_int",
             "params": [["x", "float"], ["tol", "float"]], "ret": "bool", "gen": {"tol": "tol"},
             "model": "OdcGeo.C20.isAlmostInt", "tie": "tie_is_almost_int"},
            {"module": "odc/geo/math.py", "py": "clamp", "lean": "clamp",
             "params": [["x", "float"], ["lo", "float"], ["up", "float"]], "ret": "float",
             "model": "OdcGeo.C20.clamp", "tie": "tie_clamp"},
            {"module": "odc/geo/math.py", "py": "align_up_pow2", "lean": "align_up_pow2",
             "params": [["x", "int"]], "ret": "int",
             "model": "OdcGeo.C20.alignUpPow2", "tie": "tie_align_up_pow2"},
            {"module": "odc/geo/math.py", "py": "align_down_pow2", "lean": "align_down_pow2",
             "params": [["x", "int"]], "ret": "int",
             "model": "OdcGeo.C20.alignDownPow2", "tie": "tie_align_down_pow2"},
            {"module": "odc/geo/math.py", "py": "_snap_edge_pos", "lean": "snap_edge_pos",
             "params": [["x0", "float"], ["x1", "float"], ["res", "float"], ["tol", "float"]], "ret": "tuple[float,int]",
             "gen": {"res": "pow2", "tol": "tol"},
             "model": "OdcGeo.C20.snapEdgePos", "tie": "tie_snap_edge_pos"},
            {"module": "odc/geo/math.py", "py": "_snap_edge", "lean": "snap_edge",
             "params": [["x0", "float"], ["x1", "float"], ["res", "float"], ["tol", "float"]], "ret": "tuple[float,int]",
             "gen": {"res": "pow2", "tol": "tol"},
             "model": "OdcGeo.C20.snapEdge", "tie": "tie_snap_edge"},
            {"module": "odc/geo/math.py", "py": "snap_grid", "lean": "snap_grid",
             "params": [["x0", "float"], ["x1", "float"], ["res", "float"], ["off_pix", "opt[float]"], ["tol", "float"]],
             "ret": "tuple[float,int]", "gen": {"res": "pow2", "tol": "tol", "off_pix": "optunit"},
             "model": "OdcGeo.C20.snapGrid", "tie": "tie_snap_grid"},
            {"module": "odc/geo/math.py", "py": "Bin1D.__init__", "lean": "bin1d_init",
             "params": [["sz", "float"], ["origin", "float"], ["direction", "int"]], "ret": "Bin1D",
             "gen": {"direction": "dir", "sz": "pow2"},
             "pycall": "lambda sz, origin, direction: m.Bin1D(sz, origin, direction)",
             "model": "OdcGeo.C20.Bin1D.mk?", "tie": "tie_bin1d_init"},
            {"module": "odc/geo/math.py", "py": "Bin1D.__getitem__", "lean": "bin1d_getitem",
             "params": [["self", "Bin1D"], ["idx", "int"]], "ret": "tuple[float,float]", "gen": {"idx": "smallint"},
             "model": "OdcGeo.C20.Bin1D.interval", "tie": "tie_bin1d_getitem"},
            {"module": "odc/geo/math.py", "py": "Bin1D.bin", "lean": "bin1d_bin",
             "params": [["self", "Bin1D"], ["x", "float"]], "ret": "int",
             "model": "OdcGeo.C20.Bin1D.bin", "tie": "tie_bin1d_bin"},
            {"module": "odc/geo/math.py", "py": "Bin1D.from_sample_bin", "lean": "bin1d_from_sample_bin",
             "params": [["idx", "int"], ["bin", "tuple[float,float]"], ["direction", "int"]], "ret": "Bin1D",
             "gen": {"idx": "smallint", "direction": "dir"},
             "model": "OdcGeo.C20.Bin1D.fromSampleBin", "tie": "tie_bin1d_from_sample_bin"},
        ],
    },
    "C05": {
        "imports": ["OdcGeo.Model.C05"],
        "types": {
            # `Union[int, Tuple[int, int]]` block size
            "blk": {"kind": "intorpair", "lean": "Py.IntOrPair", "int_ctor": ".one", "pair_ctor": ".two", "gen": "nonneg"},
        },
        "functions": [
            {"module": "odc/geo/math.py", "py": "align_down", "lean": "align_down",
             "params": [["x", "int"], ["align", "int"]], "ret": "int",
             "model": "OdcGeo.C05.alignDown", "tie": "tie_align_down", "domain": "lambda a: a['align'] > 0 and a['x'] >= 0"},
            {"module": "odc/geo/math.py", "py": "align_up", "lean": "align_up",
             "params": [["x", "int"], ["align", "int"]], "ret": "int",
             "model": "OdcGeo.C05.alignUp", "tie": "tie_align_up", "domain": "lambda a: a['align'] > 0 and a['x'] >= 0"},
            {"module": "odc/geo/cog/_shared.py", "py": "adjust_blocksize", "lean": "adjust_blocksize",
             "params": [["block", "int"], ["dim", "int"]], "ret": "int",
             "model": "OdcGeo.C05.adjustBlocksize", "tie": "tie_adjust_blocksize", "domain": "lambda a: a['block'] >= 0 and a['dim'] >= 0"},
            {"module": "odc/geo/cog/_shared.py", "py": "norm_blocksize", "lean": "norm_blocksize",
             "params": [["block", "blk"]], "ret": "tuple[int,int]",
             "model": "OdcGeo.C05.normBlocksize", "tie": "tie_norm_blocksize"},
            {"module": "odc/geo/cog/_shared.py", "py": "num_overviews", "lean": "num_overviews",
             "params": [["block", "int"], ["dim", "int"]], "ret": "int", "fuel": ["({dim}).toNat + 1"],
             "gen": {"block": "nonneg", "dim": "nonneg"},
             "model": "OdcGeo.C05.numOverviews", "tie": "tie_num_overviews", "domain": "lambda a: a['block'] >= 0 and a['dim'] >= 0"},
        ],
    },
    "C03": {
        "imports": ["OdcGeo.Model.C03"],
        "types": {"nslice": SLICE_TYPES["nslice"]},
        "functions": [
            {"module": "odc/geo/math.py", "py": "split_float", "lean": "split_float",
             "params": [["x", "float"]], "ret": "tuple[float,float]",
             "model": "OdcGeo.C03.splitFloat", "tie": "tie_split_float"},
            {"module": "odc/geo/math.py", "py": "maybe_int", "lean": "maybe_int",
             "params": [["x", "float"], ["tol", "float"]], "ret": "float", "gen": {"tol": "tol"},
             "model": "OdcGeo.C03.maybeInt", "tie": "tie_maybe_int"},
            {"module": "odc/geo/math.py", "py": "is_almost_int", "lean": "is_almost_int",
             "params": [["x", "float"], ["tol", "float"]], "ret": "bool", "gen": {"tol": "tol"},
             "model": "OdcGeo.C03.isAlmostInt", "tie": "tie_is_almost_int"},
            {"module": "odc/geo/overlap.py", "py": "_pick_read_scale", "lean": "pick_read_scale",
             "params": [["scale", "float"], ["tol", "float"]], "ret": "int", "gen": {"tol": "tol"},
             "model": "OdcGeo.C03.pickReadScale", "tie": "tie_pick_read_scale"},
            {"module": "odc/geo/overlap.py", "py": "compute_axis_overlap", "lean": "compute_axis_overlap",
             "params": [["Ns", "int"], ["Nd", "int"], ["s", "float"], ["t", "float"]], "ret": "tuple[nslice,nslice]",
             "gen": {"s": "pow2", "Ns": "nonneg", "Nd": "nonneg"},
             "model": "OdcGeo.C03.axisOverlap", "tie": "tie_compute_axis_overlap"},
        ],
    },
    "C04": {
        "imports": ["OdcGeo.Model.C04"],
        "types": {"nslice": SLICE_TYPES["nslice"]},
        "functions": [
            # closure variable `idx` of both helpers only occurs in the text of the IndexError message
            {"module": "odc/geo/roi.py", "py": "Tiles.__getitem__._slice", "lean": "tiles_slice",
             "params": [["i", "nslice"], ["N", "int"], ["n", "int"]], "ret": "nslice",
             "gen": {"i": "nnslice", "N": "nonneg", "n": "posint"},
             "pycall": "lambda i, N, n: m.Tiles((N, 1), (n, 1))[i, 0:1][0]",
             "model": "OdcGeo.C04.getItem", "tie": "tie_tiles_slice"},
            {"module": "odc/geo/roi.py", "py": "Tiles.tile_shape._sz", "lean": "tiles_sz",
             "params": [["i", "int"], ["n", "int"], ["tile_sz", "int"], ["total_sz", "int"]], "ret": "int",
             "gen": {"i": "smallint", "total_sz": "nonneg", "tile_sz": "posint", "n": "=lambda a: -(-a['total_sz'] // a['tile_sz'])"},
             "pycall": "lambda i, n, tile_sz, total_sz: m.Tiles((total_sz, 1), (tile_sz, 1)).tile_shape((i, 0)).y",
             "model": "OdcGeo.C04.tileShape", "tie": "tie_tiles_sz"},
        ],
    },
}
