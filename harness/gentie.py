"""
Source tie (second, stronger kind of tie between the Lean models and /repo, next to the behavioural correspondence,
which stays the registered tie for every function).

For the properties in GENTIE_READY, `run_tie(R, pid)` — called by check.py before the proof stage —

  1. regenerates `lean/OdcGeo/Gen/Cxx.lean` from the Python source under test (tools/py2lean.py; the tree is
     `$ODC_GEO_REPO` if set, else /repo), written only when the text changes;
  2. builds the tie pieces `OdcGeo.Props.GenCxx.<Piece>` (one compilation unit per tied function or small group;
     `OdcGeo.Props.GenCxx` imports them all): the theorems `tie_<function>` prove every regenerated definition equal
     to the hand model for all inputs, `gen_<theorem>` restate headline property theorems about the regenerated
     definitions.  The pieces that build are added to the property's theorem modules (`common.props_modules`), so the
     audit counts their theorems as obligations, checks their axioms, and the thorough tier re-checks them with
     leanchecker; a lost tie only removes its own piece (and the pieces importing it: the ties of its callers);
  3. validates the translator itself: the generated definitions (run by the Lean interpreter through the generated
     `selfCheck` entry point) and the real Python functions are evaluated on a few hundred generated inputs each —
     including inputs outside the models' domains (zero / negative divisors, half-way values) — and diffed; a passing
     result is cached in `lean/.lake/gentie_selfcheck_Cxx.json` keyed on the sha256 of everything it depends on
     (generated text, prelude, manifest, this file, the python modules of the tied functions, seed, size), so an
     unchanged tree costs about a second; the thorough tier always re-runs it;
  4. when all of that is green on the default tree, keeps the generated text as the *reference*
     `lean/OdcGeo/GenRef/Cxx.lean` (namespace OdcGeo.GenRef.Cxx): definitions proved equal to the hand model.

THE TIE CAN BE LOST WITHOUT THE CODE BEING WRONG (a rewrite uses a construct outside the translated subset, a helper is
renamed / inlined / extracted, an equivalence the proof portfolio cannot see).  So when a function can no longer be
translated, a tie theorem no longer builds, or the self-check differs, the stage does NOT fail the property by itself;
it escalates to a behavioural search:

  * a large differential run (3 000 inputs per affected function in the quick tier, 20 000 in the thorough tier, all
    functions of the property at a lower rate) of the reference definitions `GenRef/Cxx.lean` — i.e. the hand model —
    against the real functions of the tree under test;
  * a differing input is a genuine behaviour change with respect to the model: it is registered as a property-oracle
    failure (`key = source-tie:<function>`), so `Run.finish` prints `VIOLATION property=Cxx replay=<path>` with that
    input (`check.py Cxx --replay <path>` re-evaluates it, see `replay`);
  * no differing input: no VIOLATION.  The evidence records `source_tie.tie_lost = [{function, reason}]`, the line
    `INFO: property=Cxx source tie lost …` is printed, the pieces of the lost ties are left out of this run's proof
    stage (their theorems are not counted as obligations of this run; the other pieces still are), and the claim for those functions falls back to the
    behavioural correspondence, which runs as always; the property's `R.searchers` are also run once (after the main
    run) so that a failing input of the *property* is still looked for around the change.

Concurrency: a check only touches `Gen/Cxx.lean`, `GenRef/Cxx.lean` and `Props/GenCxx.lean` of its own property; two
checks of the same property (e.g. a seeded change evaluated with ODC_GEO_REPO while a normal run is going) are
serialised by a lock file (`lean/.lake/gentie_Cxx.lock`) held until the process exits.  A run against a scratch tree restores the text generated
from the default tree when it exits (no rebuild) and never writes the reference.
"""
from __future__ import annotations

import atexit
import fcntl
import importlib
import os
import random
import re
import shutil
import subprocess
import sys
import tempfile
import time
from fractions import Fraction
from pathlib import Path
from typing import Any, Callable, Dict, List, Optional, Tuple

VERIF = Path(__file__).resolve().parent.parent
LEAN_DIR = VERIF / "lean"

# properties for which the stage is active (enable only after multi-seed quick + one thorough run are green)
GENTIE_READY: List[str] = ["C17", "C20", "C03", "C04", "C16", "C14", "C05"]



def ready(pid: str) -> bool:
    """development aid: VERIF_GENTIE_FORCE=C17,C20 switches the stage on for properties not enabled yet"""
    return pid in GENTIE_READY or pid in os.environ.get("VERIF_GENTIE_FORCE", "").split(",")


_LOST: Dict[str, List[str]] = {}     # pid -> reasons (this process): the tie module is left out of the proof stage
_ACTIVE: Dict[str, bool] = {}        # pid -> every tie piece built green in this process
_GOOD: Dict[str, List[str]] = {}     # pid -> tie pieces that built in this process (these are audited)
_LOCKS: Dict[str, Any] = {}


def _py2lean():
    sys.path.insert(0, str(VERIF / "tools"))
    try:
        return importlib.import_module("py2lean")
    finally:
        sys.path.pop(0)


def tie_module(pid: str) -> str:
    """aggregator: imports every piece"""
    return f"OdcGeo.Props.Gen{pid}"


def tie_file(pid: str) -> Path:
    return LEAN_DIR / "OdcGeo" / "Props" / f"Gen{pid}.lean"


def tie_pieces(pid: str) -> List[str]:
    """the tie theorems live in Props/GenCxx/<Piece>.lean, one compilation unit per tied function or small group, so
    that a lost tie only removes its own theorems (and those of the functions that call it) from a run's obligations"""
    d = LEAN_DIR / "OdcGeo" / "Props" / f"Gen{pid}"
    return [f"OdcGeo.Props.Gen{pid}.{f.stem}" for f in sorted(d.glob("*.lean"))]


def _module_path(m: str) -> Path:
    return LEAN_DIR / (m.replace(".", "/") + ".lean")


def extra_modules(pid: str) -> List[str]:
    """theorem modules the source tie adds to a property (hook of common.props_modules): the pieces that built in this
    run"""
    if not ready(pid) or not tie_pieces(pid):
        return []
    if pid in _GOOD:
        return list(_GOOD[pid])
    if pid in _LOST:
        return []
    return []   # the stage has not run in this process (replay, tools): nothing is claimed


# ----------------------------------------------------------------------------------------------- the stage
def _lock(pid: str):
    if pid in _LOCKS:
        return
    d = LEAN_DIR / ".lake"   # build directory: never committed
    d.mkdir(parents=True, exist_ok=True)
    f = open(d / f"gentie_{pid}.lock", "w")
    fcntl.flock(f, fcntl.LOCK_EX)
    _LOCKS[pid] = f


def _theorem_at(lines: List[str], ln: int) -> Optional[str]:
    for i in range(min(ln, len(lines)) - 1, -1, -1):
        m = re.match(r"\s*(?:theorem|lemma)\s+(\S+)", lines[i])
        if m:
            return m.group(1)
    return None


def _lake_build(mods: List[str]) -> Tuple[int, str]:
    p = subprocess.run(["lake", "build", *mods], cwd=str(LEAN_DIR), capture_output=True, text=True, timeout=3000)
    return p.returncode, p.stdout + p.stderr


def _build_tie(pid: str) -> Tuple[bool, List[str], str, List[str]]:
    """-> (all ok, names of theorems that failed / were not built, log tail, pieces that built)"""
    pieces = tie_pieces(pid)
    rc, log = _lake_build(pieces)
    if rc == 0:
        return True, [], "", pieces
    good: List[str] = []
    failed: List[str] = []
    errs: List[str] = []
    # pieces that logged failures themselves, and the pieces importing them (not built)
    bad = {m for m in pieces if re.search(r"^- " + re.escape(m) + r"$", log, re.M)}
    imports = {m: set(re.findall(r"^import (\S+)$", _module_path(m).read_text(), re.M)) for m in pieces}
    changed = True
    while changed:
        changed = False
        for m in pieces:
            if m not in bad and imports[m] & bad:
                bad.add(m)
                changed = True
    cand = [m for m in pieces if m not in bad]
    fast = bool(bad) and (not cand or _lake_build(cand)[0] == 0)
    for m in pieces:   # which pieces still build (a piece also fails when a piece it imports fails)
        if fast and m in cand:
            good.append(m)
            continue
        if fast:
            rc1, log1 = 1, "\n".join(l for l in log.splitlines() if _module_path(m).as_posix().split("/lean/")[-1] in l)
        else:
            rc1, log1 = _lake_build([m])
        if rc1 == 0:
            good.append(m)
            continue
        src = _module_path(m).read_text().splitlines()
        own = [mm.group(1) for l in src for mm in [re.match(r"\s*theorem\s+(\S+)", l)] if mm]
        located = []
        for mm in re.finditer(r"error: (\S+?):(\d+):(\d+):", log1):
            f, ln = mm.group(1), int(mm.group(2))
            if _module_path(m).as_posix().endswith(f):
                t = _theorem_at(src, ln)
                if t and t not in located:
                    located.append(t)
        for t in (located or own):
            name = f"OdcGeo.{pid}.{t}"
            if name not in failed:
                failed.append(name)
        if not located:  # not built because an imported piece failed (or the generated file does not compile)
            errs.append(f"{m}: not built (an imported module failed)")
        errs += [l for l in log1.splitlines() if l.startswith("error:") and "build failed" not in l][:3]
    return False, failed or ["(build failed without a located error)"], "\n".join(dict.fromkeys(errs))[-2500:], good


def run_tie(R, pid: str) -> None:
    if not ready(pid):
        return
    t0 = time.time()
    p2l = _py2lean()
    _lock(pid)
    targets = p2l.load_targets()
    if pid not in targets:
        return
    scratch = bool(os.environ.get("ODC_GEO_REPO"))
    reg = p2l.regenerate(pid, targets)
    if scratch:
        atexit.register(_restore_default, pid)
        _exit_cleanly_on_sigterm()
    entries = targets[pid]["functions"]
    info: Dict[str, Any] = {
        "generated_file": str(Path(reg["path"]).relative_to(VERIF)),
        "source_tree": reg["repo"],
        "regenerated_text_changed": reg["changed"],
        "functions": [{k: f[k] for k in ("py", "module", "lean", "src_sha256", "raises")} for f in reg["functions"] if not f["error"]],
        "tie_theorems": [f"OdcGeo.{pid}.{e['tie']}" for e in entries if e.get("tie")],
    }
    lost: List[Dict[str, str]] = []   # {function, reason}
    for f in reg["functions"]:
        if f["error"]:
            lost.append({"function": f["py"], "reason": "can no longer be translated: " + f["error"]})
    tb = time.time()
    ok, failed, log, good = _build_tie(pid)
    _GOOD[pid] = good
    info["build_s"] = round(time.time() - tb, 2)
    info["tie_pieces"] = {"built": len(good), "of": len(tie_pieces(pid))}
    if not ok:
        info["failed_theorems"] = failed
        info["build_errors"] = log
        by_thm = {f"OdcGeo.{pid}.{e['tie']}": e["py"] for e in entries if e.get("tie")}
        named = [by_thm[t] for t in failed if t in by_thm]
        for fn in named:
            if not any(l["function"] == fn for l in lost):
                lost.append({"function": fn, "reason": "tie theorem no longer builds (or a tie it uses does not)"})
        if not lost:
            lost.append({"function": "*", "reason": "tie theorems no longer build: " + ", ".join(failed)})
    # differential self-check of the translator (needs the generated file to compile)
    ts = time.time()
    per_fn = 120 if R.quick else 600
    ckey = _self_check_key(pid, targets, R.seed, per_fn)
    sc = _cache_get(pid, ckey) if R.quick else None   # the thorough tier always re-runs it
    if sc is None:
        try:
            sc = self_check(pid, targets, R.seed, per_fn)
        except Exception as e:  # pylint: disable=broad-except
            sc = {"error": f"{type(e).__name__}: {e}"}
        if not sc.get("diffs") and not sc.get("error") and not sc.get("skipped"):
            _cache_put(pid, ckey, sc)
    info["self_check_s"] = round(time.time() - ts, 2)
    info["self_check"] = {k: v for k, v in sc.items() if k != "diffs"}
    if sc.get("diffs"):
        d = sc["diffs"][:5]
        info["self_check"]["first_diffs"] = d
        for fn in sorted({x["input"].split(" ")[0] for x in sc["diffs"]}):
            py = next((e["py"] for e in entries if e["lean"] == fn), fn)
            if not any(l["function"] == py for l in lost):
                lost.append({"function": py, "reason": "translator self-check: generated definition and real function differ, e.g. "
                             + str(next(x for x in sc["diffs"] if x["input"].split(" ")[0] == fn))})
    elif sc.get("error") and ok:
        lost.append({"function": "*", "reason": "translator self-check could not run: " + sc["error"][:300]})

    # a piece whose function is lost for another reason (self-check difference) is not audited either
    lost_thms = {e["tie"] for e in entries if e.get("tie") and any(l["function"] in (e["py"], "*") for l in lost)}
    if lost_thms:
        keep = []
        for m in _GOOD.get(pid, []):
            text = _module_path(m).read_text()
            if not any(re.search(r"\b" + re.escape(t) + r"\b", text) for t in lost_thms):
                keep.append(m)
        _GOOD[pid] = keep
        info["tie_pieces"]["audited"] = len(keep)
    status = "tied"
    if not lost:
        _ACTIVE[pid] = True
        if not scratch:
            _save_reference(pid)
    else:
        # the tie is lost for some function: escalate to a behavioural search before saying anything
        _LOST[pid] = [f"{l['function']}: {l['reason']}" for l in lost]
        te = time.time()
        focus = [e["lean"] for e in entries if any(l["function"] in (e["py"], "*") for l in lost)]
        try:
            esc = escalated_search(pid, targets, R.seed, focus, 3000 if R.quick else 20000, 300 if R.quick else 2000)
        except Exception as e:  # pylint: disable=broad-except
            esc = {"error": f"{type(e).__name__}: {e}", "diffs": []}
        info["escalated_search"] = {k: v for k, v in esc.items() if k != "diffs"}
        info["escalated_search"]["wall_s"] = round(time.time() - te, 2)
        info["tie_lost"] = lost
        if esc.get("diffs"):
            status = "violated"
            seen = set()
            for d in esc["diffs"]:
                fn = d["input"].split(" ")[0]
                if fn in seen:
                    continue
                seen.add(fn)
                py = next((e["py"] for e in entries if e["lean"] == fn), fn)
                R.oracle(False, f"source-tie:{py}", {"kind": "source-tie-differential", "function": py, "lean": fn, **d},
                         f"{py}: the code under test returns {d['python']} where the definition proved equal to the hand model "
                         f"returns {d['reference']} (input tokens: {d['input']})")
            info["escalated_search"]["first_diffs"] = esc["diffs"][:5]
        else:
            status = "lost"
            names = ", ".join(l["function"] for l in lost)
            why = "; ".join(dict.fromkeys(l["reason"].split(":")[0] for l in lost))
            print(f"INFO: property={pid} source tie lost for {names} ({why}); no differing input in "
                  f"{esc.get('cases', 0)} differential cases against the reference definitions"
                  + (f" [search error: {esc['error'][:200]}]" if esc.get("error") else "")
                  + "; the behavioural correspondence remains the tie for these functions")
            _run_searchers_after_main(R)
    info["wall_s"] = round(time.time() - t0, 2)
    info["status"] = status
    R.extra["source_tie"] = info
    R.assumptions.append(
        "source tie: tools/py2lean.py and lean/OdcGeo/Gen/PyPrelude.lean (Python semantics of the translated subset), "
        "validated on every run by the differential self-check of the generated definitions against the real functions"
        + ("" if status == "tied" else "; LOST in this run for " + ", ".join(l["function"] for l in lost)
           + " — for these the claim rests on the behavioural correspondence only")
    )
    print(f"source-tie: property={pid} status={status} functions={len(info['functions'])} "
          f"tie_theorems={len(info['tie_theorems'])} self_check_cases={sc.get('cases')} "
          f"lost={[l['function'] for l in lost]} wall={info['wall_s']}s", file=sys.stderr)


def _self_check_key(pid: str, targets: Dict[str, Any], seed: int, per_fn: int) -> str:
    """everything the self-check's outcome depends on: generated text, prelude, manifest, this file, the python
    modules of the tied functions (whole files: wrappers used by `pycall` live there too), seed and size"""
    import hashlib
    import json as _json

    h = hashlib.sha256()
    files = [LEAN_DIR / "OdcGeo" / "Gen" / f"{pid}.lean", LEAN_DIR / "OdcGeo" / "Gen" / "PyPrelude.lean", Path(__file__)]
    repo = Path(os.environ.get("ODC_GEO_REPO") or "/repo")
    files += sorted({repo / e["module"] for e in targets[pid]["functions"]})
    for f in files:
        h.update(str(f.name).encode())
        h.update(f.read_bytes() if f.exists() else b"<missing>")
    h.update(_json.dumps(targets[pid], sort_keys=True, default=str).encode())
    h.update(f"{seed}/{per_fn}/{sys.version_info[:2]}".encode())
    return h.hexdigest()


def _cache_file(pid: str) -> Path:
    return LEAN_DIR / ".lake" / f"gentie_selfcheck_{pid}.json"   # build directory: never committed


def _cache_get(pid: str, key: str) -> Optional[Dict[str, Any]]:
    import json as _json

    try:
        d = _json.loads(_cache_file(pid).read_text())
        r = d.get(key)
        if r is not None:
            return {**r, "cached": True}
    except Exception:  # pylint: disable=broad-except
        pass
    return None


def _cache_put(pid: str, key: str, sc: Dict[str, Any]) -> None:
    import json as _json

    try:
        f = _cache_file(pid)
        try:
            d = _json.loads(f.read_text())
        except Exception:  # pylint: disable=broad-except
            d = {}
        if len(d) > 40:
            d = {}
        d[key] = {k: v for k, v in sc.items() if k != "diffs"} | {"diffs": []}
        f.write_text(_json.dumps(d))
    except Exception:  # pylint: disable=broad-except
        pass


def _run_searchers_after_main(R) -> None:
    """tie lost, nothing found by the differential run: the property's failing-input searchers still get one go after
    the main run (Run.finish only calls them when something is *broken*, which a lost tie is not)"""
    orig = R.finish

    def finish():
        if not R.oracle_failures and not R.proof_break:
            for srch in list(R.searchers):
                try:
                    found = srch(R, [])
                except Exception as e:  # pylint: disable=broad-except
                    R.notes.append(f"source tie: searcher error: {e}")
                    continue
                if found:
                    R.oracle_failures.append({"key": found.get("key", "searcher"), "case": found.get("case"), "what": found.get("what", "")})
                    break
        return orig()

    R.finish = finish


def ref_file(pid: str) -> Path:
    return LEAN_DIR / "OdcGeo" / "GenRef" / f"{pid}.lean"


def _save_reference(pid: str) -> None:
    """the generated text whose ties all built: the executable reference for later escalated searches"""
    p2l = _py2lean()
    text = (LEAN_DIR / "OdcGeo" / "Gen" / f"{pid}.lean").read_text()
    text = text.replace(f"namespace OdcGeo.Gen.{pid}", f"namespace OdcGeo.GenRef.{pid}").replace(
        f"end OdcGeo.Gen.{pid}", f"end OdcGeo.GenRef.{pid}")
    text = text.replace("GENERATED by tools/py2lean.py", "REFERENCE COPY (harness/gentie.py) of the text GENERATED by tools/py2lean.py", 1)
    text = text.replace("-/\nimport", "Kept from the last run in which every tie theorem built: these definitions are proved equal to the hand\n"
                        "model; they are the executable reference of the escalated differential search when a tie is lost.\n-/\nimport", 1)
    p2l.write_if_changed(ref_file(pid), text)


def escalated_search(pid: str, targets: Dict[str, Any], seed: int, focus: List[str], n_focus: int, n_other: int) -> Dict[str, Any]:
    """reference definitions (= hand model, by the tie theorems of the last green run) vs the real functions"""
    if not ref_file(pid).exists():
        return {"cases": 0, "diffs": [], "error": "no reference definitions (lean/OdcGeo/GenRef) yet"}
    p = subprocess.run(["lake", "build", f"OdcGeo.GenRef.{pid}"], cwd=str(LEAN_DIR), capture_output=True, text=True, timeout=3000)
    if p.returncode != 0:
        return {"cases": 0, "diffs": [], "error": "reference definitions do not build: " + (p.stdout + p.stderr)[-300:]}
    per = {e["lean"]: (n_focus if e["lean"] in focus else n_other) for e in targets[pid]["functions"]}
    r = self_check(pid, targets, seed + 17, 0, per_fn_map=per, module=f"OdcGeo.GenRef.{pid}", in_domain_only=True)
    r["diffs"] = [{"input": d["input"], "python": d["python"], "reference": d["generated"]} for d in r.get("diffs", [])]
    r["focus"] = focus
    return r


def replay(R, rec) -> int:
    """check.py Cxx --replay <file> for a `source-tie:` replay: the input on the real code vs the reference definition"""
    case = rec.get("case", {})
    p2l = _py2lean()
    targets = p2l.load_targets()
    pid = rec.get("property", R.prop)
    toks = case["input"].split(" ")
    r = self_check(pid, targets, 0, 0, module=f"OdcGeo.GenRef.{pid}", fixed_lines=[case["input"]])
    now = r.get("fixed_python", ["?"])[0]
    ref = r.get("fixed_generated", ["?"])[0]
    print(f"{case.get('function')}: input tokens {toks[1:]}: code under test -> {now}; reference (= hand model) -> {ref}; "
          f"recorded: {case.get('python')} vs {case.get('reference')}")
    return 1 if now != ref else 0


def _exit_cleanly_on_sigterm() -> None:
    """`timeout` sends SIGTERM: turn it into a normal interpreter exit so that the atexit restore runs.  (SIGKILL cannot
    be caught; then the next run against the default tree finds a text that differs from what it generates and rewrites
    it — `regenerate` compares contents, never timestamps — so a stale file is repaired, only later.)"""
    import signal
    import threading

    if threading.current_thread() is not threading.main_thread():
        return
    try:
        if signal.getsignal(signal.SIGTERM) in (signal.SIG_DFL, None):
            signal.signal(signal.SIGTERM, lambda *_: sys.exit(143))
    except (ValueError, OSError):
        pass


def _restore_default(pid: str):
    """after a run against a scratch tree: put back the text generated from the default tree (no build)"""
    try:
        p2l = _py2lean()
        old = os.environ.pop("ODC_GEO_REPO", None)
        try:
            p2l.regenerate(pid)
        finally:
            if old is not None:
                os.environ["ODC_GEO_REPO"] = old
    except Exception:  # pylint: disable=broad-except
        pass


def hook(R) -> None:
    """check.py calls this before the proof stage; no-op for properties not in GENTIE_READY"""
    if ready(R.prop):
        try:
            run_tie(R, R.prop)
        except Exception as e:  # pylint: disable=broad-except
            # the stage is an additional tie: its own failure must not take the property's check down with it
            import traceback

            _LOST[R.prop] = [f"stage error: {type(e).__name__}: {e}"]
            _GOOD.pop(R.prop, None)
            R.extra["source_tie"] = {"status": "lost", "tie_lost": [{"function": "*", "reason": "stage error: " + traceback.format_exc()[-1500:]}]}
            print(f"INFO: property={R.prop} source tie not established in this run (stage error: {type(e).__name__}: {e}); "
                  "the behavioural correspondence remains the tie")


# ----------------------------------------------------------------------------------------------- self-check
def _err_s(e: BaseException) -> str:
    from .common import err_s

    return err_s(e)


class _Types:
    def __init__(self, p2l, spec):
        self.p2l = p2l
        self.named = spec.get("types", {})
        self.make = {n: eval(s["py_make"]) for n, s in self.named.items() if "py_make" in s}  # pylint: disable=eval-used
        # how the fields of a struct are read back from the real object (default: attribute of the same name)
        self.get = {n: {f: eval(src) for f, src in s.get("py_get", {}).items()} for n, s in self.named.items()}  # pylint: disable=eval-used

    def parse(self, s):
        return self.p2l.parse_type(s, self.named)

    # value generation --------------------------------------------------------------------------
    def gen(self, t, rng: random.Random, kind: Optional[str] = None):
        k = t[0]
        if kind:
            return self.gen_kind(kind, rng)
        if k == "int":
            c = rng.random()
            if c < 0.55:
                return rng.randint(-6, 12)
            if c < 0.85:
                return rng.randint(-300, 300)
            return rng.choice([-1, 1]) * rng.randint(2**31, 2**44)
        if k == "float":
            c = rng.random()
            if c < 0.15:
                return float(rng.randint(-8, 8))
            if c < 0.35:
                return rng.randint(-17, 17) / 2.0  # half-way values
            m = rng.randint(0, 6)
            return rng.randint(-(2**12), 2**12) / float(2**m)
        if k == "nat":
            return rng.randint(0, 9)
        if k == "bool":
            return rng.random() < 0.5
        if k == "none":
            return None
        if k == "opt":
            return None if rng.random() < 0.25 else self.gen(t[1], rng)
        if k == "tuple":
            return tuple(self.gen(x, rng) for x in t[1])
        if k == "list":
            return tuple(self.gen(t[1], rng) for _ in range(rng.randint(0, 4)))  # python side: a tuple
        if k == "struct":
            fs = [(n, self.parse(ty)) for n, ty in self.named[t[1]]["fields"]]
            kinds = self.named[t[1]].get("gen", {})
            return self.make[t[1]](*[self.gen(ft, rng, kinds.get(n)) for n, ft in fs])
        if k in ("xy", "shape2d"):
            from odc.geo.types import Shape2d, ixy_, xy_

            et = ("int",) if k == "shape2d" else t[1]
            a, b = self.gen(et, rng), self.gen(et, rng)
            if k == "shape2d":
                return Shape2d(x=abs(a), y=abs(b))
            return ixy_(a, b) if et == ("int",) else xy_(a, b)
        if k == "intorslice":
            if rng.random() < 0.3:
                return self.gen(("int",), rng)
            oi = ("opt", ("int",))
            return slice(self.gen(oi, rng), self.gen(oi, rng))
        if k == "intorpair":
            kk = self.named[t[1]].get("gen")
            if rng.random() < 0.4:
                return self.gen(("int",), rng, kk)
            return (self.gen(("int",), rng, kk), self.gen(("int",), rng, kk))
        raise ValueError(f"no generator for {t}")

    def gen_kind(self, kind: str, rng: random.Random):
        if kind == "none":
            return None
        if kind == "smallidx":
            from odc.geo.types import ixy_

            return ixy_(rng.randint(-40, 40), rng.randint(-40, 40))
        if kind == "smalltriple":
            return (rng.randint(-1, 4), rng.randint(-1, 6), rng.randint(-1, 6))
        if kind == "pow2int":
            return rng.choice([1, 2, 4, 8, 16, 256])
        if kind == "posint":
            return rng.choice([1, 1, 2, 3, 4, 5, 7, 8, 16, 100, 2**33])
        if kind == "nonneg":
            return rng.choice([0, 0, 1, 2, 3, 5, 17, 256, 1000, 2**35])
        if kind == "smallint":
            return rng.randint(-5, 20)
        if kind == "pow2":
            return rng.choice([-1, 1, 1, 1]) * 2.0 ** rng.randint(-4, 4)
        if kind == "pospow2":
            return 2.0 ** rng.randint(-4, 4)
        if kind == "tol":
            return rng.choice([0.0, 2.0**-20, 2.0**-10, 2.0**-4, 0.25, 0.5, 1.0, -0.125])
        if kind == "unit":
            return rng.choice([0.0, 0.0, 0.5, 0.25, 0.75, 0.125, 1.0, -0.5])
        if kind == "optunit":
            return None if rng.random() < 0.3 else self.gen_kind("unit", rng)
        if kind == "offsets":
            out, acc = [0], 0
            for _ in range(rng.randint(0, 5)):
                acc += rng.randint(0, 40)
                out.append(acc)
            return tuple(out)
        if kind == "nnslice":
            return slice(rng.randint(0, 9), rng.randint(0, 12))
        if kind == "pm1":
            return rng.choice([1, -1])
        if kind == "dir":
            return rng.choice([1, -1, 1, -1, 0, 2])
        raise ValueError(f"unknown generator kind {kind}")

    # tokens ------------------------------------------------------------------------------------
    def dec(self, t, toks: List[str]):
        """inverse of enc: -> (python value, remaining tokens)"""
        k = t[0]
        if k in ("int", "nat"):
            return int(toks[0]), toks[1:]
        if k == "float":
            return float(Fraction(toks[0])), toks[1:]
        if k == "bool":
            return toks[0] == "T", toks[1:]
        if k == "none":
            return None, toks[1:]
        if k == "opt":
            if toks[0] == "N":
                return None, toks[1:]
            return self.dec(t[1], toks[1:])
        if k == "tuple":
            out = []
            for tt in t[1]:
                v, toks = self.dec(tt, toks)
                out.append(v)
            return tuple(out), toks
        if k == "list":
            n, toks = int(toks[0]), toks[1:]
            out = []
            for _ in range(n):
                v, toks = self.dec(t[1], toks)
                out.append(v)
            return tuple(out), toks
        if k == "struct":
            vals = []
            for _, ft in self.named[t[1]]["fields"]:
                v, toks = self.dec(self.parse(ft), toks)
                vals.append(v)
            return self.make[t[1]](*vals), toks
        if k in ("xy", "shape2d"):
            from odc.geo.types import Shape2d, ixy_, xy_

            et = ("int",) if k == "shape2d" else t[1]
            a, toks = self.dec(et, toks)
            b, toks = self.dec(et, toks)
            if k == "shape2d":
                return Shape2d(x=a, y=b), toks
            return (ixy_(a, b) if et == ("int",) else xy_(a, b)), toks
        if k == "intorslice":
            if toks[0] == "i":
                return int(toks[1]), toks[2:]
            oi = ("opt", ("int",))
            a, toks = self.dec(oi, toks[1:])
            b, toks = self.dec(oi, toks)
            return slice(a, b), toks
        if k == "intorpair":
            if toks[0] == "i":
                return int(toks[1]), toks[2:]
            return (int(toks[1]), int(toks[2])), toks[3:]
        raise ValueError(f"no decoding for {t}")

    def enc(self, t, v) -> List[str]:
        k = t[0]
        if k in ("int", "nat"):
            if isinstance(v, bool) or int(v) != v:
                raise TypeError(f"not an int: {v!r}")
            return [str(int(v))]
        if k == "float":
            f = Fraction(v)
            return [str(f.numerator) if f.denominator == 1 else f"{f.numerator}/{f.denominator}"]
        if k == "bool":
            if not isinstance(v, (bool,)) and type(v).__name__ != "bool_" and type(v).__name__ != "bool":
                raise TypeError(f"not a bool: {v!r}")
            return ["T" if v else "F"]
        if k == "none":
            if v is not None:
                raise TypeError(f"not None: {v!r}")
            return ["U"]
        if k == "opt":
            return ["N"] if v is None else ["S"] + self.enc(t[1], v)
        if k == "tuple":
            vs = tuple(v)
            if len(vs) != len(t[1]):
                raise TypeError(f"tuple length {len(vs)} for {t}")
            out: List[str] = []
            for x, tt in zip(vs, t[1]):
                out += self.enc(tt, x)
            return out
        if k == "list":
            out = [str(len(v))]
            for x in v:
                out += self.enc(t[1], x)
            return out
        if k == "struct":
            out = []
            for n, ty in self.named[t[1]]["fields"]:
                g = self.get.get(t[1], {}).get(n)
                out += self.enc(self.parse(ty), g(v) if g else getattr(v, n))
            return out
        if k in ("xy", "shape2d"):
            et = ("int",) if k == "shape2d" else t[1]
            return self.enc(et, v.x) + self.enc(et, v.y)
        if k == "intorpair":
            if isinstance(v, tuple):
                return ["p"] + self.enc(("int",), v[0]) + self.enc(("int",), v[1])
            return ["i"] + self.enc(("int",), v)
        if k == "intorslice":
            if isinstance(v, slice):
                oi = ("opt", ("int",))
                return ["s"] + self.enc(oi, v.start) + self.enc(oi, v.stop)
            return ["i"] + self.enc(("int",), v)
        raise ValueError(f"no encoding for {t}")


CALL_TIMEOUT_S = 2


class _Timeout(Exception):
    pass


def _with_timeout(fn, args):
    """call the real function; a call that does not return (a changed loop condition) must not hang the check"""
    import signal
    import threading

    if threading.current_thread() is not threading.main_thread():
        return fn(*args)

    def on_alarm(signum, frame):
        raise _Timeout()

    old = signal.signal(signal.SIGALRM, on_alarm)
    signal.setitimer(signal.ITIMER_REAL, CALL_TIMEOUT_S)
    try:
        return fn(*args)
    finally:
        signal.setitimer(signal.ITIMER_REAL, 0)
        signal.signal(signal.SIGALRM, old)


def _real_function(e, ty):
    mod = importlib.import_module(e["module"][:-3].replace("/", "."))
    if e.get("pycall"):
        return eval(e["pycall"], {"m": mod, "ty": ty, "Fraction": Fraction})  # pylint: disable=eval-used
    fn = mod
    for part in e["py"].split("."):
        fn = getattr(fn, part)
    return fn


def _call_real(fn, args, ty, rt) -> Optional[str]:
    """canonical tokens of the real result; None = outside the modelled domain"""
    try:
        return " ".join(ty.enc(rt, _with_timeout(fn, args)))
    except _Timeout:
        return f"NO-RETURN-WITHIN-{CALL_TIMEOUT_S}s"  # e.g. a loop that no longer terminates
    except (TypeError, OverflowError) as ex:
        if isinstance(ex, TypeError) and "not a" in str(ex):
            return f"UNEXPECTED-TYPE {ex}"
        return None  # e.g. None where a number is required
    except Exception as ex:  # pylint: disable=broad-except
        return _err_s(ex)


def self_check(pid: str, targets: Dict[str, Any], seed: int, per_fn: int, per_fn_map: Optional[Dict[str, int]] = None,
               module: Optional[str] = None, in_domain_only: bool = False,
               fixed_lines: Optional[List[str]] = None) -> Dict[str, Any]:
    """Lean definitions of `module` (default: the generated ones; interpreted) vs the real Python functions.
    `in_domain_only`: only inputs satisfying the manifest's `domain` predicate of the function (the precondition of its
    tie theorem) — used by the escalated search, where the Lean side stands for the hand model."""
    p2l = _py2lean()
    spec = targets[pid]
    ty = _Types(p2l, spec)
    module = module or f"OdcGeo.Gen.{pid}"
    rng = random.Random(seed * 7919 + 104729 + int(pid[1:]))  # own stream: the harness's R.rng is not touched
    lean_text = (LEAN_DIR / (module.replace(".", "/") + ".lean")).read_text()
    lines: List[str] = []
    want: List[str] = []
    per: Dict[str, int] = {}
    skipped: Dict[str, str] = {}
    by_lean = {e["lean"]: e for e in spec["functions"]}
    if fixed_lines is not None:
        for ln in fixed_lines:
            toks = ln.split(" ")
            e = by_lean[toks[0]]
            fn = _real_function(e, ty)
            rest = toks[1:]
            args = []
            for _, t in e["params"]:
                v, rest = ty.dec(ty.parse(t), rest)
                args.append(v)
            out = _call_real(fn, args, ty, ty.parse(e["ret"]))
            lines.append(ln)
            want.append("OUTSIDE-DOMAIN" if out is None else out)
    else:
        for e in spec["functions"]:
            if e.get("selfcheck") is False or f"-- UNTRANSLATABLE {e['py']}:" in lean_text or f"-- ABSENT {e['py']}:" in lean_text:
                continue
            count = per_fn_map.get(e["lean"], 0) if per_fn_map is not None else per_fn
            if count <= 0:
                continue
            try:
                fn = _real_function(e, ty)
            except Exception as ex:  # pylint: disable=broad-except
                skipped[e["lean"]] = f"real function not reachable: {type(ex).__name__}: {ex}"
                continue
            ptypes = [(n, ty.parse(t)) for n, t in e["params"]]
            rt = ty.parse(e["ret"])
            kinds = e.get("gen", {})
            dom = eval(e["domain"]) if (in_domain_only and e.get("domain")) else None  # pylint: disable=eval-used
            n = 0
            for _ in range(count):
                vals = {nm: ty.gen(t, rng, kinds.get(nm)) for nm, t in ptypes if not str(kinds.get(nm, "")).startswith("=")}
                for nm, t in ptypes:  # derived parameters: "=<lambda over the dict of the generated ones>"
                    if nm not in vals:
                        vals[nm] = eval(kinds[nm][1:])(vals)  # pylint: disable=eval-used
                if dom is not None and not dom(vals):
                    continue
                args = [vals[nm] for nm, _ in ptypes]
                toks: List[str] = [e["lean"]]
                for (nm, t), a in zip(ptypes, args):
                    toks += ty.enc(t, a)
                out = _call_real(fn, args, ty, rt)
                if out is None:
                    continue
                lines.append(" ".join(toks))
                want.append(out)
                n += 1
                if out.startswith("NO-RETURN-WITHIN"):
                    break  # one such input is enough; do not spend the budget on further hanging calls
            per[e["lean"]] = n
    base = {"cases": len(lines), "per_function": per, "diffs": []}
    if skipped:
        base["skipped"] = skipped
    if not lines:
        return base
    tmp = Path(tempfile.mkdtemp(prefix="gentie_"))
    try:
        runner = tmp / f"SelfCheck{pid}.lean"
        runner.write_text(f"import {module}\ndef main : IO Unit := OdcGeo.Gen.Py.checkMain {module}.selfCheck\n")
        p = subprocess.run(["lake", "env", "lean", "--run", str(runner)], cwd=str(LEAN_DIR), input="\n".join(lines) + "\n",
                           capture_output=True, text=True, timeout=1200)
    finally:
        shutil.rmtree(tmp, ignore_errors=True)
    if p.returncode != 0:
        return {**base, "error": (p.stdout + p.stderr)[-600:]}
    got = p.stdout.split("\n")
    if got and got[-1] == "":
        got.pop()
    if len(got) != len(lines):
        return {**base, "error": f"{len(got)} answers for {len(lines)} inputs"}
    if fixed_lines is not None:
        return {**base, "fixed_python": want, "fixed_generated": got}
    diffs = [{"input": l, "python": w, "generated": g} for l, w, g in zip(lines, want, got) if w != g]
    return {**base, "diffs": diffs, "errors_exercised": sum(1 for w in want if w.startswith("ERR:"))}


def main() -> int:
    """python3 -m harness.gentie [C17 ...]   regenerate + build the tie modules (used by tools/setup.py)"""
    p2l = _py2lean()
    targets = p2l.load_targets()
    pids = [a.upper() for a in sys.argv[1:]] or list(GENTIE_READY)
    rc = 0
    for pid in pids:
        _lock(pid)
        reg = p2l.regenerate(pid, targets)
        for f in reg["functions"]:
            if f["error"]:
                print(f"{pid}: UNTRANSLATABLE {f['error']}", file=sys.stderr)
                rc = 1
        ok, failed, log, _good = _build_tie(pid)
        print(f"{pid}: regenerated ({'changed' if reg['changed'] else 'unchanged'}), tie pieces {'built' if ok else 'FAILED: ' + ', '.join(failed)}")
        if not ok:
            print(log, file=sys.stderr)
            rc = 1
        elif not any(f["error"] for f in reg["functions"]) and not os.environ.get("ODC_GEO_REPO"):
            _save_reference(pid)
            subprocess.run(["lake", "build", f"OdcGeo.GenRef.{pid}"], cwd=str(LEAN_DIR), capture_output=True, text=True)
    return rc


if __name__ == "__main__":
    sys.exit(main())
