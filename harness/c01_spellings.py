"""
CRS *spelling / type* dimension shared by the C01 and C07 harnesses.

Every place of odc-geo that takes a CRS accepts: int, 'EPSG:n', 'epsg:n', WKT1 / WKT2 strings, PROJ strings, PROJJSON
strings, PROJ dicts, pyproj.CRS, odc CRS, and *foreign* objects — rasterio.crs.CRS or anything duck-typed with
`to_wkt()` (possibly also `to_epsg()`, `to_string()`).  `to_epsg()` of rasterio / GDAL / pyproj is a fuzzy best match,
so the pool contains "near-EPSG" systems (an EPSG CRS with a +towgs84 override, datum-less variants, other units, other
axis order) whose fuzzy code names a *different* CRS.

The independent identity of a specification never goes through odc-geo: it is the pyproj CRS parsed from the text /
dict itself, or from the foreign object's own `to_wkt()`; two specifications denote the same CRS iff those pyproj
objects are exactly equal.
"""
from __future__ import annotations

from typing import Any, Callable, Dict, List, Optional, Tuple

# (label, definition, code that a fuzzy to_epsg() reports for it, lon/lat region where it is usable)
NEAR_EPSG = [
    ("32633", "EPSG:32633", 32633, (12.5, 40.0, 17.5, 55.0)),
    ("utm33-towgs84", "+proj=utm +zone=33 +ellps=WGS84 +towgs84=100,100,100,0,0,0,0 +units=m +no_defs", 32633,
     (12.5, 40.0, 17.5, 55.0)),
    ("utm33-km", "+proj=utm +zone=33 +datum=WGS84 +units=km +no_defs", 32633, (12.5, 40.0, 17.5, 55.0)),
    ("utm33-intl", "+proj=utm +zone=33 +ellps=intl +units=m +no_defs", 32633, (12.5, 40.0, 17.5, 55.0)),
    ("27700", "EPSG:27700", 27700, (-5.0, 50.5, 1.0, 56.0)),
    ("airy-tm", "+proj=tmerc +lat_0=49 +lon_0=-2 +k=0.9996012717 +x_0=400000 +y_0=-100000 +ellps=airy +units=m +no_defs",
     27700, (-5.0, 50.5, 1.0, 56.0)),
    ("4326", "EPSG:4326", 4326, (12.5, 40.0, 17.5, 55.0)),
    ("crs84", "OGC:CRS84", 4326, (12.5, 40.0, 17.5, 55.0)),  # other axis order
    ("4326-towgs84", "+proj=longlat +ellps=WGS84 +towgs84=50,60,70,0,0,0,0 +no_defs", 4326, (12.5, 40.0, 17.5, 55.0)),
]


class Duck:
    """a foreign CRS object exposing a chosen subset of {to_wkt, to_epsg, to_string}"""

    def __init__(self, wkt: Optional[str] = None, epsg: Any = "absent", string: Optional[str] = None, hashable: bool = True):
        self._wkt, self._epsg, self._string, self._hashable = wkt, epsg, string, hashable
        if wkt is not None:
            self.to_wkt = lambda *a, **k: self._wkt
        if epsg != "absent":
            self.to_epsg = lambda *a, **k: self._epsg
        if string is not None:
            self.to_string = lambda *a, **k: self._string

    def __hash__(self):
        if not self._hashable:
            raise TypeError("unhashable Duck")
        return id(self)

    def __repr__(self):
        return f"Duck(wkt={'yes' if self._wkt else 'no'}, epsg={self._epsg!r}, string={self._string!r}, hashable={self._hashable})"


class UnhashableDuck(Duck):
    __hash__ = None  # type: ignore


def spellings(label: str, definition: str, near_code: int) -> List[Tuple[str, Callable[[], Any], Any]]:
    """-> [(spelling label, make_spec, independent pyproj identity)] for one CRS definition.
    `make_spec()` builds the object to hand to odc-geo (fresh each time)."""
    import pyproj
    from pyproj.enums import WktVersion

    ref = pyproj.CRS.from_user_input(definition)
    out: List[Tuple[str, Callable[[], Any], Any]] = []

    def add(name, mk, ident):
        out.append((name, mk, ident))

    is_code = definition.upper().startswith("EPSG:")
    if is_code:
        n = int(definition.split(":")[1])
        add("int", lambda: n, pyproj.CRS.from_epsg(n))
        add("EPSG:n", lambda: f"EPSG:{n}", pyproj.CRS.from_epsg(n))
        add("epsg:n", lambda: f"epsg:{n}", pyproj.CRS.from_epsg(n))
    else:
        add("text", lambda: definition, pyproj.CRS.from_user_input(definition))
    wkt2 = ref.to_wkt(version=WktVersion.WKT2_2019)
    add("wkt2", lambda: wkt2, pyproj.CRS.from_wkt(wkt2))
    try:
        wkt1 = ref.to_wkt(version=WktVersion.WKT1_GDAL)
        add("wkt1", lambda: wkt1, pyproj.CRS.from_wkt(wkt1))
    except Exception:  # pylint: disable=broad-except
        wkt1 = None
    try:
        p4 = ref.to_proj4()
        if p4:
            add("proj4", lambda: p4, pyproj.CRS.from_user_input(p4))
            d = pyproj.CRS.from_user_input(p4).to_dict()
            add("dict", lambda: dict(d), pyproj.CRS.from_dict(dict(d)))
    except Exception:  # pylint: disable=broad-except
        pass
    js = ref.to_json()
    add("projjson", lambda: js, pyproj.CRS.from_json(js))
    add("pyproj", lambda: pyproj.CRS.from_wkt(wkt2), pyproj.CRS.from_wkt(wkt2))

    def odc():
        from odc.geo.crs import CRS

        return CRS(CRS(wkt2))

    add("odc", odc, pyproj.CRS.from_wkt(wkt2))
    try:
        import rasterio.crs as rc

        r0 = rc.CRS.from_wkt(wkt1 or wkt2)
        rw = r0.to_wkt()
        add("rasterio", lambda: rc.CRS.from_wkt(wkt1 or wkt2), pyproj.CRS.from_wkt(rw))
    except Exception:  # pylint: disable=broad-except
        pass
    # duck types: identity is what their own to_wkt() says, whatever to_epsg()/to_string() claim
    add("duck[wkt]", lambda: UnhashableDuck(wkt=wkt2), pyproj.CRS.from_wkt(wkt2))
    add("duck[wkt,epsg~]", lambda: UnhashableDuck(wkt=wkt2, epsg=near_code), pyproj.CRS.from_wkt(wkt2))
    add("duck[wkt,epsg~,string]#", lambda: Duck(wkt=wkt2, epsg=near_code, string=f"EPSG:{near_code}"), pyproj.CRS.from_wkt(wkt2))
    add("duck[wkt,epsg=None]", lambda: UnhashableDuck(wkt=wkt2, epsg=None), pyproj.CRS.from_wkt(wkt2))
    return out


def conflicting_duck(has_wkt: bool, has_epsg: bool, has_string: bool, hashable: bool):
    """a foreign object whose three attributes name three DIFFERENT CRSs: tells which one decides the identity"""
    import pyproj

    cls = Duck if hashable else UnhashableDuck
    d = cls(wkt=pyproj.CRS.from_epsg(3857).to_wkt() if has_wkt else None, epsg=4326 if has_epsg else "absent",
            string="EPSG:32633" if has_string else None, hashable=hashable)
    cands = {"wkt": pyproj.CRS.from_epsg(3857), "epsg": pyproj.CRS.from_epsg(4326), "string": pyproj.CRS.from_epsg(32633)}
    return d, cands
