"""C18 — part writers: upload initiated exactly once under every interleaving; sinks honour
their contract (odc/geo/cog/_s3.py, odc/geo/cog/_mpu_fs.py)."""
from __future__ import annotations

import builtins
import io
import itertools
import os
import shutil
import tempfile
from pathlib import Path
from typing import Any, Dict, List, Optional

from .common import Run, guarded, list_s, opt_s, run_driver

META = {
    "claimed": True,
    "text": "Lean 4 theorems about hand-written transition systems of DelayedS3Writer._ensure_init/__call__/finalise "
    "and MultiPartUpload.initiate/write_part/finalise (one atomic step per shared operation: read/write of uploadId, "
    "get_client, lock acquire/release, Variable get/set/delete, storage-client call): for ANY number of threads and "
    "workers and EVERY schedule (invariant proved by induction over the schedule; stutter steps of blocked/finished "
    "threads included) at most one multipart upload is created, no thread fails, every create/upload_part/complete "
    "call carries the one id, the lock is held exactly by the thread inside the critical section; every complete "
    "schedule ends with all threads returned and their parts uploaded (no deadlock), and schedules have at most "
    "14 (18) effective steps per thread - for the in-process variant (after the F5 repair; the code as found "
    "provably fails on a concrete 15-step schedule, local_once_cex) and for the cluster variant (shared Variable + "
    "Lock, per-worker copies).  MPUFileSink.finalise leaves the concatenation of the listed parts in the given "
    "order (empty parts anywhere, any part numbers), removes part files and directory, keep_parts keeps them; "
    "limit accessors return their own keyword or default with max > min (F17/F4 as _cex).  The models are tied to "
    "/repo on every run by running the real code in real threads under a deterministic step-level scheduler and "
    "diffing, per schedule, the sequence of shared operations of every thread, the client calls with their upload "
    "ids, final ids/variable/lock and exceptions with the Lean model: quick = all 7 700 + 15 267 interleavings of "
    "two first writes / a write and a racing finalise at the finest granularity, 3 threads and the cluster variant "
    "with context switches at lock/client/Variable operations, random fine-grained 3-4-thread schedules (34 k "
    "cases); thorough = 3 threads in both variants (about 510 k schedules).  Sink (every size vector over {0,1,3} "
    "for 1..4 parts in both orders, random 1..6 parts with overwrites/permutations/subsets/duplicates/unknown "
    "parts, parts_base placements, keep_parts; about 60 % of the cases under a short-write fault model: every file "
    "the sink opens for writing sits on a raw file that accepts only 1..4096 bytes per write call, as write(2) may, "
    "so an unchecked unbuffered write truncates while buffered writers still produce the right file) and limits (every subset of the four keywords; accessor list by "
    "introspection of the PartsWriter protocol) are compared exactly; an independent two-sided oracle evaluates "
    "the property on every real run.  Histories: earlier phases in the same process / on the same scheduler (a "
    "writer built while no client existed, an in-process attempt, cluster attempts that crashed / were aborted / "
    "finalised; the client appears and disappears between phases) precede the attempt whose interleavings are "
    "explored; the real _dask_client, MultiPartUpload.writer, prep_client, _shared run and `_state`, the scheduler's "
    "variables and locks and the S3 service persist; the oracle is evaluated relative to the attempt (exactly one "
    "upload of its own, nothing under an older id; model: initWithLock / initAfterPrep, local_once_later_attempt, "
    "dist_once_after_prep).  Writers and sinks are also driven through pickle / copy / deepcopy copies (per-worker "
    "copies, copies taken after the first write, finalise through a copy) and every copy must report the "
    "configured limits for every keyword subset.  Cross-process stage (c18_xproc): the writer - unpickled, "
    "prepared or not, or rebuilt from the same arguments - is handed to three child interpreters with distinct "
    "PYTHONHASHSEED; the Variable / Lock names their real first write asks for, _build_name for every prefix and "
    "the dask tokens must agree with the client process and with each other, and the names computed in the "
    "children feed the shared Variable / Lock store of the protocol simulation (model DistN with per-worker names: "
    "dist_once_named, dist_names_cex).  A sequential write / write-through-pickled-copy / finalise-through-deepcopy "
    "also runs on a REAL in-process distributed cluster (real Variable and Lock), and the fakes' call signatures "
    "are compared with the installed library on every run.  One upload object over time (model Seq, theorem "
    "once_after_cancel): every sequence of up to 4 (5) operations over write / finalise / cancel('all') / "
    "cancel(':ALL:') / cancel() / cancel(explicit, possibly stale id), plus a cancel at every position of two full "
    "uploads of the same object, against a storage service with active / completed / aborted uploads that lists "
    "only active ones and rejects dead ids; oracle: a successful cancel('all') or cancel of the current upload "
    "resets the object, the next first write initiates exactly one new upload, nothing later goes under an older "
    "id.  Transient storage errors: a thread's create / upload_part / complete call raises once (fault transitions "
    "in Local / Dist / DistN, covered by the same *_once theorems; a failed complete leaves the shared variable in "
    "place) and the retry runs on another copy; all interleavings at lock/client/Variable granularity.  Several "
    "file sinks alive at once with destinations differing only in suffix / case / directory / a prefix / a hidden "
    "twin, all 20 interleavings of their writes and finalises: each sink must behave as the single-sink model "
    "says it does alone, each destination holds exactly its own bytes and nothing else is left behind.",
    "note": "Trusted: Lean kernel + {propext, Classical.choice, Quot.sound}; the fakes at the client boundary "
    "(S3 client, distributed.get_client/Variable/Lock, the module dict _s3._state and the Lock constructor "
    "_s3.Lock, the open/Path names seen by _mpu_fs under the short-write fault model, an observable uploadId "
    "attribute on a subclass that inherits all methods) and the scheduler; sequentially consistent execution of "
    "the steps.  Runtime behaviour the model cannot exhibit: CPython Lock fairness, the real distributed "
    "Variable/Lock under races (the real in-process cluster stage is sequential), _safe_get timeouts (a spurious None while the variable is set "
    "could initiate twice).  The cluster theorem holds until a finalise has deleted the shared variable "
    "(cleanup_client, its last action): a first write that starts after, or races with, a completed finalise can "
    "fail or initiate a second upload (dist_after_delete_cex; observed on the real code) - excluded by mpu_write, "
    "which feeds finalise with the results of all writes; such runs are compared with the model and judged only up "
    "to the deletion.  _ensure_init(final_write=True) has no caller and is not modelled.  Exhaustive enumeration "
    "covers the stated thread counts only; larger configurations are covered by the theorems, not by the "
    "correspondence.  Growth round: file-system model of MPUFileSink (FS with parts directories keyed by (root, full "
    "destination name); sinks_never_interfere, sink_contract_among_others, parts_dir_injective_on_destinations, "
    "common_parts_base_cex: the same destination NAME under a COMMON parts_base shares one parts directory on the "
    "code as it is - known finding K24, key sink:same-name-under-common-parts-base-collides, printed as "
    "KNOWN-FINDING on every run from one deterministic case; all its interleavings are compared with the model), the link "
    "C18 o C06 (Props/C18C06.lean: mpu_write_to_file_sink - C06.run's writer calls performed on the C18 sink leave "
    "header ++ stream ++ footer and no parts), s3_parse_url / url / dask tokens.  INVENTORY of anchored code not "
    "mirrored by the Lean model: MultiPartUpload.s3_client (botocore session/credentials), read(), upload() and the "
    "mpu_write wiring (C06), list_active's pagination; DelayedS3Writer._ensure_init(final_write=True) (no caller), "
    "_build_name's tokenize (names are abstract per worker; agreement is checked across real interpreter processes), "
    "_safe_get's timeout (a spurious None), _shared's lazy Variable creation race (benign: same name); "
    "MPUFileSink._ensure_dst_file's mkdir race (FileExistsError swallowed), the assert nb == len(data) in __call__ "
    "(short writes are injected on the real code only), rename across file systems, a destination that is itself "
    "named like another sink's parts directory; bytes are letters (no binary content).",
    "technique": "Lean 4 proof over hand model (transition system, invariant by induction over schedules) + "
    "differential correspondence with the real code under a deterministic scheduler",
    "design_ref": "DESIGN.md §4 C18",
}

Q = chr(34) * 2


# ------------------------------------------------------------------ schedules
def sched_line(variant: str, kinds: List[str], workers: Optional[List[int]], fine: List[int], extra: str = "") -> str:
    """`extra`: state the attempt starts in (" P": `_state` already holds a lock object; " N" / " S": the
    shared variable held nothing / a stale id before `prep_client`)"""
    if variant == "local":
        return f"c18 local T {list_s(kinds)} {list_s(fine)}{extra}"
    return f"c18 dist {list_s(kinds)} {list_s(workers)} {list_s(fine)}{extra}"


def named_line(kinds, workers, fine, opts) -> str:
    """model with explicit names (DistN): worker w uses the Variable / Lock names its own interpreter computed;
    a prepared writer ships the Variable, so only the lock name is computed on the worker"""
    xn = opts["xnames"]
    nw = max(workers) + 1
    ids: Dict[str, int] = {}

    def num(name):
        return ids.setdefault(name, len(ids))

    ln = [num("L:" + str(xn[w % len(xn)]["MPULock"])) for w in range(nw)]
    ids = {}
    vn = [num("V:" + (str(xn[w % len(xn)]["MPUpload"]) if opts.get("build_without_client") else "shipped"))
          for w in range(nw)]
    return f"c18 distn {list_s(kinds)} {list_s(workers)} {list_s(vn)} {list_s(ln)} {list_s(fine)}"


def check_run(R: Run, variant: str, kinds, workers, gate: bool, obs: Dict[str, Any], tag: str,
              oracle: bool = True):
    """register the correspondence case of one real run and evaluate the property on it"""
    line = sched_line(variant, kinds, workers, obs["fine"], obs.get("extra", ""))
    if isinstance(gate, dict) and gate.get("xnames") and variant == "dist":
        line = named_line(kinds, workers, obs["fine"], gate)
    outs = obs["outcomes"]
    sig = f"{variant}|{tag}|" + ("raised" if any(o not in ("ok",) for o in outs) else "ok")
    R.corr(line, lambda: obs["text"], sig=sig)
    case = {"variant": variant, "kinds": kinds, "workers": workers, "gate": gate, "schedule": obs["fine"]}
    if obs.get("pre_error"):
        R.oracle(False, f"{variant}:earlier-attempt-raises", case, f"a phase of the history raised {obs['pre_error']}",
                 trivial=True)
    if not oracle:
        pre_delete_oracle(R, variant, case, obs)
        return
    R.oracle(not obs["deadlock"] and obs["lock"] is None and all(o != "running" for o in outs),
             f"{variant}:deadlock-or-lock-left-held", case,
             f"threads {outs}, lock holder {obs['lock']} after a complete schedule", trivial=True)
    faulty = {i for i, k in enumerate(kinds) if "!" in k}  # threads whose own storage call was made to fail
    odd = sorted({o for i, o in enumerate(outs)
                  if o not in ("ok", "running", "AssertionError") and not (i in faulty and o == "TransientError")})
    R.oracle(not odd, f"{variant}:write-raises-{'-'.join(odd) or 'other-exception'}", case,
             f"thread outcomes {outs} ({obs['text'][-200:]})", trivial=True)
    R.oracle(all(o in ("ok", "running") or (i in faulty and o == "TransientError") for i, o in enumerate(outs))
             or bool(odd), f"{variant}:write-fails-in-initiation-race", case,
             f"thread outcomes {outs} ({obs['text'][-200:]})")
    R.oracle(obs["ncreate"] == 1, f"{variant}:not-exactly-one-upload-initiated", case,
             f"create_multipart_upload called {obs['ncreate']} times")
    one = obs["ids"][0] if obs["ids"] else None
    R.oracle(all(u == one for u in obs["used_ids"]), f"{variant}:call-under-other-upload-id", case,
             f"ids returned {obs['ids']}, ids used {obs['used_ids']}")
    ok_parts = True
    for i, kf in enumerate(kinds):
        k = kf.split("!")[0]
        if k == "f":
            want = repr({"Bucket": "bucket", "Key": "some/key.tif", "ETag": "final"})
        else:
            p = int(k[1:])
            want = repr({"PartNumber": p, "ETag": f"etag{p}"})
            # a part is uploaded once per write of it that returned (a write whose own call was made to fail
            # uploads nothing; its retry does)
            n_ok = sum(1 for j, kk in enumerate(kinds) if kk.split("!")[0] == k and outs[j] == "ok")
            ok_parts = ok_parts and sum(1 for (q, _) in obs["uploads"] if q == p) == n_ok
        if outs[i] == "ok":
            ok_parts = ok_parts and obs["results"][i] == want
    R.oracle(ok_parts, f"{variant}:part-not-uploaded-exactly-once", case,
             f"uploads {obs['uploads']} results {obs['results']}", trivial=True)


def pre_delete_oracle(R: Run, variant: str, case, obs):
    """Cluster variant with a finalise racing the first writes: the property is claimed (and
    proved, `dist_once`) up to the moment the finalise deletes the shared variable; evaluate
    it on that prefix of the run."""
    labels = obs["labels"]
    idx = next((i for i, l in enumerate(labels) if l.endswith(":vdel")), len(labels))
    is_call = [l.split(":")[1] in ("create", "upload", "complete") for l in labels]
    ncalls_pre = sum(1 for i in range(idx) if is_call[i])
    calls_pre = obs["calls"][:ncalls_pre]
    ncreate_pre = sum(1 for c in calls_pre if c.startswith("create="))
    ids_pre = [c.split("=", 1)[1] for c in calls_pre]
    last = {}
    for i, l in enumerate(labels):
        last[int(l.split(":")[0])] = i
    failed_pre = [t for t, o in enumerate(obs["outcomes"]) if o not in ("ok", "running") and last.get(t, -1) < idx]
    R.oracle(not failed_pre, f"{variant}:write-fails-before-variable-deleted", case,
             f"threads {failed_pre} raised before the finalise deleted the variable: {obs['outcomes']}")
    R.oracle(ncreate_pre <= 1 and (ncreate_pre == 1 or not calls_pre),
             f"{variant}:not-exactly-one-upload-before-variable-deleted", case,
             f"calls before the deletion: {calls_pre}")
    R.oracle(len(set(ids_pre)) <= 1, f"{variant}:call-under-other-upload-id-before-variable-deleted", case,
             f"calls before the deletion: {calls_pre}")


def schedules(R: Run, xnames=None):
    from . import c18_sched as S

    procs = max(1, min(14, (os.cpu_count() or 2) - 2))
    pool = S.make_pool(procs) if procs > 1 else None  # forked once, before any scheduler thread exists
    try:
        _schedules(R, S, procs, pool, xnames)
    finally:
        if pool is not None:
            pool.terminate()


def _schedules(R: Run, S, procs, pool, xnames=None):
    CW = frozenset(S.COARSE | {"wr"})
    NOGC = frozenset(S.COARSE | {"rd", "wr", "sget"})  # everything but get_client(), which is thread-local
    C2 = frozenset({"acq", "create", "upload", "complete", "vget"})

    hot = {"on": False}

    def failing():
        """a failing input that is not a registered known finding (K24 fires on every run) has been seen"""
        return any(R.match_known(f["key"]) is None for f in R.oracle_failures)

    def early_mismatch(n0):
        """sample this configuration's lines through the driver right away: a changed protocol is noticed
        before the remaining configurations are enumerated at full budget"""
        if R.proof_break or hot["on"]:
            return
        idx = list(range(n0, len(R.lines)))
        idx = idx[:: max(1, len(idx) // 200)][:250]
        try:
            outs = run_driver("C18", [R.lines[i] for i in idx])
        except Exception:  # pylint: disable=broad-except
            return
        if any(R.real[i] != o for i, o in zip(idx, outs)):
            hot["on"] = True

    def exhaustive(variant, kinds, workers, coarse, tag, gate=False, oracle=True):
        # wall-clock valve per configuration, far above what the unchanged protocol needs; once the protocol is
        # known to have changed (failing input or model mismatch), later configurations are only sampled
        budget = 0.3 if failing() else 1.0 if hot["on"] else R.pick(30, 240)
        n0 = len(R.lines)
        obs, truncated = S.enumerate_all(kinds, workers, coarse, procs=procs, gate_fin=gate, budget_s=budget, pool=pool)
        if truncated:
            R.notes.append(f"enumeration truncated for {variant} {kinds} {workers} ({tag}): more interleavings "
                           "than the unchanged protocol has")
        for o in obs:
            check_run(R, variant, kinds, workers, gate, o, tag, oracle)
        R.count(f"schedules:{variant}:{tag}:{'+'.join(kinds)}:{workers}", len(obs))
        early_mismatch(n0)

    def rand(variant, kinds, workers, n, gate=False, oracle=True):
        if failing() or hot["on"]:
            n = min(n, 60)
        seeds = [R.rng.randrange(1 << 60) for _ in range(n)]
        for o in S.random_runs(kinds, workers, seeds, procs=procs, gate_fin=gate, pool=pool):
            check_run(R, variant, kinds, workers, gate, o, "random-fine", oracle)

    # ---- in-process variant: every interleaving of two threads at the finest granularity
    # (the process-wide lock does not exist at the start: its lazy creation is part of the race)
    exhaustive("local", ["w1", "w2"], None, NOGC if R.quick else None, "nogc" if R.quick else "fine")
    # a write racing with a finalise
    exhaustive("local", ["w1", "f"], None, NOGC if R.quick else None, "nogc" if R.quick else "fine")
    exhaustive("local", ["w1", "w2", "f"], None, CW if R.quick else NOGC, "gated", gate=True)  # two writes, then the finalise
    exhaustive("local", ["w3", "w1", "w2"], None, C2 if R.quick else frozenset(C2 | {"ssd", "sset"}), "coarse")
    exhaustive("local", ["w1", "w2", "f"], None, C2 if R.quick else CW, "coarse")  # racing finalise
    # ---- cluster variant
    for workers in ([0, 1], [0, 0]):
        exhaustive("dist", ["w1", "w2"], workers, CW if R.quick else NOGC, "coarse" if R.quick else "nogc")
    for workers in ([0, 1, 1], [0, 0, 1], [0, 1, 2], [0, 0, 0]):
        exhaustive("dist", ["w1", "w2", "f"], workers, S.COARSE if R.quick else CW, "coarse-gated", gate=True)
    # a finalise racing with a first write: correspondence only (see META.note)
    exhaustive("dist", ["w1", "f"], [0, 1], S.COARSE if R.quick else NOGC, "racing-fin", oracle=False)
    exhaustive("dist", ["w1", "f"], [0, 0], S.COARSE if R.quick else CW, "racing-fin", oracle=False)
    if not R.quick:
        for workers in ([0, 1, 1], [0, 0, 0], [0, 1, 2]):
            exhaustive("dist", ["w1", "w2", "w3"], workers, C2, "coarse3")
    # ---- histories: state carried across attempts in one process / on one scheduler.  Earlier phases run
    # sequentially, then every interleaving of the attempt is explored; oracle = the attempt initiates exactly
    # one upload of its own and everything goes under it.  The client appears / disappears between phases.
    HS = S.COARSE if R.quick else CW
    att = lambda client, end, workers=None: {"op": "attempt", "client": client, "parts": [1, 2],  # noqa: E731
                                              "workers": workers, "end": end}
    hist_dist = {
        "asked-before-client-existed": [{"op": "ask", "client": False}],
        "in-process-attempt-first": [att(False, "finalise")],
        "crashed-attempt": [att(True, "crash", [0, 1])],
        "aborted-attempt": [att(True, "abort", [0, 1])],
        "finalised-attempt": [att(True, "finalise", [0, 1])],
        "crashed-twice-then-asked": [att(True, "crash", [0, 0]), att(True, "crash", [1, 0]), {"op": "ask", "client": False}],
    }
    for nm, pre in hist_dist.items():
        exhaustive("dist", ["w1", "w2"], [0, 1], HS, f"hist:{nm}", gate={"pre": pre})
        exhaustive("dist", ["w1", "w2", "f"], [0, 0, 1], S.COARSE, f"hist:{nm}", gate={"pre": pre, "gate": True})
    hist_local = {
        "cluster-attempt-first": [att(True, "crash", [0, 1])],
        "asked-while-client-existed": [{"op": "ask", "client": True}],
        "crashed-in-process-attempt": [att(False, "crash")],
        "finalised-in-process-attempt": [att(False, "finalise"), {"op": "ask", "client": True}],
    }
    for nm, pre in hist_local.items():
        exhaustive("local", ["w1", "w2"], None, HS, f"hist:{nm}", gate={"pre": pre})
        exhaustive("local", ["w1", "w2", "f"], None, S.COARSE, f"hist:{nm}", gate={"pre": pre, "gate": True})
    # ---- transient storage errors: a thread's create / upload_part / complete call raises once; the documented
    # retry (the same step on another copy) runs when the failed attempt has ended
    FS = S.COARSE if R.quick else CW
    exhaustive("local", ["w1!c", "w2"], None, HS, "fault:create")
    exhaustive("local", ["w1!c", "w2!c", "w3"], None, C2 if R.quick else S.COARSE, "fault:create")
    exhaustive("local", ["w1!u", "w2", "w1"], None, FS, "fault:upload+retry", gate={"after": {"2": [0]}})
    exhaustive("local", ["w1", "w2", "f!u", "f"], None, S.COARSE, "fault:complete+retry",
               gate={"gate": True, "after": {"3": [2]}})
    for wk in ([0, 1], [0, 0]):
        exhaustive("dist", ["w1!c", "w2"], wk, HS, "fault:create")
    exhaustive("dist", ["w1!u", "w2", "w1"], [0, 1, 2], FS, "fault:upload+retry", gate={"after": {"2": [0]}})
    exhaustive("dist", ["w1!u", "w2", "w1"], [0, 1, 0], FS, "fault:upload+retry", gate={"after": {"2": [0]}})
    for wk in ([0, 1, 1, 2], [0, 1, 1, 1], [0, 0, 0, 1]):
        exhaustive("dist", ["w1", "w2", "f!u", "f"], wk, S.COARSE, "fault:complete+retry",
                   gate={"gate": True, "after": {"3": [2]}})
    exhaustive("dist", ["w1!c", "w2", "f!u", "f"], [0, 1, 2, 3], S.COARSE, "fault:create+complete+retry",
               gate={"gate": True, "after": {"3": [2]}})
    # ---- names computed by the real code in separate interpreter processes (distinct hash salts) feed the
    # shared Variable / Lock store: worker w uses the names child process w asked for
    if xnames:
        for o in ({"xnames": xnames, "build_without_client": True}, {"xnames": xnames},
                  {"xnames": xnames[::-1], "build_without_client": True, "gate": True}):
            kinds = ["w1", "w2", "f"] if o.get("gate") else ["w1", "w2"]
            wk = [0, 1, 2] if o.get("gate") else [0, 1]
            exhaustive("dist", kinds, wk, HS, "xproc-names" + ("" if o.get("build_without_client") else "-prepared"),
                       gate=o)
        exhaustive("dist", ["w1", "w2"], [0, 1], HS, "built-before-client", gate={"build_without_client": True})
    # ---- copies of the writer: per-worker copies by deepcopy instead of pickle; copies (pickle / deepcopy /
    # copy) taken after the first write and used for later writes and the finalise
    exhaustive("dist", ["w1", "w2"], [0, 1], HS, "copies:deepcopy", gate={"copies": "deepcopy"})
    exhaustive("dist", ["w1", "w2", "f"], [0, 1, 1], S.COARSE, "copies:deepcopy", gate={"copies": "deepcopy", "gate": True})
    for late in (["pickle", "deepcopy", "copy"], ["copy", "pickle", "deepcopy"], ["deepcopy", "copy", "pickle"]):
        o = {"chain": True, "late_clone": [None] + late}
        exhaustive("local", ["w1", "w2", "w3", "f"], None, S.COARSE, "copies:late", gate=o)
        exhaustive("dist", ["w1", "w2", "w3", "f"], [0, 0, 0, 0], S.COARSE, "copies:late", gate=o)
    # ---- random fine-grained schedules of three / four threads, with stutter steps
    n = R.pick(400, 6000)
    rand("local", ["w1", "w2", "w3"], None, n)
    rand("local", ["w2", "f", "w1"], None, n)
    rand("local", ["w1", "w2", "w3", "f"], None, n // 2, gate=True)
    rand("dist", ["w1", "w2", "w3"], [0, 1, 1], n)
    rand("dist", ["w1", "w2", "w3"], [0, 0, 0], n // 2)
    rand("dist", ["w1", "w2", "w3", "f"], [0, 1, 0, 2], n, gate=True)
    rand("dist", ["w1", "f", "w2"], [0, 1, 1], n // 2, oracle=False)


# ------------------------------------------------------------------ one upload object over time (cancel)
def seq_case(R: Run, ops: List[str]):
    from . import c18_sched as S

    out: Dict[str, Any] = {}

    def real():
        out.update(S.run_seq(ops))
        return out["text"]

    R.corr(f"c18 seq {list_s(ops)}", real, sig="seq|" + "".join(sorted({o[0] if o[0] != "c" else "c" for o in ops})))
    if not out:
        return
    case = {"ops": ops}
    last_all = None  # number of uploads created when the last successful cancel("all") returned
    ncreated = 0
    for i, st in enumerate(out["steps"]):
        creates = [c for c in st["calls"] if c.startswith("create=")]
        used = [c.split("=", 1)[1] for c in st["calls"] if c.startswith(("upload:", "complete="))]
        op = st["op"]
        if op in ("ca", "cA") and st["res"] == "ok":
            R.oracle(st["after"] == "" and not st["active"], "seq:cancel-all-does-not-reset", {**case, "at": i},
                     f"after {ops[: i + 1]}: uploadId {st['after']!r}, active uploads {st['active']}")
        if op == "cc" or (op[0] == "c" and op[1:].isdigit() and "id" + op[1:] == st["before"]):
            if st["res"] == "ok" and st["before"]:
                R.oracle(st["after"] == "" and st["before"] not in st["active"], "seq:cancel-current-does-not-reset",
                         {**case, "at": i}, f"after {ops[: i + 1]}: uploadId {st['after']!r}, active {st['active']}")
        if op in ("w", "f"):
            if st["before"] == "":
                ok = len(creates) == 1 and used == [creates[0].split("=", 1)[1]] and st["res"] == "ok"
                R.oracle(ok, "seq:first-write-on-reset-object-not-exactly-one-upload", {**case, "at": i},
                         f"{ops[: i + 1]}: the object was not started; calls {st['calls']}, result {st['res']}")
            else:
                R.oracle(not creates and used == [st["before"]], "seq:write-on-started-object-changes-upload",
                         {**case, "at": i}, f"{ops[: i + 1]}: uploadId was {st['before']}; calls {st['calls']}")
            if last_all is not None:
                fresh = all(int(u[2:]) > last_all for u in used if u.startswith("id"))
                R.oracle(fresh, "seq:call-under-dead-id-after-cancel-all", {**case, "at": i},
                         f"{ops[: i + 1]}: calls {st['calls']} although cancel('all') succeeded when {last_all} "
                         "uploads had been created")
        ncreated += len(creates)
        if op in ("ca", "cA") and st["res"] == "ok":
            last_all = ncreated


def seq_cases(R: Run):
    from . import c18_sched as S

    L = R.pick(4, 5)
    for n in range(1, L + 1):
        for ops in itertools.product(S.SEQ_OPS, repeat=n):
            if n == L and "w" not in ops and "f" not in ops:
                continue
            seq_case(R, list(ops))
    # longer: cancel at every position of two full uploads of the same object
    base = ["w", "w", "f", "w", "w", "f"]
    for c in S.SEQ_OPS[2:]:
        for pos in range(len(base) + 1):
            seq_case(R, base[:pos] + [c] + base[pos:])
            for pos2 in range(pos, len(base) + 1):
                seq_case(R, base[:pos] + [c] + base[pos:pos2] + ["ca"] + base[pos2:])


# ------------------------------------------------------------------ cross-process stage
def xproc_start(R: Run):
    from . import c18_xproc as X

    objs = X.make_objects()
    req = {"mode": "names", "objects": [{k: o[k] for k in ("bucket", "key", "kw", "pickles")} for o in objs]}
    seeds = ["0", "1", str(R.rng.randrange(2, 1 << 32))]
    return {
        "objs": objs, "seeds": seeds,
        "names": [X.spawn(req, hs) for hs in seeds],
        "real": X.spawn({"mode": "realcluster", "bucket": "bucket", "key": "some/key.tif",
                         "kw": {"ContentType": "image/tiff"}}, None),
    }


def xproc_names(R: Run, h) -> Optional[List[Dict[str, str]]]:
    """every interpreter (distinct hash salts; writer unpickled - prepared or not - or rebuilt from the same
    arguments) must ask the scheduler for the same Variable / Lock names and compute the same tokens as the
    client process; returns, per child process, the names its real code asked for"""
    from . import c18_sched as S
    from . import c18_xproc as X

    sig = S.fake_signatures_match()
    R.oracle(all(v["ok"] for v in sig.values()), "harness:fake-distributed-signature-differs", sig,
             f"fake Variable/Lock signatures differ from the installed distributed: {sig}", trivial=True)
    res = [X.collect(p, 90) for p in h["names"]]
    bad = [r for r in res if "infra" in r]
    if bad:
        R.notes.append(f"cross-process stage unavailable: {bad[0]['infra'][:300]}")
        return None
    fields = PREF = ["MPUpload", "MPULock", "token", "mpu_token", "var", "lock"]
    for oi, ob in enumerate(h["objs"]):
        for flavour in ("unprepared", "prepared", "rebuilt"):
            want = {f: ob["parent"][flavour][f] for f in fields}
            got = [{f: r["objects"][oi][flavour][f] for f in fields} for r in res]
            ok = all(g == want for g in got) and want["var"] is not None and want["lock"] is not None
            # ... and the three ways of obtaining the writer agree among themselves
            ok = ok and all(ob["parent"][fl][f] == want[f] for fl in ("unprepared", "prepared", "rebuilt")
                            for f in ("MPUpload", "MPULock", "token", "var", "lock"))
            R.oracle(ok, "dist:shared-name-differs-across-processes",
                     {"bucket": ob["bucket"], "key": ob["key"], "writer": flavour, "hashseeds": h["seeds"]},
                     f"client process: {want}; worker processes (PYTHONHASHSEED {h['seeds']}): {got}")
    # names asked for by the first write of a not prepared writer in each child (first object)
    return [{"MPUpload": r["objects"][0]["unprepared"]["var"], "MPULock": r["objects"][0]["unprepared"]["lock"]}
            for r in res]


def xproc_real(R: Run, h):
    from . import c18_xproc as X

    r = X.collect(h["real"], 120)
    if "infra" in r or (r.get("cluster") or "").startswith("unavailable"):
        R.notes.append(f"real in-process cluster stage unavailable: {str(r)[:300]}")
        return
    calls = r["calls"]
    creates = [c for c in calls if c[0] == "create"]
    ids = {c[-1] for c in calls}
    ok = r["error"] is None and len(creates) == 1 and len(ids) == 1 and \
        sorted(c[1] for c in calls if c[0] == "upload") == [1, 2] and any(c[0] == "complete" for c in calls)
    R.oracle(ok, "dist:real-cluster-protocol-fails", {"stage": "real in-process distributed cluster, sequential "
             "first write / second write through a pickled copy / finalise through a deep copy"},
             f"error {r['error']!r}, storage calls {calls}")


# ------------------------------------------------------------------ file sink
LETTERS = "abcdefghijklmnopqrstuvwxyz"


class _ShortRaw(io.FileIO):
    """Raw file whose write() accepts at most `limit` bytes per call and reports how many it
    took - the documented behaviour of write(2) for huge (> 0x7ffff000 bytes) or interrupted
    writes, scaled down.  Buffered writers loop until everything is written, so correct code
    still produces the right file; a single unchecked raw write truncates."""

    limit = 2

    def write(self, b):
        mv = memoryview(b).cast("B")
        return super().write(mv[: self.limit])


def _fault_open(limit: int):
    def fopen(file, mode="r", buffering=-1, encoding=None, errors=None, newline=None, closefd=True, opener=None):
        if "b" in mode and any(c in mode for c in "wax+"):
            raw = _ShortRaw(os.fspath(file), mode.replace("b", ""))
            raw.limit = limit
            if buffering == 0:
                return raw
            size = io.DEFAULT_BUFFER_SIZE if buffering < 0 else max(1, buffering)
            if "+" in mode:
                return io.BufferedRandom(raw, size)
            return io.BufferedWriter(raw, size)
        return builtins.open(file, mode, buffering, encoding, errors, newline, closefd, opener)

    return fopen


class FaultPath(type(Path())):  # module level: copies of a sink holding such paths must pickle
    _fopen = None

    def open(self, mode="r", buffering=-1, encoding=None, errors=None, newline=None):
        return type(self)._fopen(self, mode, buffering, encoding, errors, newline)


class _short_writes:
    """context: every file `odc.geo.cog._mpu_fs` opens for writing (through `open` or
    `Path.open`) sits on a `_ShortRaw`; nothing in odc-geo is edited"""

    def __init__(self, limit: Optional[int]):
        self.limit = limit

    def __enter__(self):
        if self.limit is None:
            return self
        from odc.geo.cog import _mpu_fs

        fopen = _fault_open(self.limit)
        FaultPath._fopen = staticmethod(fopen)
        self._mod = _mpu_fs
        self._old_path = _mpu_fs.Path
        _mpu_fs.open = fopen
        _mpu_fs.Path = FaultPath
        return self

    def __exit__(self, *exc):
        if self.limit is not None:
            del self._mod.open
            self._mod.Path = self._old_path
        return False


def sink_case(R: Run, root: Path, writes, plist, keep: bool, base_kind: str, tag: str,
              short: Optional[int] = None, copy_how: Optional[str] = None, copy_when: str = "before"):
    """writes: list of (part, str) in write order; plist: part numbers handed to finalise;
    short: None, or the number of bytes a raw write accepts per call (short-write fault model);
    copy_how: None, or "pickle" | "copy" | "deepcopy": the parts are written and the file is finalised through
    copies of the sink, taken before its first use or after its first write"""
    from odc.geo.cog._mpu_fs import MPUFileSink

    work = Path(tempfile.mkdtemp(dir=root))
    dst = work / "out" / "result.bin"
    dst.parent.mkdir()
    base = {"none": None, "dir": work / "elsewhere", "nested": work / "a" / "b"}[base_kind]
    if base_kind == "dir":
        base.mkdir()
    line = (f"c18 sink T {list_s([f'{p}:{d}' for p, d in writes])} {list_s(plist)} "
            f"{'T' if keep else 'F'}")
    state: Dict[str, Any] = {}

    def real():
        with _short_writes(short):
            return real_()

    def real_():
        from .c18_sched import clone

        sink = MPUFileSink(dst, parts_base=base)
        orig = sink
        recs: Dict[int, Dict[str, Any]] = {}
        pdir = None
        for i, (p, d) in enumerate(writes):
            if copy_how and ((copy_when == "before" and i == 0) or (copy_when == "after" and i == 1)):
                sink = clone(orig, copy_how)
            r = sink(p, d.encode())
            assert r["PartNumber"] == p and r["Size"] == len(d)
            recs[p] = r
            pdir = Path(r["Path"]).parent
        if pdir is None:
            pdir = (dst.parent if base is None else base) / f".{dst.name}.parts"
        state["pdir"] = pdir
        parts = [recs.get(p, {"PartNumber": p, "Path": str(pdir / f"p{p:04d}.bin"), "Size": 0}) for p in plist]
        err = "ok"
        if copy_how:
            sink = clone(sink, copy_how)  # the finalise task gets its own copy
        try:
            out = sink.finalise(parts, keep_parts=keep)
            assert Path(out) == dst
        except AssertionError:
            err = "ERR:AssertionError"
        except FileNotFoundError:
            err = "ERR:FileNotFoundError"
        except ValueError:
            err = "ERR:ValueError"
        except OSError:
            err = "ERR:OSError"
        content = dst.read_bytes().decode() if dst.exists() else None
        left = []
        if pdir.exists():
            for f in sorted(pdir.iterdir()):
                left.append((int(f.name[1:-4]), f.read_bytes().decode()))
        left.sort()
        state.update(err=err, content=content, left=left, dir=pdir.exists())
        return (f"{err} ; dst{'N' if content is None else '=' + content} ; "
                f"parts={list_s([f'{p}:{d}' for p, d in left])} ; dir={'T' if pdir.exists() else 'F'}")

    R.corr(line, real, sig=f"sink|{tag}|keep={keep}|{base_kind}|{'short-writes' if short else 'plain'}"
           + (f"|via-{copy_how}-{copy_when}" if copy_how else ""))
    # ---- property oracle (no model): listed parts distinct and all written
    last = dict(writes)
    if state and plist and len(set(plist)) == len(plist) and all(p in last for p in plist):
        case = {"writes": writes, "parts": plist, "keep": keep, "base": base_kind, "short_write": short,
                "copy_how": copy_how, "copy_when": copy_when}
        want = "".join(last[p] for p in plist)
        complete = set(plist) == set(last)
        okerr = state["err"] == "ok" or (state["err"] == "ERR:OSError" and not keep and not complete)
        R.oracle(okerr, "sink:finalise-raises", case, f"finalise raised {state['err']} (dst={state['content']!r})")
        R.oracle(state["content"] == want, "sink:destination-not-concatenation", case,
                 f"destination {state['content']!r}, expected {want!r}")
        if complete and not keep:
            R.oracle(not state["dir"], "sink:parts-dir-not-removed", case, f"left {state['left']}")
        if keep:
            wl = sorted((p, last[p]) for p in last if p != plist[0])
            R.oracle(state["left"] == wl, "sink:keep-parts-lost", case, f"left {state['left']} expected {wl}")
    shutil.rmtree(work, ignore_errors=True)


def sink_cases(R: Run, root: Path):
    from odc.geo.cog._mpu_fs import MPUFileSink

    rng = R.rng

    def data(n):
        return "".join(rng.choice(LETTERS) for _ in range(n))

    sizes = [0, 1, 3]
    # exhaustive: n parts (1..4), every size vector, given order / reversed, keep, placement cycling
    k = 0
    for n in range(1, 5):
        for sv in itertools.product(sizes, repeat=n):
            nums = list(range(1, n + 1))
            writes = [(p, data(s)) for p, s in zip(nums, sv)]
            for order in (nums, nums[::-1]):
                for keep in (False, True):
                    k += 1
                    sink_case(R, root, writes, list(order), keep, ("none", "dir", "nested")[k % 3],
                              "all-parts" + ("|empty-part" if 0 in sv else ""), short=(None, 1, 2, None, 5)[k % 5],
                              copy_how=(None, "pickle", None, "deepcopy", None, "copy", None)[k % 7],
                              copy_when=("before", "after")[(k // 7) % 2])
    # random: 1..6 parts, arbitrary part numbers, overwrites, permutations, subsets, duplicates, unknown parts
    for _ in range(R.pick(300, 3000)):
        n = rng.randint(1, 6)
        nums = rng.sample([1, 2, 3, 4, 5, 6, 7, 9, 10, 17, 9999, 10000, 12345], n)
        writes = [(p, data(rng.choice([0, 0, 1, 2, 5, 17, 40]))) for p in nums]
        if rng.random() < 0.3:
            writes.append((rng.choice(nums), data(rng.choice([0, 4]))))
        kind = rng.choice(["perm", "perm", "subset", "dup", "unknown", "empty"])
        plist = list(nums)
        rng.shuffle(plist)
        if kind == "subset":
            plist = plist[: rng.randint(1, n)]
        elif kind == "dup":
            plist.insert(rng.randint(0, len(plist)), rng.choice(plist))
        elif kind == "unknown":
            plist.insert(rng.randint(0, len(plist)), 8)
        elif kind == "empty":
            plist = []
        sink_case(R, root, writes, plist, rng.random() < 0.4, rng.choice(["none", "dir", "nested"]), kind,
                  short=rng.choice([None, None, 1, 3, 16, 4096]),
                  copy_how=rng.choice([None, None, "pickle", "deepcopy", "copy"]), copy_when=rng.choice(["before", "after"]))
    # big parts (several pages) next to an empty one
    big = data(3) * 3000
    sink_case(R, root, [(1, big), (2, ""), (3, big[:5000])], [1, 2, 3], False, "none", "big|empty-part")
    sink_case(R, root, [(1, big[:10]), (2, big), (3, ""), (4, big[:5000])], [1, 2, 3, 4], False, "dir",
              "big|empty-part", short=1000)
    # the replay of F17
    sink_case(R, root, [(1, "abc"), (2, ""), (3, "zz")], [1, 2, 3], False, "none", "all-parts|empty-part")

    # part file placement
    for base_kind in ("none", "dir", "nested"):
        for part in (0, 1, 7, 42, 999, 1000, 9999, 10000, 123456):
            work = Path(tempfile.mkdtemp(dir=root))
            dst = work / "o.tif"
            base = {"none": None, "dir": work / "pb", "nested": work / "x" / "y"}[base_kind]
            R.corr(f"c18 path {work} o.tif {opt_s(base)} {part}",
                   lambda: MPUFileSink(dst, parts_base=base)(part, b"")["Path"], sig=f"path|{base_kind}")
            shutil.rmtree(work, ignore_errors=True)


# ------------------------------------------------------------------ several sinks alive at once
SINK_PAIRS = [
    # (destination A, destination B, parts_base placement): minimal differences between two live sinks
    ("d/dem.tif", "d/dem.msk", None),          # only the suffix differs
    ("d/dem.tif", "d/dem.msk", "common"),
    ("d/a.tif", "d/a.tif.ovr", None),          # one name a prefix of the other
    ("d/a.tif", "d/a.tif.ovr", "common"),
    ("d/A.tif", "d/a.tif", None),              # only the case differs
    ("d/x.tif", "e/x.tif", None),              # only the directory differs
    ("d/x.tif", "e/x.tif", "own"),             # same name under different parts_base
    ("d/x", "d/x.parts", "common"),            # a destination named like a parts directory
    ("d/.x.tif", "d/x.tif", None),             # hidden twin
    ("d/x.tif.parts", "d/.x.tif", "common"),
    ("d/data.tar.gz", "d/data.tar.bz2", None), # double suffix
]


K24_KEY = "sink:same-name-under-common-parts-base-collides"


def multi_sink_case(R: Run, root: Path, a: str, b: str, base_kind, order, keep: bool, datas, collide: bool = False,
                    k24: bool = False):
    """two sinks alive at once; `order` interleaves their operations (0 / 1 = next operation of sink A / B, each
    doing write 1, write 2, finalise).  Correspondence: the file-system model `FS.run` (driver op `msink`), which
    also predicts what happens when the two share a parts directory.  Oracle (pairs that do not share one): every
    destination holds exactly its own bytes, nothing foreign or left over remains."""
    from odc.geo.cog._mpu_fs import MPUFileSink

    work = Path(tempfile.mkdtemp(dir=root))
    (work / "d").mkdir()
    (work / "e").mkdir()
    bnames = {None: (None, None), "common": ("pb", "pb"), "own": ("pb0", "pb1")}[base_kind]
    bases = [None if n is None else work / n for n in bnames]
    dsts = [work / a, work / b]
    res: List[Dict[str, Any]] = [{}, {}]
    cfgs, ops = [], []
    for i, d in enumerate((a, b)):
        dr, nm = d.rsplit("/", 1)
        cfgs.append(f"{dr}|{nm}|{bnames[i] or 'N'}")
    cnt = [0, 0]
    for i in order:
        k = cnt[i]
        cnt[i] += 1
        ops.append(f"{i}:w:{k + 1}:{datas[i][k]}" if k < 2 else f"{i}:f:{'T' if keep else 'F'}:1.2")
    line = f"c18 msink {list_s(cfgs)} {list_s(ops)}"

    def real():
        sinks = [MPUFileSink(dsts[i], parts_base=bases[i]) for i in (0, 1)]
        recs: List[List[Dict[str, Any]]] = [[], []]
        errs, last = [], ["ok", "ok"]
        for i in order:
            k = len(recs[i])
            e = "ok"
            try:
                if k < 2:
                    recs[i].append(sinks[i](k + 1, datas[i][k].encode()))
                else:
                    recs[i].append(None)
                    sinks[i].finalise(recs[i][:2], keep_parts=keep)
            except AssertionError:
                e = "ERR:AssertionError"
            except FileNotFoundError:
                e = "ERR:FileNotFoundError"
            except ValueError:
                e = "ERR:ValueError"
            except OSError:
                e = "ERR:OSError"
            errs.append(e)
            if k >= 2:
                last[i] = e
        outs = []
        for i in (0, 1):
            pdir = (dsts[i].parent if bases[i] is None else bases[i]) / f".{dsts[i].name}.parts"
            content = dsts[i].read_bytes().decode() if dsts[i].is_file() else None
            left = []
            if pdir.is_dir():
                left = sorted((int(f.name[1:-4]), f.read_bytes().decode()) for f in pdir.iterdir())
            res[i].update(err=last[i], content=content, left=left, dir=pdir.is_dir())
            outs.append(f"dst{'N' if content is None else '=' + content} ; "
                        f"parts={list_s([f'{p}:{d}' for p, d in left])} ; dir={'T' if pdir.is_dir() else 'F'}")
        res[0]["tree"] = sorted(str(f.relative_to(work)) for f in work.rglob("*") if f.is_file())
        return f"{','.join(errs)} | {' | '.join(outs)}"

    R.corr(line, real, sig=f"multi-sink|{base_kind}|keep={keep}" + ("|shared-parts-dir" if collide else ""))
    case = {"a": a, "b": b, "base": base_kind, "order": list(order), "keep": keep, "data": datas}
    # known finding K24 (Lean: common_parts_base_cex): the property itself, on the one case per run that asks for it.
    # Tight guard: same file NAME, different directories, a COMMON parts_base - anything else that interferes is
    # reported under sink:two-sinks-interfere.
    if res[0] and k24 and collide:
        (da, na), (db, nb) = a.rsplit("/", 1), b.rsplit("/", 1)
        if na == nb and da != db and base_kind == "common":
            ok = all(res[i]["err"] == "ok" and res[i]["content"] == "".join(datas[i]) for i in (0, 1))
            R.oracle(ok, K24_KEY, case,
                     f"K24: {a} holds {res[0]['content']!r} (own parts {''.join(datas[0])!r}, finalise {res[0]['err']}), "
                     f"{b} holds {res[1]['content']!r} (own parts {''.join(datas[1])!r}, finalise {res[1]['err']}): "
                     "both sinks use the parts directory pb/.x.tif.parts")
    if res[0] and not collide:
        for i in (0, 1):
            want = "".join(datas[i])
            R.oracle(res[i]["err"] == "ok" and res[i]["content"] == want, "sink:two-sinks-interfere", {**case, "sink": i},
                     f"destination {(a, b)[i]} holds {res[i]['content']!r} (finalise: {res[i]['err']}), its parts are "
                     f"{want!r}; the other sink writes {(b, a)[i]}")
        if not keep:
            R.oracle(res[0]["tree"] == sorted([a, b]), "sink:two-sinks-leave-files", case,
                     f"files left under the work directory: {res[0]['tree']}")
    shutil.rmtree(work, ignore_errors=True)


def multi_sink_cases(R: Run, root: Path):
    rng = R.rng
    orders = sorted(set(itertools.permutations([0, 0, 0, 1, 1, 1])))  # the 20 interleavings
    for a, b, base_kind in SINK_PAIRS:
        for n, order in enumerate(orders):
            if R.quick and n % 2 and base_kind is not None:
                continue
            datas = [["".join(rng.choice(LETTERS) for _ in range(rng.choice([0, 1, 3]))) for _ in range(2)]
                     for _ in range(2)]
            if datas[0] == datas[1]:
                datas[1][1] += "z"  # the two sinks must be distinguishable by content
            multi_sink_case(R, root, a, b, base_kind, order, keep=(n % 5 == 0), datas=datas)
    # the same destination NAME in two directories under a COMMON parts_base: the two sinks share one parts directory
    # (known finding K24, Lean `common_parts_base_cex`): every interleaving is compared with the file-system model; the
    # property oracle is evaluated on ONE deterministic case per run, which prints the KNOWN-FINDING line
    multi_sink_case(R, root, "d/x.tif", "e/x.tif", "common", (0, 1, 0, 1, 0, 1), keep=False,
                    datas=[["AA", "AA"], ["b", "b"]], collide=True, k24=True)
    for n, order in enumerate(orders):
        datas = [["".join(rng.choice(LETTERS) for _ in range(rng.choice([1, 2, 3]))) for _ in range(2)] for _ in range(2)]
        multi_sink_case(R, root, "d/x.tif", "e/x.tif", "common", order, keep=(n % 5 == 0), datas=datas, collide=True)


# ------------------------------------------------------------------ limits
KW = ["min_write_sz", "max_write_sz", "min_part", "max_part"]


def guarded_clone(obj, how):
    from .c18_sched import clone

    try:
        return clone(obj, how)
    except Exception as e:  # pylint: disable=broad-except
        return e  # accessors on it raise -> reported by the callers


def limit_cases(R: Run, root: Path):
    from odc.geo.cog import _mpu, _mpu_fs, _s3

    # accessor list by introspection of the protocol: an added accessor cannot escape the model
    accs = sorted(n for n, v in vars(_mpu.PartsWriter).items() if isinstance(v, property))
    R.corr("c18 accessors", lambda: list_s(accs), sig="accessors")
    writers = {"MPUFileSink": _mpu_fs.MPUFileSink, "MultiPartUpload": _s3.MultiPartUpload,
               "DelayedS3Writer": _s3.DelayedS3Writer}
    for nm, cls in writers.items():
        have = sorted(a for a in accs if isinstance(getattr(cls, a, None), property))
        R.oracle(have == accs, "limits:writer-lacks-accessor", {"writer": nm}, f"{nm} has {have}, protocol {accs}")

    def fmt(obj):
        # order of the model's table; any further protocol accessor is appended (and then differs)
        names = KW + [a for a in accs if a not in KW]
        return list_s([f"{a}={getattr(obj, a)}" for a in names])

    # addresses and identities: s3_parse_url, MultiPartUpload.url, the dask tokens
    rng = R.rng
    names = ["bucket", "b", "my-bucket.with.dots", "B_1"]
    keys = ["k", "a/b/c.tif", "", "x//y", "dir/", "a.tif/", "ünï/cödé.tif"]
    for b in names:
        for k in keys:
            m = _s3.MultiPartUpload(b, k)
            if k:
                R.corr(f"c18 mpuurl {b} {k}", lambda: m.url, sig="url")
            R.corr(f"c18 parseurl {m.url}", lambda: " ".join(_s3.s3_parse_url(m.url)), sig="parse-url|s3")
            R.oracle(_s3.s3_parse_url(m.url) == (b, k), "address:parse-url-does-not-invert-url", {"bucket": b, "key": k},
                     f"s3_parse_url({m.url!r}) = {_s3.s3_parse_url(m.url)}")
            for uid in ("", "id1", "x" * 9):
                m.uploadId = uid
                w = _s3.DelayedS3Writer(m, {})
                if k:
                    R.corr(f"c18 tokens {b} {k} {uid or '-'}",
                           lambda: f"{list_s(m.__dask_tokenize__())} {list_s(w.__dask_tokenize__())}", sig="tokens")
                R.oracle(w.__dask_tokenize__() == _s3.DelayedS3Writer(_s3.MultiPartUpload(b, k), {}).__dask_tokenize__(),
                         "address:writer-token-depends-on-upload-id", {"bucket": b, "key": k, "uploadId": uid},
                         f"{w.__dask_tokenize__()}")
    for u in ("http://bucket/key", "s3:/bucket/key", "S3://bucket/key", "bucket/key", "s3://", "s3://b", "s3:///k", "/s3://b/k"):
        R.corr(f"c18 parseurl {u}", lambda: " ".join(_s3.s3_parse_url(u)), sig="parse-url|other")
    for dr, nm, base in (("/d", "x.tif", None), ("/d/e", "a.b.c", "/pb"), ("/d", ".hidden", None), ("/d", "x", "/d")):
        sk = _mpu_fs.MPUFileSink(f"{dr}/{nm}", parts_base=base)
        R.corr(f"c18 sinktoken {dr}|{nm}|{base or 'N'}", lambda: list_s(str(x) for x in sk.__dask_tokenize__()),
               sig="sink-token")
    # two-sided: the limits of the S3 multipart API (5 MiB .. 5 GiB per part, part numbers 1 .. 10000) and
    # the documented defaults of the file sink, independent of the Lean model
    s3_doc = {"min_write_sz": 5 * 1024 * 1024, "max_write_sz": 5 * 1024 ** 3, "min_part": 1, "max_part": 10000}
    sink_doc = {"min_write_sz": 4096, "max_write_sz": 5 * 1024 ** 3, "min_part": 1, "max_part": 10000}
    mpu = _s3.MultiPartUpload("b", "k")
    for nm, obj in (("MultiPartUpload", mpu), ("DelayedS3Writer", _s3.DelayedS3Writer(mpu, {}))):
        R.corr("c18 limits s3", lambda: fmt(obj), sig="limits|s3")
        R.oracle(obj.max_write_sz > obj.min_write_sz and obj.max_part > obj.min_part, "limits:s3-max-not-above-min",
                 {"writer": nm}, fmt(obj))
        got = {a: getattr(obj, a) for a in KW}
        R.oracle(got == s3_doc, "limits:s3-limit-differs-from-s3-api", {"writer": nm},
                 f"{nm} reports {got}, S3 multipart limits are {s3_doc}")
        for how in ("pickle", "copy", "deepcopy"):
            cp = guarded_clone(obj, how)
            R.corr("c18 limits s3", lambda: fmt(cp), sig=f"limits|s3|{how}")
            gotc = guarded(lambda: str({a: getattr(cp, a) for a in KW}))
            R.oracle(gotc == str(s3_doc), "limits:copy-reports-other-limits", {"writer": nm, "how": how, "kw": {}},
                     f"{how} copy of {nm} reports {gotc}, original {got}")

    dflt = _mpu_fs.MPUFileSink(root / "x.bin")
    got_d = {a: getattr(dflt, a) for a in KW}
    R.oracle(got_d == sink_doc, "limits:sink-default-differs", {"kw": {}},
             f"MPUFileSink(dst) reports {got_d}, documented defaults {sink_doc}")
    R.oracle(dflt.max_write_sz > dflt.min_write_sz and dflt.max_part > dflt.min_part,
             "limits:sink-default-max-not-above-min", {}, fmt(dflt))
    values = [
        {"min_write_sz": 100, "max_write_sz": 1000, "min_part": 2, "max_part": 50},
        {"min_write_sz": 4096, "max_write_sz": 1 << 25, "min_part": 1, "max_part": 10000},
        {"min_write_sz": 1 << 20, "max_write_sz": 1 << 33, "min_part": 5, "max_part": 20000},
        {"min_write_sz": 1, "max_write_sz": 2, "min_part": 0, "max_part": 1},
    ]
    for _ in range(R.pick(4, 40)):
        a, c = R.rng.randint(1, 1 << 22), R.rng.randint(0, 500)
        values.append({"min_write_sz": a, "max_write_sz": a + R.rng.randint(1, 1 << 30),
                       "min_part": c, "max_part": c + R.rng.randint(1, 20000)})
    for vals in values:
        for r in range(5):
            for subset in itertools.combinations(KW, r):
                kw = {k: vals[k] for k in subset}
                sink = _mpu_fs.MPUFileSink(root / "x.bin", **kw)
                line = "c18 limits sink T " + " ".join(opt_s(kw.get(k)) for k in KW)
                R.corr(line, lambda: fmt(sink), sig=f"limits|sink|{len(subset)}kw")
                case = {"kw": kw}
                for a in accs:
                    want = kw.get(a, getattr(dflt, a))
                    got = guarded(lambda: getattr(sink, a))
                    R.oracle(got == want, "limits:accessor-ignores-own-keyword", {**case, "accessor": a},
                             f"MPUFileSink(dst, **{kw}).{a} = {got}, configured {want}", trivial=(a not in kw))
                # every copy a scheduler / user code can make reports what the original was configured with
                want_all = {a: kw.get(a, getattr(dflt, a)) for a in KW}
                for how in ("pickle", "copy", "deepcopy"):
                    cp = guarded_clone(sink, how)
                    R.corr(line, lambda: fmt(cp), sig=f"limits|sink|{len(subset)}kw|{how}")
                    gotc = guarded(lambda: str({a: getattr(cp, a) for a in KW}))
                    R.oracle(gotc == str(want_all), "limits:copy-reports-other-limits",
                             {"writer": "MPUFileSink", "how": how, "kw": kw},
                             f"{how} copy of MPUFileSink(dst, **{kw}) reports {gotc}, configured {want_all}",
                             trivial=not kw)
                cfg = {a: kw.get(a, getattr(dflt, a)) for a in KW}
                if cfg["min_write_sz"] < cfg["max_write_sz"] and cfg["min_part"] < cfg["max_part"]:
                    got = {a: guarded(lambda: getattr(sink, a)) for a in KW}
                    R.oracle(got["max_write_sz"] > got["min_write_sz"] and got["max_part"] > got["min_part"],
                             "limits:max-not-above-min", case, f"configured {cfg}, reported {got}")


# ------------------------------------------------------------------ entry points
def run(R: Run):
    root = Path(tempfile.mkdtemp(prefix="c18-"))
    try:
        xh = xproc_start(R)  # child interpreters work while the sink / limits stages run
        limit_cases(R, root)
        sink_cases(R, root)
        multi_sink_cases(R, root)
        seq_cases(R)
        xnames = xproc_names(R, xh)
        xproc_real(R, xh)
        schedules(R, xnames)
    finally:
        shutil.rmtree(root, ignore_errors=True)
    R.exhaustive = False
    R.assumptions.append("short-write fault model for the file sink: raw writes may accept fewer bytes than offered "
                         "(write(2) semantics), buffered writers loop")
    R.assumptions.append("fake S3 client / distributed.get_client, Variable, Lock at the client boundary; "
                         "steps of different threads execute sequentially consistently")
    R.searchers.append(search)


def search(R: Run, mismatches) -> Optional[Dict[str, Any]]:
    """proof or correspondence broke without an oracle failure: look harder for a schedule on
    which the property itself fails on the real code (random fine-grained schedules)"""
    from . import c18_sched as S

    procs = max(1, min(14, (os.cpu_count() or 2) - 2))
    probe = Run(R.prop, R.tier, R.seed)
    for variant, kinds, workers in (("local", ["w1", "w2", "w3"], None), ("local", ["w1", "f", "w2"], None),
                                    ("dist", ["w1", "w2", "w3"], [0, 1, 1]), ("dist", ["w1", "w2", "w3"], [0, 0, 1])):
        seeds = [R.rng.randrange(1 << 60) for _ in range(4000)]
        for o in S.random_runs(kinds, workers, seeds, procs=procs):
            check_run(probe, variant, kinds, workers, False, o, "search")
            if probe.oracle_failures:
                return probe.oracle_failures[0]
    return None


def replay(R: Run, rec) -> int:
    case = rec.get("case") or {}
    key = rec.get("key", "")
    print("replay key:", key)
    print("replay case:", case)
    if key in ("dist:shared-name-differs-across-processes", "dist:real-cluster-protocol-fails",
               "harness:fake-distributed-signature-differs"):
        probe = Run(R.prop, R.tier, R.seed)
        xh = xproc_start(probe)
        xproc_names(probe, xh)
        xproc_real(probe, xh)
        hits = [f for f in probe.oracle_failures if f["key"] == key]
        for f in hits[:3]:
            print("FAILS:", f["key"], "-", f["what"][:1200])
        return 1 if hits else 0
    if key.startswith("local:") or key.startswith("dist:"):
        from . import c18_sched as S

        sysm, _ = S.run_schedule(case["kinds"], case["workers"], case["schedule"], True, None, case.get("gate", False))
        obs = S.observe(sysm)
        print("real :", obs["text"])
        try:
            R.proof_stage()
            line = sched_line(case["variant"], case["kinds"], case["workers"], case["schedule"], obs.get("extra", ""))
            if isinstance(case.get("gate"), dict) and case["gate"].get("xnames") and case["variant"] == "dist":
                line = named_line(case["kinds"], case["workers"], case["schedule"], case["gate"])
            print("model (repaired code):", run_driver("C18", [line])[0])
            if case["variant"] == "local":
                print("model (code as found):", run_driver("C18", [line.replace("local T", "local F", 1)])[0])
        except Exception as e:  # pylint: disable=broad-except
            print("model: unavailable:", e)
        probe = Run(R.prop, R.tier, R.seed)
        check_run(probe, case["variant"], case["kinds"], case["workers"], case.get("gate", False), obs, "replay",
                  oracle="before-variable-deleted" not in key)
        for f in probe.oracle_failures:
            print("FAILS:", f["key"], "-", f["what"])
        return 1 if probe.oracle_failures else 0
    if key.startswith("seq:"):
        probe = Run(R.prop, R.tier, R.seed)
        seq_case(probe, case["ops"])
        print("real :", probe.real[0])
        try:
            R.proof_stage()
            print("model:", run_driver("C18", [probe.lines[0]])[0])
        except Exception as e:  # pylint: disable=broad-except
            print("model: unavailable:", e)
        for f in probe.oracle_failures:
            print("FAILS:", f["key"], "-", f["what"])
        return 1 if probe.oracle_failures else 0
    if key == K24_KEY:
        root = Path(tempfile.mkdtemp(prefix="c18-"))
        try:
            probe = Run(R.prop, R.tier, R.seed)
            multi_sink_case(probe, root, case["a"], case["b"], case["base"], case["order"], case["keep"], case["data"],
                            collide=True, k24=True)
            print("real :", probe.real[0])
            for f in probe.oracle_failures:
                print("FAILS:", f["key"], "-", f["what"])
            return 1 if probe.oracle_failures else 0
        finally:
            shutil.rmtree(root, ignore_errors=True)
    if key in ("sink:two-sinks-interfere", "sink:two-sinks-leave-files"):
        root = Path(tempfile.mkdtemp(prefix="c18-"))
        try:
            probe = Run(R.prop, R.tier, R.seed)
            multi_sink_case(probe, root, case["a"], case["b"], case["base"], case["order"], case["keep"], case["data"])
            print("real :", probe.real[0])
            for f in probe.oracle_failures:
                print("FAILS:", f["key"], "-", f["what"])
            return 1 if probe.oracle_failures else 0
        finally:
            shutil.rmtree(root, ignore_errors=True)
    if key.startswith("sink:"):
        root = Path(tempfile.mkdtemp(prefix="c18-"))
        try:
            probe = Run(R.prop, R.tier, R.seed)
            sink_case(probe, root, [tuple(w) for w in case["writes"]], case["parts"], case["keep"], case["base"],
                      "replay", short=case.get("short_write"), copy_how=case.get("copy_how"),
                      copy_when=case.get("copy_when", "before"))
            print("real :", probe.real[0])
            for f in probe.oracle_failures:
                print("FAILS:", f["key"], "-", f["what"])
            return 1 if probe.oracle_failures else 0
        finally:
            shutil.rmtree(root, ignore_errors=True)
    if key == "limits:copy-reports-other-limits" and case.get("writer") == "MPUFileSink":
        from odc.geo.cog import _mpu_fs
        from .c18_sched import clone

        kw = case.get("kw", {})
        sink = _mpu_fs.MPUFileSink("/nonexistent/x.bin", **kw)
        got = {a: getattr(clone(sink, case["how"]), a) for a in KW}
        want = {a: getattr(sink, a) for a in KW}
        print(f"{case['how']} copy of MPUFileSink(dst, **{kw}) reports {got}; original {want}")
        return 0 if got == want else 1
    if key in ("limits:copy-reports-other-limits", "limits:s3-limit-differs-from-s3-api", "limits:sink-default-differs", "limits:s3-max-not-above-min",
               "limits:sink-default-max-not-above-min", "limits:writer-lacks-accessor"):
        root = Path(tempfile.mkdtemp(prefix="c18-"))
        try:
            probe = Run(R.prop, R.tier, R.seed)
            limit_cases(probe, root)
            hits = [f for f in probe.oracle_failures if f["key"] == key]
            for f in hits:
                print("FAILS:", f["key"], "-", f["what"])
            return 1 if hits else 0
        finally:
            shutil.rmtree(root, ignore_errors=True)
    if key.startswith("limits:"):
        from odc.geo.cog import _mpu_fs

        kw = case.get("kw", {})
        sink = _mpu_fs.MPUFileSink("/nonexistent/x.bin", **kw)
        dflt = _mpu_fs.MPUFileSink("/nonexistent/x.bin")
        got = {a: getattr(sink, a) for a in KW}
        want = {a: kw.get(a, getattr(dflt, a)) for a in KW}
        print(f"MPUFileSink(dst, **{kw}) reports {got}; configured {want}")
        return 0 if got == want else 1
    return 0
