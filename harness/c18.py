"""C18 — part writers: upload initiated exactly once under every interleaving; sinks honour
their contract (odc/geo/cog/_s3.py, odc/geo/cog/_mpu_fs.py)."""
from __future__ import annotations

import builtins
import io
import itertools
import os
import shutil
import tempfile
from pathlib import Path
from typing import Any, Dict, List, Optional

from .common import Run, guarded, list_s, opt_s, run_driver

META = {
    "claimed": True,
    "text": "Lean 4 theorems about hand-written transition systems of DelayedS3Writer._ensure_init/__call__/finalise "
    "and MultiPartUpload.initiate/write_part/finalise (one atomic step per shared operation: read/write of uploadId, "
    "get_client, lock acquire/release, Variable get/set/delete, storage-client call): for ANY number of threads and "
    "workers and EVERY schedule (invariant proved by induction over the schedule; stutter steps of blocked/finished "
    "threads included) at most one multipart upload is created, no thread fails, every create/upload_part/complete "
    "call carries the one id, the lock is held exactly by the thread inside the critical section; every complete "
    "schedule ends with all threads returned and their parts uploaded (no deadlock), and schedules have at most "
    "14 (18) effective steps per thread - for the in-process variant (after the F5 repair; the code as found "
    "provably fails on a concrete 15-step schedule, local_once_cex) and for the cluster variant (shared Variable + "
    "Lock, per-worker copies).  MPUFileSink.finalise leaves the concatenation of the listed parts in the given "
    "order (empty parts anywhere, any part numbers), removes part files and directory, keep_parts keeps them; "
    "limit accessors return their own keyword or default with max > min (F17/F4 as _cex).  The models are tied to "
    "/repo on every run by running the real code in real threads under a deterministic step-level scheduler and "
    "diffing, per schedule, the sequence of shared operations of every thread, the client calls with their upload "
    "ids, final ids/variable/lock and exceptions with the Lean model: quick = all 7 700 + 15 267 interleavings of "
    "two first writes / a write and a racing finalise at the finest granularity, 3 threads and the cluster variant "
    "with context switches at lock/client/Variable operations, random fine-grained 3-4-thread schedules (34 k "
    "cases); thorough = 3 threads in both variants (about 510 k schedules).  Sink (every size vector over {0,1,3} "
    "for 1..4 parts in both orders, random 1..6 parts with overwrites/permutations/subsets/duplicates/unknown "
    "parts, parts_base placements, keep_parts; about 60 % of the cases under a short-write fault model: every file "
    "the sink opens for writing sits on a raw file that accepts only 1..4096 bytes per write call, as write(2) may, "
    "so an unchecked unbuffered write truncates while buffered writers still produce the right file) and limits (every subset of the four keywords; accessor list by "
    "introspection of the PartsWriter protocol) are compared exactly; an independent two-sided oracle evaluates "
    "the property on every real run.  Histories: earlier phases in the same process / on the same scheduler (a "
    "writer built while no client existed, an in-process attempt, cluster attempts that crashed / were aborted / "
    "finalised; the client appears and disappears between phases) precede the attempt whose interleavings are "
    "explored; the real _dask_client, MultiPartUpload.writer, prep_client, _shared run and `_state`, the scheduler's "
    "variables and locks and the S3 service persist; the oracle is evaluated relative to the attempt (exactly one "
    "upload of its own, nothing under an older id; model: initWithLock / initAfterPrep, local_once_later_attempt, "
    "dist_once_after_prep).  Writers and sinks are also driven through pickle / copy / deepcopy copies (per-worker "
    "copies, copies taken after the first write, finalise through a copy) and every copy must report the "
    "configured limits for every keyword subset.  Cross-process stage (c18_xproc): the writer - unpickled, "
    "prepared or not, or rebuilt from the same arguments - is handed to three child interpreters with distinct "
    "PYTHONHASHSEED; the Variable / Lock names their real first write asks for, _build_name for every prefix and "
    "the dask tokens must agree with the client process and with each other, and the names computed in the "
    "children feed the shared Variable / Lock store of the protocol simulation (model DistN with per-worker names: "
    "dist_once_named, dist_names_cex).  A sequential write / write-through-pickled-copy / finalise-through-deepcopy "
    "also runs on a REAL in-process distributed cluster (real Variable and Lock), and the fakes' call signatures "
    "are compared with the installed library on every run.  One upload object over time (model Seq, theorem "
    "once_after_cancel): every sequence of up to 4 (5) operations over write / finalise / cancel('all') / "
    "cancel(':ALL:') / cancel() / cancel(explicit, possibly stale id), plus a cancel at every position of two full "
    "uploads of the same object, against a storage service with active / completed / aborted uploads that lists "
    "only active ones and rejects dead ids; oracle: a successful cancel('all') or cancel of the current upload "
    "resets the object, the next first write initiates exactly one new upload, nothing later goes under an older "
    "id.  Transient storage errors: a thread's create / upload_part / complete call raises once (fault transitions "
    "in Local / Dist / DistN, covered by the same *_once theorems; a failed complete leaves the shared variable in "
    "place) and the retry runs on another copy; all interleavings at lock/client/Variable granularity.  Several "
    "file sinks alive at once with destinations differing only in suffix / case / directory / a prefix / a hidden "
    "twin, all 20 interleavings of their writes and finalises: each sink must behave as the single-sink model "
    "says it does alone, each destination holds exactly its own bytes and nothing else is left behind.  "
    "Growth round 2 (Model/C18Up.lean, Props/C18Up.lean, Props/C18C06.lean): (1) the in-process writer WITH THE BODIES of "
    "its parts against the completion rules of the multipart API (model Up: parts kept by number, later upload wins; "
    "unknown part / non-ascending list / non-last part below the minimal size / empty list rejected; object = listed "
    "bodies in order) - s3_writer_contract, s3_write_then_finalise: any call sequence, exactly one upload initiated by "
    "whichever call comes first, everything under its id, object = concatenation; compared on every write order of 1..3 "
    "parts x sizes {0..3} x eight kinds of part list x minimal sizes, random overwrites, bytes / bytearray / memoryview "
    "bodies, plus an argument oracle on every storage call of every stage (Bucket, Key, create keywords, Body, Parts, "
    "returned records).  (2) MultiPartUpload.upload end to end: mpu_upload_to_s3 composes C06.main with the Up model "
    "through the upload() glue (uploadWriter: spill_sz=0 -> no writer, mpu_upload_without_spill): for every merge tree, "
    "callbacks and spill size the run succeeds, ONE upload is initiated, part numbers lie in 1..10000, the service's 5 MiB "
    "rule is met and the assembled object is header ++ stream ++ footer; observed on real dask bags with 5 MiB parts "
    "against the fake service with the real limits, and the arguments upload() hands to mpu_write are compared / judged "
    "for every spill size x keyword set x client.  (3) writer(kw, client=) glue (writerPrep, all 4 combinations), an "
    "object resumed with uploadId= (resumed_never_initiates), _ensure_init(final_write=True) "
    "(ensure_final_never_initiates; every position in sequences of up to 3 (4) operations).  (4) cancel('all') next "
    "to active uploads of LONGER keys (model SeqK; cancel_all_ignores_other_keys for the repaired list_active, "
    "cancel_all_foreign_prefix_cex for the code as found = known finding K25, key "
    "seq:cancel-all-fails-next-to-upload-of-longer-key, fix on branch fix2-C18; the harness probes once which of the two "
    "proven variants the tree has, the oracle is independent of that).  (5) swallowed Variable.get timeouts "
    "(_safe_get): Dist.Cfg.spurGet1 - dist_once and all cluster theorems now quantify over timeouts of every thread's "
    "first read; the second read breaks the protocol (dist_spurious_get2_cex), compared with the real code under "
    "injected timeouts, correspondence only.  (6) several objects at once on one cluster (keys k / k.ovr / one letter "
    "apart): real _build_name names feed the DistN model (one writer copy per worker and object), oracle per object; "
    "dist_objects_sharing_names_cex; names of different objects must differ (xproc).  (7) file sinks over time: "
    "arbitrary operation sequences of 1..3 sink objects (re-created sinks for the same destination, shared parts "
    "directories, str / Path / trailing-slash spellings, keep_parts positional) against FS.run; rounds on one sink "
    "(sink_round_overwrites_destination).  WHAT IS COMPARED in the protocol stages (false-alarm discipline): the "
    "correspondence runs the real code with context switches at operations on EXTERNAL collaborators only (lock "
    "acquire / release, Variable get / set / delete, storage-client calls) and compares, per scheduler step, the "
    "external operations performed, the client calls with their ids, final ids / variable / lock and the outcomes with "
    "the model run in the same macro steps (driver `c18 x <switch set> ...`); how many internal steps (reads / writes "
    "of uploadId, look-ups in the module's private state, get_client) the code takes in between is not compared.  Runs "
    "scheduled at internal steps as well (the finest granularity, incl. the lazy creation of the process-wide lock) "
    "are judged by the property oracle on every run; their step-by-step agreement with the model's internal steps, "
    "the text of dask tokens, the names of temporary part files and the accessor list of the protocol are recorded "
    "in the evidence notes (internal-step tie / detail tie) and never reported as a violation.  Private names "
    "(module-level dict and Lock factory of _s3, _ensure_init, _build_name, the open / Path names of _mpu_fs, "
    "mpu_write as seen by upload) are looked up defensively; a stream whose private entry point is gone is skipped "
    "with a note.  Increment 3 - CRASH POINTS, paging, four threads: (a) a worker may die with a thread at any program "
    "point; dist_once_with_crashes: crashes (with the scheduler freeing the dead worker's lock lease) anywhere OUTSIDE "
    "the publication window - the three steps between the service's answer to create_multipart_upload and "
    "shared_state.set(id) - any number of times in any schedule keep every guarantee of dist_once (crash_inv by cases "
    "over all program points; a crash without lease expiry is a schedule that stops scheduling the thread: already "
    "in dist_once); inside the window the exactly-once claim is provably lost (dist_crash_in_window_cex, "
    "dist_crash_before_publish_cex, local_crash_before_setid_cex): a second upload is initiated, the first stays on the "
    "service as an orphan WITHOUT parts, everything else goes under the second one (recovery oracle on every "
    "interleaving of the real code with the thread killed inside the fake service's create call).  A worker dying "
    "between upload_part and returning its record is inside local_once / dist_once (Cfg.crashCall; "
    "dist_lost_result_retry, local_lost_result_retry): the re-run uploads the part again under the same id.  (b) "
    "MPUFileSink.finalise interrupted after k parts (Sink.finaliseCrash; sink_crash_keeps_all_bytes: destination = "
    "first k parts, the rest still on disk, nothing lost or twice; sink_finalise_retry_after_crash_cex: finalise is NOT "
    "restartable - FileNotFoundError, the destination stays a strict prefix under its final name), replayed on the "
    "real sink with the failure injected at Path.rename / Path.stat for every k of 1..4 parts.  (c) list_active asks for "
    "ONE page (cancelAllPagedN; cancel_all_pages, cancel_all_within_page, cancel_all_one_page_cex): with more active "
    "uploads of the key than the service lists per request (1000 on S3) one cancel('all') leaves the rest active - a "
    "LIMIT of the code as it is, compared with the fake service paging by 2 / 3, recorded, not judged.  (d) thorough "
    "tier: four first writes in both variants with context switches at the lock and the create call; the evidence "
    "notes list every interleaving class enumerated exhaustively (with its switch points and count) and every class "
    "only sampled.  (e) MultiPartUpload.read(**kw) judged by an argument / result oracle.  Final increment: "
    "local_once_with_crashes (Local.crash / Ev / runEv, crash_inv over all program points: an exception anywhere but "
    "between the service's answer and `self.uploadId = ...` keeps local_once; local_crash_in_window_cex), tied with "
    "Dist.crash by the crash-event stream (driver crashev: a thread dies parked at each of its external operations in "
    "turn, 84 cases, oracle outside the window); byte-granular sink crash (Sink.finaliseCrashBytes, "
    "sink_crash_bytes_prefix: destination always a prefix, the interrupted and all later parts on disk); PROCESS KILL "
    "during finalise (Sink.finaliseKill): the code as found unlinks a part while its bytes are still in the process's "
    "write buffer - known finding K26, key sink:kill-loses-bytes-of-unlinked-part, sink_kill_loses_buffered_bytes_cex, "
    "observed by forking a child that dies with os._exit at the next part; repaired on branch fix3-C18 (flush before "
    "unlink; sink_kill_keeps_all_bytes); one probe run picks the proven variant, the oracle is independent of it; the "
    "cut-append stream is driven on trees that flush per part.",
    "note": "Trusted: Lean kernel + {propext, Classical.choice, Quot.sound}; the fakes at the client boundary "
    "(S3 client, distributed.get_client/Variable/Lock, the module dict _s3._state and the Lock constructor "
    "_s3.Lock, the open/Path names seen by _mpu_fs under the short-write fault model, an observable uploadId "
    "attribute on a subclass that inherits all methods) and the scheduler; sequentially consistent execution of "
    "the steps.  Runtime behaviour the model cannot exhibit: CPython Lock fairness, the real distributed "
    "Variable/Lock under races (the real in-process cluster stage is sequential), _safe_get timeouts (a spurious None while the variable is set "
    "could initiate twice).  The cluster theorem holds until a finalise has deleted the shared variable "
    "(cleanup_client, its last action): a first write that starts after, or races with, a completed finalise can "
    "fail or initiate a second upload (dist_after_delete_cex; observed on the real code) - excluded by mpu_write, "
    "which feeds finalise with the results of all writes; such runs are compared with the model and judged only up "
    "to the deletion.  _ensure_init(final_write=True) has no caller; it is modelled sequentially (in-process, Seq op "
    "ensureFinal), not inside the concurrent transition systems.  Exhaustive enumeration "
    "covers the stated thread counts only; larger configurations are covered by the theorems, not by the "
    "correspondence.  Growth round: file-system model of MPUFileSink (FS with parts directories keyed by (root, full "
    "destination name); sinks_never_interfere, sink_contract_among_others, parts_dir_injective_on_destinations, "
    "common_parts_base_cex: the same destination NAME under a COMMON parts_base shares one parts directory on the "
    "code as it is - known finding K24, key sink:same-name-under-common-parts-base-collides, printed as "
    "KNOWN-FINDING on every run from one deterministic case; all its interleavings are compared with the model), the link "
    "C18 o C06 (Props/C18C06.lean: mpu_write_to_file_sink - C06.run's writer calls performed on the C18 sink leave "
    "header ++ stream ++ footer and no parts), s3_parse_url / url / dask tokens.  INVENTORY of anchored code not "
    "mirrored by the Lean model: MultiPartUpload.s3_client (botocore session/credentials, the @cached client), read(), "
    "list_active's pagination (more than 1000 uploads); the dask graph mpu_write builds around the writer (C06 models "
    "its evaluation; the composition theorem is about the call sequence, run in-process); _ensure_init(final_write=True) "
    "inside a race and on a cluster (sequential in-process only); _build_name's tokenize (names are abstract numbers; "
    "agreement across interpreter processes and difference across objects are checked on the real code); a swallowed "
    "timeout of the SECOND Variable.get (outside the theorems: _cex) and exceptions other than timeouts in _safe_get; "
    "two objects at once in ONE process (they share the process-wide lock: not modelled) and a positive theorem for "
    "several objects on a cluster (only the _cex and the correspondence) - both need the per-object generalisation of "
    "the invariants (ids are numbered globally in the model, so the product refinement holds only up to renaming); "
    "_ensure_init(final_write=True) inside a race; a crash in the MIDDLE of appending one part (finaliseCrash is "
    "part-granular); crash of the in-process variant other than at the two injected points (an exception anywhere in a "
    "`with` block releases the lock: equal to the cluster crash transition, not proved separately); the service's rules in Up are a "
    "specification of S3, validated against nothing but the fake; _shared's lazy Variable creation race (benign: same "
    "name); "
    "MPUFileSink._ensure_dst_file's mkdir race (FileExistsError swallowed), the assert nb == len(data) in __call__ "
    "(short writes are injected on the real code only), rename across file systems, a destination that is itself "
    "named like another sink's parts directory; bytes are letters (no binary content).",
    "technique": "Lean 4 proof over hand model (transition system, invariant by induction over schedules) + "
    "differential correspondence with the real code under a deterministic scheduler",
    "design_ref": "DESIGN.md §4 C18",
}

Q = chr(34) * 2


class Soft:
    """Facts about today's implementation that are NOT part of the property (the text of dask tokens, the names of
    the temporary part files, the list of protocol accessors): compared with the model through the driver, the
    outcome goes to the evidence notes; what the property needs of them is judged behaviourally by oracles."""

    def __init__(self):
        self.items: List[Any] = []

    def add(self, line: str, fn, what: str):
        self.items.append((line, guarded(fn), what))

    def report(self, R: Run):
        if not self.items or R.proof_break:
            return
        try:
            outs = run_driver("C18", [ln for ln, _, _ in self.items])
        except Exception as e:  # pylint: disable=broad-except
            R.notes.append(f"implementation-detail tie not evaluated: {e}")
            return
        diff = [(ln, r, m, w) for (ln, r, w), m in zip(self.items, outs) if r != m]
        R.count("detail-tie:agree", len(self.items) - len(diff))
        R.count("detail-tie:differ", len(diff))
        if diff:
            kinds = sorted({w for _, _, _, w in diff})
            R.notes.append(f"implementation details that differ from the model's description ({', '.join(kinds)}; "
                           f"{len(diff)} of {len(self.items)}; not part of the property): {diff[0][0][:160]} | real "
                           f"{diff[0][1][:200]} | model {diff[0][2][:200]}")


SOFT = Soft()


# ------------------------------------------------------------------ schedules
def sched_line(variant: str, kinds: List[str], workers: Optional[List[int]], fine: List[int], extra: str = "") -> str:
    """`extra`: state the attempt starts in (" P": `_state` already holds a lock object; " N" / " S": the
    shared variable held nothing / a stale id before `prep_client`)"""
    if variant == "local":
        return f"c18 local T {list_s(kinds)} {list_s(fine)}{extra}"
    return f"c18 dist {list_s(kinds)} {list_s(workers)} {list_s(fine)}{extra}"


def named_line(kinds, workers, fine, opts) -> str:
    """model with explicit names (DistN): worker w uses the Variable / Lock names its own interpreter computed;
    a prepared writer ships the Variable, so only the lock name is computed on the worker"""
    xn = opts["xnames"]
    nw = max(workers) + 1
    ids: Dict[str, int] = {}

    def num(name):
        return ids.setdefault(name, len(ids))

    ln = [num("L:" + str(xn[w % len(xn)]["MPULock"])) for w in range(nw)]
    ids = {}
    vn = [num("V:" + (str(xn[w % len(xn)]["MPUpload"]) if opts.get("build_without_client") else "shipped"))
          for w in range(nw)]
    return f"c18 distn {list_s(kinds)} {list_s(workers)} {list_s(vn)} {list_s(ln)} {list_s(fine)}"


def check_run(R: Run, variant: str, kinds, workers, gate: bool, obs: Dict[str, Any], tag: str,
              oracle: bool = True, xset=None, side: Optional[list] = None):
    """Register one real run and evaluate the property on it.

    `xset` given: the run was scheduled with context switches at those EXTERNAL operations only (storage client,
    Variable, Lock); it is a CORRESPONDENCE case - the model runs the same scheduler steps (`c18 x <set> ...`) and
    must show the same external operations per step, the same client calls with their ids, final ids / variable /
    lock and outcomes.  How many internal steps (reads / writes of uploadId, private module state, get_client) the
    real code takes between two external operations is not compared.
    `xset` None: a run scheduled at internal steps as well - judged by the property oracle; its step-by-step
    agreement with the model's internal steps goes to `side` (reported in the evidence notes, never a violation)."""
    sch = obs["macro"] if xset is not None else obs["fine"]
    line = sched_line(variant, kinds, workers, sch, obs.get("extra", ""))
    if isinstance(gate, dict) and gate.get("xnames") and variant == "dist":
        line = named_line(kinds, workers, sch, gate)
    outs = obs["outcomes"]
    if obs.get("objects"):
        ob = obs["objects"]
        line = f"c18 distobj {list_s(kinds)} {list_s(ob['copies'])} {list_s(ob['names'][0])} {list_s(ob['names'][1])} {list_s(sch)}"
    sig = f"{variant}|{tag}|" + ("raised" if any(o not in ("ok",) for o in outs) else "ok")
    if xset is not None:
        R.corr(f"c18 x {list_s(sorted(xset))} {line[4:]}", lambda: obs["xtext"], sig=sig)
    elif side is not None:
        side.append((line, obs["text"]))
    case = {"variant": variant, "kinds": kinds, "workers": workers, "gate": gate, "schedule": obs["fine"]}
    if obs.get("objects"):
        objects_oracle(R, case, kinds, gate, obs)
        return
    if obs.get("pre_error"):
        R.oracle(False, f"{variant}:earlier-attempt-raises", case, f"a phase of the history raised {obs['pre_error']}",
                 trivial=True)
    if oracle is None:
        # correspondence only: the property is provably out of reach there (a `_cex` theorem says why) ...
        if any("X" in "".join(k.split("!")[1:]) for k in kinds) and not obs["deadlock"]:
            # ... but after a crash inside the publication window the protocol recovers: one orphaned upload without
            # parts, everything else under ONE further upload, nobody else fails
            killed = [i for i, o in enumerate(outs) if o == "Killed"]
            ok = obs["ncreate"] == 1 + len(killed) and len(set(obs["used_ids"])) <= 1 and \
                all(u == obs["ids"][-1] for u in obs["used_ids"]) and \
                all(o in ("ok", "Killed") for o in outs) and obs["lock"] is None
            R.oracle(ok, f"{variant}:no-recovery-after-crash-in-publication-window", case,
                     f"outcomes {outs}, uploads created {obs['ids']}, ids used {obs['used_ids']}, lock {obs['lock']}")
        return
    if not oracle:
        pre_delete_oracle(R, variant, case, obs)
        return
    R.oracle(not obs["deadlock"] and obs["lock"] is None and all(o != "running" for o in outs),
             f"{variant}:deadlock-or-lock-left-held", case,
             f"threads {outs}, lock holder {obs['lock']} after a complete schedule", trivial=True)
    # threads whose own storage call was made to fail ("!g" / "!G" are swallowed Variable.get timeouts, not failures)
    faulty = {i for i, k in enumerate(kinds) if any(c in "".join(k.split("!")[1:]) for c in "cu")}
    # threads that die at an injected crash point ("!x": right after their upload_part / complete call was carried out)
    dying = {i for i, k in enumerate(kinds) if "x" in "".join(k.split("!")[1:])}
    odd = sorted({o for i, o in enumerate(outs)
                  if o not in ("ok", "running", "AssertionError") and not (i in faulty and o == "TransientError")
                  and not (i in dying and o == "Killed")})
    R.oracle(not odd, f"{variant}:write-raises-{'-'.join(odd) or 'other-exception'}", case,
             f"thread outcomes {outs} ({obs['text'][-200:]})", trivial=True)
    R.oracle(all(o in ("ok", "running") or (i in faulty and o == "TransientError") or (i in dying and o == "Killed")
                 for i, o in enumerate(outs))
             or bool(odd), f"{variant}:write-fails-in-initiation-race", case,
             f"thread outcomes {outs} ({obs['text'][-200:]})")
    R.oracle(obs["ncreate"] == 1, f"{variant}:not-exactly-one-upload-initiated", case,
             f"create_multipart_upload called {obs['ncreate']} times")
    one = obs["ids"][0] if obs["ids"] else None
    R.oracle(all(u == one for u in obs["used_ids"]), f"{variant}:call-under-other-upload-id", case,
             f"ids returned {obs['ids']}, ids used {obs['used_ids']}")
    ok_parts = True
    for i, kf in enumerate(kinds):
        k = kf.split("!")[0]
        if k == "f":
            want = repr({"Bucket": "bucket", "Key": "some/key.tif", "ETag": "final"})
        else:
            p = int(k[1:])
            want = repr({"PartNumber": p, "ETag": f"etag{p}"})
            # a part is uploaded once per write of it that returned (a write whose own call was made to fail
            # uploads nothing; its retry does)
            n_ok = sum(1 for j, kk in enumerate(kinds) if kk.split("!")[0] == k and
                       (outs[j] == "ok" or (j in dying and outs[j] == "Killed")))  # a dying thread's call was carried out
            ok_parts = ok_parts and sum(1 for (q, _) in obs["uploads"] if q == p) == n_ok
        if outs[i] == "ok":
            ok_parts = ok_parts and obs["results"][i] == want
    R.oracle(ok_parts, f"{variant}:part-not-uploaded-exactly-once", case,
             f"uploads {obs['uploads']} results {obs['results']}", trivial=True)
    bad = obs.get("bad_args") or []
    R.oracle(not bad, f"{variant}:storage-call-with-wrong-arguments", case, f"{bad}", trivial=True)


def objects_oracle(R: Run, case, kinds, gate, obs):
    """several objects (keys) written at once on one cluster: each object gets exactly one upload of its own, all its
    parts go under that upload's id and key, no write fails - whatever the threads of the other objects do"""
    ob = obs["objects"]
    outs = obs["outcomes"]
    R.oracle(not obs["deadlock"] and all(o == "ok" for o in outs), "dist:write-fails-next-to-another-object", case,
             f"thread outcomes {outs} ({obs['text'][-200:]})")
    created: Dict[str, List[str]] = {k: [] for k in ob["keys"]}
    ids = iter(obs["ids"])
    for n, a in ob["args"]:
        if n == "create":
            created.setdefault(a["Key"], []).append(next(ids, "?"))
    used = {k: sorted({obs_id for (n, a), obs_id in zip([x for x in ob["args"] if x[0] in ("upload", "complete")],
                                                        obs["used_ids"]) if a["Key"] == k}) for k in ob["keys"]}
    want_parts = {k: sorted(int(kd[1:]) for kd, o in zip(kinds, gate["objects"]) if ob["keys"][o] == k and kd != "f")
                  for k in ob["keys"]}
    got_parts = {k: sorted(a["PartNumber"] for n, a in ob["args"] if n == "upload" and a["Key"] == k) for k in ob["keys"]}
    ok = all(len(created[k]) == 1 and used[k] in ([], created[k]) for k in ob["keys"]) and got_parts == want_parts \
        and set(created) == set(ob["keys"])
    R.oracle(ok, "dist:objects-share-an-upload", case,
             f"uploads created per key {created}, ids used per key {used}, parts uploaded per key {got_parts} "
             f"(expected {want_parts})")


def pre_delete_oracle(R: Run, variant: str, case, obs):
    """Cluster variant with a finalise racing the first writes: the property is claimed (and
    proved, `dist_once`) up to the moment the finalise deletes the shared variable; evaluate
    it on that prefix of the run."""
    labels = obs["labels"]
    idx = next((i for i, l in enumerate(labels) if l.endswith(":vdel")), len(labels))
    is_call = [l.split(":")[1] in ("create", "upload", "complete") for l in labels]
    ncalls_pre = sum(1 for i in range(idx) if is_call[i])
    calls_pre = obs["calls"][:ncalls_pre]
    ncreate_pre = sum(1 for c in calls_pre if c.startswith("create="))
    ids_pre = [c.split("=", 1)[1] for c in calls_pre]
    last = {}
    for i, l in enumerate(labels):
        last[int(l.split(":")[0])] = i
    failed_pre = [t for t, o in enumerate(obs["outcomes"]) if o not in ("ok", "running") and last.get(t, -1) < idx]
    R.oracle(not failed_pre, f"{variant}:write-fails-before-variable-deleted", case,
             f"threads {failed_pre} raised before the finalise deleted the variable: {obs['outcomes']}")
    R.oracle(ncreate_pre <= 1 and (ncreate_pre == 1 or not calls_pre),
             f"{variant}:not-exactly-one-upload-before-variable-deleted", case,
             f"calls before the deletion: {calls_pre}")
    R.oracle(len(set(ids_pre)) <= 1, f"{variant}:call-under-other-upload-id-before-variable-deleted", case,
             f"calls before the deletion: {calls_pre}")


def side_report(R: Run, side):
    """Runs scheduled at INTERNAL steps (reads / writes of uploadId, private module state, get_client): does the model
    take the same internal steps?  That is a statement about today's implementation, not about the property - a
    refactoring may add, drop or reorder internal steps - so a difference is recorded in the evidence and never
    reported as a violation; the property was judged on every one of these runs by the oracle."""
    if not side or R.proof_break:
        return
    try:
        outs = run_driver("C18", [ln for ln, _ in side])
    except Exception as e:  # pylint: disable=broad-except
        R.notes.append(f"internal-step tie not evaluated: {e}")
        return
    diff = [(ln, r, m) for (ln, r), m in zip(side, outs) if r != m]
    R.count("internal-step-tie:agree", len(side) - len(diff))
    R.count("internal-step-tie:differ", len(diff))
    if diff:
        R.notes.append(f"internal-step tie: {len(diff)} of {len(side)} runs scheduled at internal steps differ from the "
                       f"model's internal steps (implementation detail, not a violation); first: {diff[0][0][:200]} | real "
                       f"{diff[0][1][:300]} | model {diff[0][2][:300]}")
    else:
        R.notes.append(f"internal-step tie: all {len(side)} runs scheduled at internal steps take exactly the model's "
                       "internal steps")


def schedules(R: Run, xnames=None):
    from . import c18_sched as S

    procs = max(1, min(14, (os.cpu_count() or 2) - 2))
    pool = S.make_pool(procs) if procs > 1 else None  # forked once, before any scheduler thread exists
    try:
        _schedules(R, S, procs, pool, xnames)
    finally:
        if pool is not None:
            pool.terminate()


def _schedules(R: Run, S, procs, pool, xnames=None):
    CW = frozenset(S.COARSE | {"wr"})
    NOGC = frozenset(S.COARSE | {"rd", "wr", "sget"})  # everything but get_client(), which is thread-local
    C2 = frozenset({"acq", "create", "upload", "complete", "vget"})

    hot = {"on": False}

    def failing():
        """a failing input that is not a registered known finding (K24 fires on every run) has been seen"""
        return any(R.match_known(f["key"]) is None for f in R.oracle_failures)

    def early_mismatch(n0):
        """sample this configuration's lines through the driver right away: a changed protocol is noticed
        before the remaining configurations are enumerated at full budget"""
        if R.proof_break or hot["on"]:
            return
        idx = list(range(n0, len(R.lines)))
        idx = idx[:: max(1, len(idx) // 200)][:250]
        try:
            outs = run_driver("C18", [R.lines[i] for i in idx])
        except Exception:  # pylint: disable=broad-except
            return
        if any(R.real[i] != o for i, o in zip(idx, outs)):
            hot["on"] = True

    side: List[Any] = []  # (model line, real text) of runs scheduled at internal steps: soft tie, see `side_report`
    enumerated: List[str] = []  # interleaving classes enumerated EXHAUSTIVELY (all maximal schedules at the switch points)
    sampled: List[str] = []     # classes only SAMPLED (random schedules)
    STATE_OPS = frozenset({"ssd", "sset", "sitem", "sin"})

    def exhaustive(variant, kinds, workers, coarse, tag, gate=False, oracle=True):
        # wall-clock valve per configuration, far above what the unchanged protocol needs; once the protocol is
        # known to have changed (failing input or model mismatch), later configurations are only sampled
        budget = 0.3 if failing() else 1.0 if hot["on"] else R.pick(30, 240)
        # 1. every interleaving at the EXTERNAL operations (or the given subset of them): correspondence + oracle
        xs = coarse if (coarse is not None and coarse <= S.EXT) else S.EXT
        n0 = len(R.lines)
        obs, truncated = S.enumerate_all(kinds, workers, xs, procs=procs, gate_fin=gate, budget_s=budget, pool=pool)
        if truncated:
            R.notes.append(f"enumeration truncated for {variant} {kinds} {workers} ({tag}): more interleavings "
                           "than the unchanged protocol has")
        for o in obs:
            check_run(R, variant, kinds, workers, gate, o, tag, oracle, xset=xs)
        R.count(f"schedules:{variant}:{tag}:{'+'.join(kinds)}:{workers}", len(obs))
        enumerated.append(f"{variant} {'+'.join(kinds)} workers={workers} [{tag}] switch@{'/'.join(sorted(xs))}: {len(obs)}"
                          + (" (TRUNCATED)" if truncated else ""))
        early_mismatch(n0)
        # 2. a finer enumeration was asked for (context switches at reads / writes of uploadId, private state):
        # oracle on every run; agreement with the model's internal steps is recorded, not enforced
        if coarse is None or (coarse - S.EXT - STATE_OPS):
            obs, truncated = S.enumerate_all(kinds, workers, coarse, procs=procs, gate_fin=gate, budget_s=budget, pool=pool)
            if truncated:
                R.notes.append(f"fine enumeration truncated for {variant} {kinds} {workers} ({tag})")
            for o in obs:
                check_run(R, variant, kinds, workers, gate, o, tag + "|internal-steps", oracle, side=side)
            R.count(f"schedules-internal:{variant}:{tag}:{'+'.join(kinds)}:{workers}", len(obs))
            enumerated.append(f"{variant} {'+'.join(kinds)} workers={workers} [{tag}] switch@"
                              f"{'every-step' if coarse is None else '/'.join(sorted(coarse))} (oracle only): {len(obs)}"
                              + (" (TRUNCATED)" if truncated else ""))

    def rand(variant, kinds, workers, n, gate=False, oracle=True):
        if failing() or hot["on"]:
            n = min(n, 60)
        seeds = [R.rng.randrange(1 << 60) for _ in range(n)]
        for o in S.random_runs(kinds, workers, seeds, procs=procs, gate_fin=gate, pool=pool):
            check_run(R, variant, kinds, workers, gate, o, "random-fine", oracle, side=side)
        sampled.append(f"{variant} {'+'.join(kinds)} workers={workers}"
                       + (f" objects={gate['objects']}" if isinstance(gate, dict) and gate.get("objects") else "") + f": {n} random")

    # ---- in-process variant: every interleaving of two threads at the finest granularity
    # (the process-wide lock does not exist at the start: its lazy creation is part of the race)
    exhaustive("local", ["w1", "w2"], None, NOGC if R.quick else None, "nogc" if R.quick else "fine")
    # a write racing with a finalise
    exhaustive("local", ["w1", "f"], None, CW if R.quick else NOGC, "cw" if R.quick else "nogc")
    exhaustive("local", ["w1", "w2", "f"], None, CW if R.quick else NOGC, "gated", gate=True)  # two writes, then the finalise
    exhaustive("local", ["w3", "w1", "w2"], None, C2 if R.quick else frozenset(C2 | {"ssd", "sset"}), "coarse")
    exhaustive("local", ["w1", "w2", "f"], None, C2 if R.quick else CW, "coarse")  # racing finalise
    # ---- cluster variant
    for workers in ([0, 1], [0, 0]):
        exhaustive("dist", ["w1", "w2"], workers, CW if R.quick else NOGC, "coarse" if R.quick else "nogc")
    for workers in ([0, 1, 1], [0, 0, 1], [0, 1, 2], [0, 0, 0]):
        exhaustive("dist", ["w1", "w2", "f"], workers, S.COARSE if R.quick else CW, "coarse-gated", gate=True)
    # a finalise racing with a first write: correspondence only (see META.note)
    exhaustive("dist", ["w1", "f"], [0, 1], S.COARSE if R.quick else NOGC, "racing-fin", oracle=False)
    exhaustive("dist", ["w1", "f"], [0, 0], S.COARSE if R.quick else CW, "racing-fin", oracle=False)
    if not R.quick:
        for wi, workers in enumerate(([0, 1, 1], [0, 0, 0], [0, 1, 2])):
            if (wi + R.seed) % 3 == 2:
                continue  # two of the three placements per run, rotating with the seed
            exhaustive("dist", ["w1", "w2", "w3"], workers, C2, "coarse3")
        # four threads, the smallest scenario (four first writes), context switches where the initiation race is
        # decided: at the lock and at the create call
        AC = frozenset({"acq", "create"})
        exhaustive("local", ["w1", "w2", "w3", "w4"], None, AC, "four-threads")
        exhaustive("dist", ["w1", "w2", "w3", "w4"], [0, 1, 2, 3], AC, "four-threads")
        exhaustive("dist", ["w1", "w2", "w3", "w4"], [0, 0, 1, 1], AC, "four-threads")
    # ---- histories: state carried across attempts in one process / on one scheduler.  Earlier phases run
    # sequentially, then every interleaving of the attempt is explored; oracle = the attempt initiates exactly
    # one upload of its own and everything goes under it.  The client appears / disappears between phases.
    HS = S.COARSE if R.quick else CW
    att = lambda client, end, workers=None: {"op": "attempt", "client": client, "parts": [1, 2],  # noqa: E731
                                              "workers": workers, "end": end}
    hist_dist = {
        "asked-before-client-existed": [{"op": "ask", "client": False}],
        "in-process-attempt-first": [att(False, "finalise")],
        "crashed-attempt": [att(True, "crash", [0, 1])],
        "aborted-attempt": [att(True, "abort", [0, 1])],
        "finalised-attempt": [att(True, "finalise", [0, 1])],
        "crashed-twice-then-asked": [att(True, "crash", [0, 0]), att(True, "crash", [1, 0]), {"op": "ask", "client": False}],
    }
    # (quick tier: the three-thread variant of every other history, rotating with the seed)
    rot = lambda i, m=2: (not R.quick) or (i + R.seed) % m == 0  # noqa: E731
    for hi, (nm, pre) in enumerate(hist_dist.items()):
        exhaustive("dist", ["w1", "w2"], [0, 1], HS, f"hist:{nm}", gate={"pre": pre})
        if rot(hi):
            exhaustive("dist", ["w1", "w2", "f"], [0, 0, 1], S.COARSE, f"hist:{nm}", gate={"pre": pre, "gate": True})
    hist_local = {
        "cluster-attempt-first": [att(True, "crash", [0, 1])],
        "asked-while-client-existed": [{"op": "ask", "client": True}],
        "crashed-in-process-attempt": [att(False, "crash")],
        "finalised-in-process-attempt": [att(False, "finalise"), {"op": "ask", "client": True}],
    }
    for hi, (nm, pre) in enumerate(hist_local.items()):
        exhaustive("local", ["w1", "w2"], None, HS, f"hist:{nm}", gate={"pre": pre})
        if rot(hi + 1):
            exhaustive("local", ["w1", "w2", "f"], None, S.COARSE, f"hist:{nm}", gate={"pre": pre, "gate": True})
    # ---- transient storage errors: a thread's create / upload_part / complete call raises once; the documented
    # retry (the same step on another copy) runs when the failed attempt has ended
    FS = S.COARSE if R.quick else CW
    exhaustive("local", ["w1!c", "w2"], None, HS, "fault:create")
    exhaustive("local", ["w1!c", "w2!c", "w3"], None, C2 if R.quick else S.COARSE, "fault:create")
    exhaustive("local", ["w1!u", "w2", "w1"], None, FS, "fault:upload+retry", gate={"after": {"2": [0]}})
    exhaustive("local", ["w1", "w2", "f!u", "f"], None, S.COARSE, "fault:complete+retry",
               gate={"gate": True, "after": {"3": [2]}})
    for wk in ([0, 1], [0, 0]):
        exhaustive("dist", ["w1!c", "w2"], wk, HS, "fault:create")
    exhaustive("dist", ["w1!u", "w2", "w1"], [0, 1, 2], FS, "fault:upload+retry", gate={"after": {"2": [0]}})
    exhaustive("dist", ["w1!u", "w2", "w1"], [0, 1, 0], FS, "fault:upload+retry", gate={"after": {"2": [0]}})
    for wi, wk in enumerate(([0, 1, 1, 2], [0, 1, 1, 1], [0, 0, 0, 1])):
        if not rot(wi, 3):
            continue
        exhaustive("dist", ["w1", "w2", "f!u", "f"], wk, S.COARSE, "fault:complete+retry",
                   gate={"gate": True, "after": {"3": [2]}})
    exhaustive("dist", ["w1!c", "w2", "f!u", "f"], [0, 1, 2, 3], S.COARSE, "fault:create+complete+retry",
               gate={"gate": True, "after": {"3": [2]}})
    # ---- swallowed `Variable.get` timeouts (the real `_safe_get` turns every exception into None): a thread's FIRST,
    # unlocked read times out although the variable may be set - covered by dist_once (Cfg.spurGet1), full oracle;
    # its SECOND read, under the lock - the protocol provably breaks (dist_spurious_get2_cex): correspondence only
    for wi, wk in enumerate(([0, 1], [0, 0])):
        exhaustive("dist", ["w1", "w2!g"], wk, HS, "spur:get1")
        if rot(wi):
            exhaustive("dist", ["w1!g", "w2!g"], wk, S.COARSE, "spur:get1")
    exhaustive("dist", ["w1!g", "w2!g", "f"], [0, 1, 1], S.COARSE, "spur:get1", gate=True)
    exhaustive("dist", ["w1!c!g", "w2!g"], [0, 1], S.COARSE, "spur:get1+fault:create")
    if not R.quick:
        exhaustive("dist", ["w1!g", "w2", "w3!g"], [0, 1, 1], frozenset({"acq", "create", "vget"}), "spur:get1")
    exhaustive("dist", ["w1", "w2!G"], [0, 1], HS, "spur:get2", oracle=None)
    exhaustive("dist", ["w1!G", "w2!gG"], [0, 0], S.COARSE, "spur:get2", oracle=None)
    # ---- several objects at once on one cluster (keys differing minimally: `k` / `k.ovr` / one letter): every object has
    # its own Variable and Lock (model DistN: one writer copy per worker and object, names per object)
    # (threads of different objects are independent: the interleavings multiply, so context switches are coarse)
    from odc.geo.cog import _s3 as _s3mod

    have_names = hasattr(_s3mod.DelayedS3Writer, "_build_name")  # private helper the name numbering reads
    if not have_names:
        R.notes.append("DelayedS3Writer._build_name is not there: the several-objects stream is skipped")
    else:
        exhaustive("dist", ["w1", "w1"], [0, 0], C2 if R.quick else S.COARSE, "objects:2", gate={"objects": [0, 1]})
        exhaustive("dist", ["w1", "w1"], [0, 1], C2 if R.quick else S.COARSE, "objects:2", gate={"objects": [0, 1]})
    # ---- crash points.  "!x": a thread dies right after the service carried out its upload_part (the record is
    # lost, the task is re-run elsewhere) - inside local_once / dist_once (Cfg.crashCall), full oracle.  "!X": it dies
    # right after the service created the upload, before the id is stored / published - the exactly-once claim is
    # provably lost (local_crash_before_setid_cex, dist_crash_before_publish_cex): correspondence + recovery oracle
    exhaustive("local", ["w1!x", "w2", "w1"], None, S.COARSE, "crash:lost-result+retry", gate={"after": {"2": [0]}})
    exhaustive("dist", ["w1!x", "w2", "w1"], [0, 1, 2], S.COARSE, "crash:lost-result+retry", gate={"after": {"2": [0]}})
    exhaustive("local", ["w1!X", "w2", "w1"], None, S.COARSE, "crash:window+retry", gate={"after": {"2": [0]}}, oracle=None)
    exhaustive("dist", ["w1!X", "w2", "w1"], [0, 1, 2], S.COARSE, "crash:window+retry", gate={"after": {"2": [0]}},
               oracle=None)
    if not R.quick:
        exhaustive("dist", ["w1!X", "w2", "w1", "f"], [0, 1, 0, 1], S.COARSE, "crash:window+retry+finalise",
                   gate={"gate": True, "after": {"2": [0]}}, oracle=None)
    # ---- names computed by the real code in separate interpreter processes (distinct hash salts) feed the
    # shared Variable / Lock store: worker w uses the names child process w asked for
    if xnames:
        for o in ({"xnames": xnames, "build_without_client": True}, {"xnames": xnames},
                  {"xnames": xnames[::-1], "build_without_client": True, "gate": True}):
            kinds = ["w1", "w2", "f"] if o.get("gate") else ["w1", "w2"]
            wk = [0, 1, 2] if o.get("gate") else [0, 1]
            exhaustive("dist", kinds, wk, HS, "xproc-names" + ("" if o.get("build_without_client") else "-prepared"),
                       gate=o)
        exhaustive("dist", ["w1", "w2"], [0, 1], HS, "built-before-client", gate={"build_without_client": True})
    # ---- copies of the writer: per-worker copies by deepcopy instead of pickle; copies (pickle / deepcopy /
    # copy) taken after the first write and used for later writes and the finalise
    exhaustive("dist", ["w1", "w2"], [0, 1], HS, "copies:deepcopy", gate={"copies": "deepcopy"})
    exhaustive("dist", ["w1", "w2", "f"], [0, 1, 1], S.COARSE, "copies:deepcopy", gate={"copies": "deepcopy", "gate": True})
    for li, late in enumerate((["pickle", "deepcopy", "copy"], ["copy", "pickle", "deepcopy"], ["deepcopy", "copy", "pickle"])):
        if not rot(li, 3):
            continue
        o = {"chain": True, "late_clone": [None] + late}
        exhaustive("local", ["w1", "w2", "w3", "f"], None, S.COARSE, "copies:late", gate=o)
        exhaustive("dist", ["w1", "w2", "w3", "f"], [0, 0, 0, 0], S.COARSE, "copies:late", gate=o)
    # ---- random fine-grained schedules of three / four threads, with stutter steps
    n = R.pick(400, 4000)
    rand("local", ["w1", "w2", "w3"], None, n)
    rand("local", ["w2", "f", "w1"], None, n)
    rand("local", ["w1", "w2", "w3", "f"], None, n // 2, gate=True)
    rand("dist", ["w1", "w2", "w3"], [0, 1, 1], n)
    rand("dist", ["w1", "w2", "w3"], [0, 0, 0], n // 2)
    rand("dist", ["w1", "w2", "w3", "f"], [0, 1, 0, 2], n, gate=True)
    rand("dist", ["w1", "f", "w2"], [0, 1, 1], n // 2, oracle=False)
    rand("dist", ["w1!g", "w2", "w3!g"], [0, 1, 1], n // 2)
    if have_names:
        rand("dist", ["w1", "w2", "w1", "w2"], [0, 1, 1, 0], n // 2, gate={"objects": [0, 0, 1, 1]})
        rand("dist", ["w1", "w1", "w1"], [0, 0, 1], n // 4, gate={"objects": [0, 1, 2]})
        rand("dist", ["w1", "w2", "f", "w1"], [0, 1, 0, 1], n // 4, gate={"objects": [0, 0, 0, 1], "gate": True})
    side_report(R, side)
    R.notes.append("interleaving classes ENUMERATED EXHAUSTIVELY (every maximal schedule with context switches at the "
                   "listed operations; count): " + " | ".join(enumerated))
    R.notes.append("interleaving classes only SAMPLED (random schedules at every step, with stutter steps): "
                   + " | ".join(sampled))
    rand("dist", ["w1!gG", "w2!G", "w3"], [0, 1, 1], n // 4, oracle=None)


# ------------------------------------------------------------------ one upload object over time (cancel)
K25_KEY = "seq:cancel-all-fails-next-to-upload-of-longer-key"
SEQK = {"filtered": None}  # which `list_active` the tree under test has (probed once per run, see `seqk_probe`)


def seqk_probe() -> bool:
    """does `list_active()` keep only the uploads of its own key?  One deterministic run of the real code decides
    which of the two PROVEN models (`SeqK.step false` = as found, `true` = repaired) the correspondence uses; the
    property itself is judged by the oracle `K25_KEY`, which does not depend on the answer."""
    from . import c18_sched as S

    if SEQK["filtered"] is None:
        st = S.run_seq(["X", "w", "ca"])["steps"][-1]
        SEQK["filtered"] = not any(c.startswith("abort=") and c != "abort=id2" for c in st["calls"])
    return SEQK["filtered"]


def seq_case(R: Run, ops: List[str], resumed: bool = False, k25: bool = False):
    from . import c18_sched as S

    out: Dict[str, Any] = {}

    def real():
        out.update(S.run_seq(ops, resumed))
        return out["text"]

    multi = any(o in ("X", "Y") for o in ops)
    if multi:
        line = f"c18 seqk {'T' if seqk_probe() else 'F'} {list_s(ops)}"
    else:
        line = f"c18 seq {list_s(ops)}" + (" R" if resumed else "")
    R.corr(line, real, sig=("seqk|" if multi else "seq-resumed|" if resumed else "seq|")
           + "".join(sorted({o[0] if o[0] != "c" else "c" for o in ops})))
    if not out:
        return
    case = {"ops": ops, "resumed": resumed}
    bad = S.bad_call_args([(n, a) for n, a in out["args"] if a.get("Key") != "some/key.tif" + S.OTHER_KEY_SUFFIX
                         and not (n == "abort" and multi)])
    R.oracle(not bad, "seq:storage-call-with-wrong-arguments", case, f"{bad}", trivial=True)
    if resumed:
        creates = [c for st in out["steps"] for c in st["calls"] if c.startswith("create=")]
        if all(o in ("w", "e") for o in ops):
            R.oracle(not creates and all(st["res"] == "ok" for st in out["steps"]), "seq:resumed-upload-initiates-again",
                     case, f"object built with uploadId='id1' (active): {out['text']}")
    for i, st in enumerate(out["steps"]):
        if st["op"] == "e":
            R.oracle(st["res"] == "ok" and not st["calls"] and st["after"] == st["before"],
                     "seq:ensure-init-final-write-touches-storage", {**case, "at": i},
                     f"_ensure_init(final_write=True) after {ops[:i]}: result {st['res']}, calls {st['calls']}, uploadId "
                     f"{st['before']!r} -> {st['after']!r}")
        if multi and st["op"] in ("ca", "cA") and k25:
            # the finding K25 on ONE deterministic case per run: cancel('all') next to an active upload of a longer key
            pre_foreign = out["steps"][i - 1]["foreign"] if i else []
            R.oracle(st["res"] == "ok" and st["after"] == "" and not st["active"] and st["foreign"] == pre_foreign
                     and not any(c == f"abort={u}" for c in st["calls"] for u in pre_foreign), K25_KEY, {**case, "at": i},
                     f"K25: key some/key.tif, active upload(s) {pre_foreign} of some/key.tif{S.OTHER_KEY_SUFFIX}: cancel('all') -> "
                     f"{st['res']}, storage calls {st['calls']}, uploadId afterwards {st['after']!r}")
    if multi and not seqk_probe():
        return  # as found: what follows a failed cancel('all') is judged by K25 only; the correspondence still compares
    case = {"ops": ops, "resumed": resumed}
    last_all = None  # number of uploads created when the last successful cancel("all") returned
    ncreated = 0
    for i, st in enumerate(out["steps"]):
        creates = [c for c in st["calls"] if c.startswith("create=")]
        used = [c.split("=", 1)[1] for c in st["calls"] if c.startswith(("upload:", "complete="))]
        op = st["op"]
        if op in ("ca", "cA") and st["res"] == "ok":
            R.oracle(st["after"] == "" and not st["active"], "seq:cancel-all-does-not-reset", {**case, "at": i},
                     f"after {ops[: i + 1]}: uploadId {st['after']!r}, active uploads {st['active']}")
        if op == "cc" or (op[0] == "c" and op[1:].isdigit() and "id" + op[1:] == st["before"]):
            if st["res"] == "ok" and st["before"]:
                R.oracle(st["after"] == "" and st["before"] not in st["active"], "seq:cancel-current-does-not-reset",
                         {**case, "at": i}, f"after {ops[: i + 1]}: uploadId {st['after']!r}, active {st['active']}")
        if op in ("w", "f"):
            if st["before"] == "":
                ok = len(creates) == 1 and used == [creates[0].split("=", 1)[1]] and st["res"] == "ok"
                R.oracle(ok, "seq:first-write-on-reset-object-not-exactly-one-upload", {**case, "at": i},
                         f"{ops[: i + 1]}: the object was not started; calls {st['calls']}, result {st['res']}")
            else:
                R.oracle(not creates and used == [st["before"]], "seq:write-on-started-object-changes-upload",
                         {**case, "at": i}, f"{ops[: i + 1]}: uploadId was {st['before']}; calls {st['calls']}")
            if last_all is not None:
                fresh = all(int(u[2:]) > last_all for u in used if u.startswith("id"))
                R.oracle(fresh, "seq:call-under-dead-id-after-cancel-all", {**case, "at": i},
                         f"{ops[: i + 1]}: calls {st['calls']} although cancel('all') succeeded when {last_all} "
                         "uploads had been created")
        ncreated += len(creates)
        if op in ("ca", "cA") and st["res"] == "ok":
            last_all = ncreated


def seq_cases(R: Run):
    from . import c18_sched as S

    L = R.pick(4, 5)
    for n in range(1, L + 1):
        for ops in itertools.product(S.SEQ_OPS, repeat=n):
            if n == L and "w" not in ops and "f" not in ops:
                continue
            seq_case(R, list(ops))
    # `_ensure_init(final_write=True)` ("e") anywhere in sequences of up to 3 (4) operations - a private entry point
    # without a caller: driven while it exists
    has_e = S.has_ensure_init()
    if not has_e:
        R.notes.append("DelayedS3Writer._ensure_init(final_write=...) is not there: that stream is skipped")
    EO = ["w", "f", "ca", "cc", "c1", "e"] if has_e else []
    for n in range(1, R.pick(3, 4) + 1):
        for ops in itertools.product(EO, repeat=n):
            if "e" in ops:
                seq_case(R, list(ops))
    # an object that resumes an active upload somebody else initiated (uploadId= argument)
    for n in range(1, R.pick(3, 4) + 1):
        for ops in itertools.product(["w", "f", "e", "cc", "ca", "c1"] if has_e else ["w", "f", "cc", "ca", "c1"], repeat=n):
            seq_case(R, list(ops), resumed=True)
    # the service also holds uploads of ANOTHER key that begins with this object's key ("X" starts / "Y" completes one)
    seq_case(R, ["X", "w", "ca", "w"], k25=True)
    KO = ["w", "f", "ca", "cc", "c1", "X", "Y"]
    for n in range(2, R.pick(4, 5) + 1):
        for ops in itertools.product(KO, repeat=n):
            if "X" in ops and ("ca" in ops or "c1" in ops or n < 4):
                seq_case(R, list(ops))
    # longer: cancel at every position of two full uploads of the same object
    base = ["w", "w", "f", "w", "w", "f"]
    for c in S.SEQ_OPS[2:]:
        for pos in range(len(base) + 1):
            seq_case(R, base[:pos] + [c] + base[pos:])
            for pos2 in range(pos, len(base) + 1):
                seq_case(R, base[:pos] + [c] + base[pos:pos2] + ["ca"] + base[pos2:])


# ------------------------------------------------------------------ the in-process S3 writer with bodies (model Up)
def up_case(R: Run, min_size: int, writes, plist, writes2, data_kind: str, tag: str):
    from . import c18_sched as S

    out: Dict[str, Any] = {}

    def real():
        out.update(S.run_up(min_size, writes, plist, writes2, data_kind))
        return out["text"]

    line = (f"c18 up {min_size} {list_s([f'{p}:{d}' for p, d in writes])} {list_s(plist)} "
            f"{list_s([f'{p}:{d}' for p, d in writes2])}")
    R.corr(line, real, sig=f"up|{tag}|{data_kind}")
    if not out:
        return
    case = {"min_size": min_size, "writes": writes, "parts": plist, "writes2": writes2, "data": data_kind}
    last = dict(writes)
    # what the multipart API answers, computed here from its rules (independent of the Lean model)
    if not plist:
        want = "ERR:AssertionError"
    elif any(a >= b for a, b in zip(plist, plist[1:])):
        want = "ERR:InvalidPartOrder"
    elif any(p not in last for p in plist):
        want = "ERR:InvalidPart"
    elif any(len(last[p]) < min_size for p in plist[:-1]):
        want = "ERR:EntityTooSmall"
    else:
        want = "ok"
    res = out["res"]
    R.oracle(res[0] == "w:ok", "up:first-writes-fail", case, f"{out['text']}")
    if len(res) > 1:
        R.oracle(res[1] == "f:" + want, "up:finalise-outcome-differs-from-multipart-rules", case,
                 f"finalise of parts {plist} after writes {writes} (minimal part size {min_size}): {res[1]}, the "
                 f"multipart API answers {want}", trivial=(want != "ok"))
        if want == "ok" and res[1] == "f:ok":
            exp = "".join(last[p] for p in plist).encode()
            R.oracle(out["object"] == exp, "up:object-not-concatenation-of-listed-parts", case,
                     f"object {out['object']!r}, expected {exp!r}")
            R.oracle(out["fin_result"] == {"Bucket": "bucket", "Key": "some/key.tif", "ETag": "final"},
                     "up:finalise-result", case, f"{out['fin_result']}", trivial=True)
    # exactly one upload, everything under it - also when the very first call is the finalise, or a call failed
    R.oracle(out["ncreate"] == (0 if (not writes and not plist) else 1), "up:not-exactly-one-upload-initiated", case,
             f"create_multipart_upload called {out['ncreate']} times: {out['text']}")
    R.oracle(all(u == "id1" for u in out["used_ids"]), "up:call-under-other-upload-id", case, f"{out['text']}")
    bad = S.bad_call_args([(n, a) for n, a in out["args"]])
    ups = [a for n, a in out["args"] if n == "upload"]
    seq = list(writes) + (list(writes2) if len(res) > 2 else [])
    for a, (p, d) in zip(ups, seq):
        if a["PartNumber"] != p or a["Body"] != d.encode():
            bad.append(f"upload_part({a['PartNumber']}, {a['Body']!r}) for writer({p}, {d!r})")
    if len(ups) != len(seq) and res[-1].endswith("ok"):
        bad.append(f"{len(ups)} upload_part calls for {len(seq)} writes")
    for a in (a for n, a in out["args"] if n == "complete"):
        if a["Parts"] != [{"PartNumber": p, "ETag": f"etag{p}"} for p in plist]:
            bad.append(f"complete: parts {a['Parts']} for {plist}")
    for r_, (p, d) in zip(out["results"], seq):
        if r_ != {"PartNumber": p, "ETag": f"etag{p}"}:
            bad.append(f"writer({p}, ...) returned {r_}")
    R.oracle(not bad, "up:storage-call-with-wrong-arguments", case, f"{bad}")


def up_cases(R: Run):
    rng = R.rng
    kinds = ["bytes", "bytearray", "memoryview"]
    k = 0

    def data(n):
        return "".join(rng.choice(LETTERS) for _ in range(n))

    for n in range(1, 4):
        nums = [1, 2, 3][:n]
        for sv in itertools.product([0, 1, 2] if (R.quick and n == 3) else [0, 1, 2, 3], repeat=n):
            for order in itertools.permutations(nums):
                writes = [(p, data(sv[p - 1])) for p in order]
                variants = [list(nums), list(nums)[::-1], list(nums)[:-1], list(nums)[1:], list(nums) + [7], []]
                if n == 3:
                    variants += [[1, 3], [2, 2, 3]]
                for plist in variants:
                    k += 1
                    if R.quick and n == 3 and k % 2:
                        continue
                    ms = (0, 2)[k % 2] if n < 3 else (0, 2, 1)[k % 3]
                    w2 = [] if k % 5 else [(rng.choice([1, 4]), data(2))]
                    tag = "sorted" if plist == nums else "reversed" if plist == nums[::-1] and n > 1 else \
                        "empty" if not plist else "unknown" if 7 in plist else "dup" if len(set(plist)) < len(plist) \
                        else "subset"
                    up_case(R, ms, writes, plist, w2, kinds[k % 3], tag + ("|write-after" if w2 else ""))
    # overwrites (a part uploaded twice: the later body counts), arbitrary part numbers, random order
    for _ in range(R.pick(200, 2500)):
        n = rng.randint(1, 5)
        nums = sorted(rng.sample([1, 2, 3, 5, 8, 13, 100, 9999, 10000], n))
        writes = [(p, data(rng.choice([0, 1, 2, 3, 6]))) for p in nums]
        rng.shuffle(writes)
        if rng.random() < 0.4:
            writes.insert(rng.randint(0, len(writes)), (rng.choice(nums), data(rng.choice([0, 2, 4]))))
        plist = list(nums)
        kind = rng.choice(["sorted", "sorted", "sorted", "swap", "subset", "unknown"])
        if kind == "swap" and n > 1:
            i = rng.randrange(n - 1)
            plist[i], plist[i + 1] = plist[i + 1], plist[i]
        elif kind == "subset":
            plist = sorted(rng.sample(nums, rng.randint(1, n)))
        elif kind == "unknown":
            plist = sorted(plist + [7])
        up_case(R, rng.choice([0, 1, 2, 3]), writes, plist, [] if rng.random() < 0.7 else [(rng.choice(nums), data(1))],
                rng.choice(kinds), "random|" + kind + ("|overwrite" if len(writes) > n else ""))


# ------------------------------------------------------------------ glue of the public entry points
def glue_cases(R: Run):
    from . import c18_sched as S

    for explicit in (False, True):
        for ambient in (False, True):
            out: Dict[str, Any] = {}

            def real():
                out.update(S.run_writer_prep(explicit, ambient))
                return out["text"]

            R.corr(f"c18 writerprep {'T' if explicit else 'F'} {'T' if ambient else 'F'}", real,
                   sig=f"writer-prep|explicit={explicit}|ambient={ambient}")
            if out:
                case = {"explicit_client": explicit, "ambient_client": ambient}
                want = "explicit" if explicit else "ambient" if ambient else "N"
                R.oracle(out["text"] == want and out["kw_is_same"] and out["nsets"] == (0 if want == "N" else 1)
                         and all(v is None for _, v in out["log"]), "glue:writer-prepared-with-wrong-client", case,
                         f"mpu.writer(kw{', client=c' if explicit else ''}) with{'' if ambient else 'out'} an ambient dask "
                         f"client: prepared with {out['text']} (expected {want}), Variable.set calls {out['log']}")
    rd = guarded(lambda: repr(S.run_read()))
    want_rd = repr({"whole": b"the object", "part": b"ranged:bytes=0-3",
                    "args": [{"Bucket": "bucket", "Key": "some/key.tif", "kw": {}},
                             {"Bucket": "bucket", "Key": "some/key.tif", "kw": {"Range": "bytes=0-3"}}]})
    R.oracle(rd == want_rd, "glue:read-does-not-return-the-object", {"fn": "MultiPartUpload.read"}, f"{rd}", trivial=True)
    extras = [{}, {"mk_header": (lambda *_: b"h"), "mk_footer": (lambda *_: b"f"), "user_kw": {"a": 1}, "writes_per_chunk": 3},
              {"ContentType": "image/tiff", "ACL": "private"}, {"writes_per_chunk": 2, "ContentType": "x/y"}]
    for spill in (0, 1, 4096, 5 * 2 ** 20, 20 * 2 ** 20, R.rng.randint(2, 1 << 40)):
        for ei, extra in enumerate(extras):
            for with_client in (False, True):
                out = {}

                def real():
                    out.update(S.run_upload_glue(spill, extra, with_client))
                    return out["text"]

                probe = guarded(real)
                if out.get("unavailable"):
                    R.notes.append("upload glue stream skipped: " + out["unavailable"])
                    return
                R.corr(f"c18 uploadwriter {spill}", lambda: probe, sig=f"upload-glue|spill={'0' if not spill else 'pos'}|client={with_client}")
                if not out:
                    continue
                case = {"spill_sz": spill, "extra": sorted(extra), "client": with_client}
                named = {k: extra[k] for k in ("mk_header", "mk_footer", "user_kw", "writes_per_chunk") if k in extra}
                want_kw = {"mk_header": None, "mk_footer": None, "user_kw": None, "writes_per_chunk": 1,
                           "spill_sz": spill, "dask_name_prefix": "s3finalise", **named}
                s3kw = {k: v for k, v in extra.items() if k not in named}
                ok = out["out"] == "the-delayed" and out["chunks_same"] and out["kw"] == want_kw
                if spill:
                    ok = ok and out["writer_mpu_same"] and out["writer_kw"] == s3kw and \
                        out["prepared"] == (1 if with_client else 0)
                else:
                    ok = ok and out["text"] == "N" and out["prepared"] == 0
                R.oracle(ok, "glue:upload-hands-wrong-arguments-to-mpu-write", case,
                         f"upload(chunks, spill_sz={spill}, {sorted(extra)}): writer {out['text']}, writer kw "
                         f"{out['writer_kw']}, mpu_write kw {out['kw']}, prepared {out['prepared']}")


def upload_e2e(R: Run):
    """`MultiPartUpload.upload(...)` end to end on real dask bags, in-process, against the service's real limits
    (5 MiB): what `mpu_upload_to_s3` (Props/C18C06.lean) says about the composition, observed"""
    import dask
    import dask.bag

    from . import c18_sched as S

    rng = R.rng
    MB = 1 << 20
    cfgs = [
        # (chunk sizes per partition, spill, writes_per_chunk, header?, footer?, scheduler)
        ([[6 * MB], [5 * MB + 3], [7]], 5 * MB, 1, True, False, "synchronous"),
        ([[3 * MB, 3 * MB], [1], [6 * MB], [2 * MB]], 6 * MB, 2, False, True, "threads"),
        ([[100], [200], [300]], 20 * MB, 1, True, True, "threads"),
        ([[5 * MB + 1, 5 * MB + 2, 11 * MB]], 1, 3, False, False, "synchronous"),
    ]
    if not R.quick:
        cfgs += [([[rng.randint(1, 7 * MB) for _ in range(rng.randint(1, 3))] for _ in range(rng.randint(1, 5))],
                  rng.choice([1, 5 * MB, 8 * MB]), rng.randint(1, 3), rng.random() < 0.5, rng.random() < 0.5,
                  rng.choice(["synchronous", "threads"])) for _ in range(4)]
    cfgs.append(([[4 * MB], [3 * MB]], 0, 1, True, False, "synchronous"))  # spill_sz=0: no writer, nothing uploaded
    for parts, spill, wpc, hdr, ftr, sched in cfgs:
        case = {"partitions": parts, "spill_sz": spill, "writes_per_chunk": wpc, "header": hdr, "footer": ftr,
                "scheduler": sched}
        cid = 0
        chunks = []
        for part in parts:
            row = []
            for n in part:
                row.append((bytes([97 + cid % 26]) * n, cid))
                cid += 1
            chunks.append(row)
        stream = b"".join(d for row in chunks for d, _ in row)
        try:
            with S._Patched() as px:  # pylint: disable=protected-access
                px.s3.min_size = 5 * MB
                mpu = S.instr_mpu_class()("bucket", "some/key.tif")
                bag = dask.bag.from_delayed([dask.delayed(row) for row in chunks])
                fut = mpu.upload(bag, mk_header=(lambda obs, **kw: b"H" * 11) if hdr else None,
                                 mk_footer=(lambda obs, **kw: b"F" * 5) if ftr else None,
                                 writes_per_chunk=wpc, spill_sz=spill, ContentType="image/tiff")
                rr = fut.compute(scheduler=sched)
                s3 = px.s3
                want = (b"H" * 11 if hdr else b"") + stream + (b"F" * 5 if ftr else b"")
                if spill == 0:
                    ok = not s3.args and bytes(getattr(rr, "data", b"")) == want
                    R.oracle(ok, "e2e:upload-without-spill", case,
                             f"storage calls {[n for n, _ in s3.args]}, result {type(rr).__name__}")
                    continue
                nums = [a["PartNumber"] for n, a in s3.args if n == "upload"]
                ok = s3.ncreate == 1 and set(s3.used_ids) == {"id1"} and s3.objects.get("some/key.tif") == want and \
                    len(set(nums)) == len(nums) and all(1 <= p <= 10000 for p in nums) and \
                    rr == {"Bucket": "bucket", "Key": "some/key.tif", "ETag": "final"}
                bad = [(n, a.get("Bucket"), a.get("Key")) for n, a in s3.args if (a.get("Bucket"), a.get("Key")) != ("bucket", "some/key.tif")]
                kw = [a["kw"] for n, a in s3.args if n == "create"]
                R.oracle(ok and not bad and kw == [{"ContentType": "image/tiff"}], "e2e:upload-does-not-leave-one-object",
                         case, f"creates {s3.ncreate}, ids used {sorted(set(s3.used_ids))}, part numbers {nums}, object "
                         f"{len(s3.objects.get('some/key.tif', b''))} bytes (expected {len(want)}), equal "
                         f"{s3.objects.get('some/key.tif') == want}, result {rr}, create kw {kw}, wrong addresses {bad}")
        except Exception as e:  # pylint: disable=broad-except
            R.oracle(False, "e2e:upload-raises", case, f"{type(e).__name__}: {e}")


# ------------------------------------------------------------------ cross-process stage
def xproc_start(R: Run):
    from . import c18_xproc as X

    objs = X.make_objects()
    req = {"mode": "names", "objects": [{k: o[k] for k in ("bucket", "key", "kw", "pickles")} for o in objs]}
    seeds = ["0", "1", str(R.rng.randrange(2, 1 << 32))]
    return {
        "objs": objs, "seeds": seeds,
        "names": [X.spawn(req, hs) for hs in seeds],
        "real": X.spawn({"mode": "realcluster", "bucket": "bucket", "key": "some/key.tif",
                         "kw": {"ContentType": "image/tiff"}}, None),
    }


def xproc_names(R: Run, h) -> Optional[List[Dict[str, str]]]:
    """every interpreter (distinct hash salts; writer unpickled - prepared or not - or rebuilt from the same
    arguments) must ask the scheduler for the same Variable / Lock names and compute the same tokens as the
    client process; returns, per child process, the names its real code asked for"""
    from . import c18_sched as S
    from . import c18_xproc as X

    sig = S.fake_signatures_match()
    R.oracle(all(v["ok"] for v in sig.values()), "harness:fake-distributed-signature-differs", sig,
             f"fake Variable/Lock signatures differ from the installed distributed: {sig}", trivial=True)
    res = [X.collect(p, 90) for p in h["names"]]
    bad = [r for r in res if "infra" in r]
    if bad:
        R.notes.append(f"cross-process stage unavailable: {bad[0]['infra'][:300]}")
        return None
    fields = PREF = ["MPUpload", "MPULock", "token", "mpu_token", "var", "lock"]
    for oi, ob in enumerate(h["objs"]):
        for flavour in ("unprepared", "prepared", "rebuilt"):
            want = {f: ob["parent"][flavour][f] for f in fields}
            got = [{f: r["objects"][oi][flavour][f] for f in fields} for r in res]
            ok = all(g == want for g in got) and want["var"] is not None and want["lock"] is not None
            # ... and the three ways of obtaining the writer agree among themselves
            ok = ok and all(ob["parent"][fl][f] == want[f] for fl in ("unprepared", "prepared", "rebuilt")
                            for f in ("MPUpload", "MPULock", "token", "var", "lock"))
            R.oracle(ok, "dist:shared-name-differs-across-processes",
                     {"bucket": ob["bucket"], "key": ob["key"], "writer": flavour, "hashseeds": h["seeds"]},
                     f"client process: {want}; worker processes (PYTHONHASHSEED {h['seeds']}): {got}")
    # ... while DIFFERENT objects (another key, another bucket) never share a Variable or a Lock
    for f in ("MPUpload", "MPULock", "var", "lock"):
        names = [(ob["bucket"], ob["key"], ob["parent"]["unprepared"][f]) for ob in h["objs"]]
        clash = [(a[:2], b[:2], a[2]) for i, a in enumerate(names) for b in names[i + 1:]
                 if a[2] == b[2] and a[2] is not None]  # None: the private helper that would tell is not there
        R.oracle(not clash, "dist:different-objects-share-a-name", {"field": f, "objects": [n[:2] for n in names]},
                 f"{f}: {clash}")
    # names asked for by the first write of a not prepared writer in each child (first object)
    return [{"MPUpload": r["objects"][0]["unprepared"]["var"], "MPULock": r["objects"][0]["unprepared"]["lock"]}
            for r in res]


def xproc_real(R: Run, h):
    from . import c18_xproc as X

    r = X.collect(h["real"], 120)
    if "infra" in r or (r.get("cluster") or "").startswith("unavailable"):
        R.notes.append(f"real in-process cluster stage unavailable: {str(r)[:300]}")
        return
    calls = r["calls"]
    creates = [c for c in calls if c[0] == "create"]
    ids = {c[-1] for c in calls}
    ok = r["error"] is None and len(creates) == 1 and len(ids) == 1 and \
        sorted(c[1] for c in calls if c[0] == "upload") == [1, 2] and any(c[0] == "complete" for c in calls)
    R.oracle(ok, "dist:real-cluster-protocol-fails", {"stage": "real in-process distributed cluster, sequential "
             "first write / second write through a pickled copy / finalise through a deep copy"},
             f"error {r['error']!r}, storage calls {calls}")


# ------------------------------------------------------------------ file sink
LETTERS = "abcdefghijklmnopqrstuvwxyz"


class _ShortRaw(io.FileIO):
    """Raw file whose write() accepts at most `limit` bytes per call and reports how many it
    took - the documented behaviour of write(2) for huge (> 0x7ffff000 bytes) or interrupted
    writes, scaled down.  Buffered writers loop until everything is written, so correct code
    still produces the right file; a single unchecked raw write truncates."""

    limit = 2

    def write(self, b):
        mv = memoryview(b).cast("B")
        return super().write(mv[: self.limit])


def _fault_open(limit: int):
    def fopen(file, mode="r", buffering=-1, encoding=None, errors=None, newline=None, closefd=True, opener=None):
        if "b" in mode and any(c in mode for c in "wax+"):
            raw = _ShortRaw(os.fspath(file), mode.replace("b", ""))
            raw.limit = limit
            if buffering == 0:
                return raw
            size = io.DEFAULT_BUFFER_SIZE if buffering < 0 else max(1, buffering)
            if "+" in mode:
                return io.BufferedRandom(raw, size)
            return io.BufferedWriter(raw, size)
        return builtins.open(file, mode, buffering, encoding, errors, newline, closefd, opener)

    return fopen


class FaultPath(type(Path())):  # module level: copies of a sink holding such paths must pickle
    _fopen = None

    def open(self, mode="r", buffering=-1, encoding=None, errors=None, newline=None):
        return type(self)._fopen(self, mode, buffering, encoding, errors, newline)


class _short_writes:
    """context: every file `odc.geo.cog._mpu_fs` opens for writing (through `open` or
    `Path.open`) sits on a `_ShortRaw`; nothing in odc-geo is edited"""

    def __init__(self, limit: Optional[int]):
        self.limit = limit

    def __enter__(self):
        if self.limit is None:
            return self
        from odc.geo.cog import _mpu_fs

        fopen = _fault_open(self.limit)
        FaultPath._fopen = staticmethod(fopen)
        self._mod = _mpu_fs
        # the module's own names for opening files (today: the builtin `open` and `pathlib.Path`); where a name is
        # not used by the module the fault model simply does not bite there
        self._old_path = getattr(_mpu_fs, "Path", None)
        self._had_open = "open" in vars(_mpu_fs)
        self._old_open = vars(_mpu_fs).get("open")
        _mpu_fs.open = fopen
        if self._old_path is not None and isinstance(self._old_path, type) and issubclass(type(Path()), self._old_path):
            _mpu_fs.Path = FaultPath
        return self

    def __exit__(self, *exc):
        if self.limit is not None:
            if self._had_open:
                self._mod.open = self._old_open
            else:
                del self._mod.open
            if self._old_path is not None:
                self._mod.Path = self._old_path
        return False


def parts_left(pdir: Path, recs) -> List[Any]:
    """(part number, content) of the files left in a parts directory; a file is attributed to a part through the
    `Path` the sink returned for it (`recs`: part -> record), whatever the files are called"""
    by_path = {str(Path(r["Path"])): p for p, r in recs.items() if r}
    left = []
    for f in sorted(pdir.iterdir()):
        p = by_path.get(str(f))
        if p is None:
            digits = "".join(c for c in f.stem if c.isdigit())
            p = int(digits) if digits else -1
        left.append((p, f.read_bytes().decode()))
    left.sort()
    return left


def sink_case(R: Run, root: Path, writes, plist, keep: bool, base_kind: str, tag: str,
              short: Optional[int] = None, copy_how: Optional[str] = None, copy_when: str = "before"):
    """writes: list of (part, str) in write order; plist: part numbers handed to finalise;
    short: None, or the number of bytes a raw write accepts per call (short-write fault model);
    copy_how: None, or "pickle" | "copy" | "deepcopy": the parts are written and the file is finalised through
    copies of the sink, taken before its first use or after its first write"""
    from odc.geo.cog._mpu_fs import MPUFileSink

    work = Path(tempfile.mkdtemp(dir=root))
    dst = work / "out" / "result.bin"
    dst.parent.mkdir()
    base = {"none": None, "dir": work / "elsewhere", "nested": work / "a" / "b"}[base_kind]
    if base_kind == "dir":
        base.mkdir()
    line = (f"c18 sink T {list_s([f'{p}:{d}' for p, d in writes])} {list_s(plist)} "
            f"{'T' if keep else 'F'}")
    state: Dict[str, Any] = {}

    def real():
        with _short_writes(short):
            return real_()

    def real_():
        from .c18_sched import clone

        sink = MPUFileSink(dst, parts_base=base)
        orig = sink
        recs: Dict[int, Dict[str, Any]] = {}
        pdir = None
        for i, (p, d) in enumerate(writes):
            if copy_how and ((copy_when == "before" and i == 0) or (copy_when == "after" and i == 1)):
                sink = clone(orig, copy_how)
            r = sink(p, d.encode())
            assert r["PartNumber"] == p and r["Size"] == len(d)
            recs[p] = r
            pdir = Path(r["Path"]).parent
        if pdir is None:
            pdir = (dst.parent if base is None else base) / f".{dst.name}.parts"
        state["pdir"] = pdir
        parts = [recs.get(p, {"PartNumber": p, "Path": str(pdir / f"never-written-{p}.bin"), "Size": 0}) for p in plist]
        err = "ok"
        if copy_how:
            sink = clone(sink, copy_how)  # the finalise task gets its own copy
        try:
            out = sink.finalise(parts, keep_parts=keep)
            assert Path(out) == dst
        except AssertionError:
            err = "ERR:AssertionError"
        except FileNotFoundError:
            err = "ERR:FileNotFoundError"
        except ValueError:
            err = "ERR:ValueError"
        except OSError:
            err = "ERR:OSError"
        content = dst.read_bytes().decode() if dst.exists() else None
        left = parts_left(pdir, recs) if pdir.exists() else []
        state.update(err=err, content=content, left=left, dir=pdir.exists())
        return (f"{err} ; dst{'N' if content is None else '=' + content} ; "
                f"parts={list_s([f'{p}:{d}' for p, d in left])} ; dir={'T' if pdir.exists() else 'F'}")

    R.corr(line, real, sig=f"sink|{tag}|keep={keep}|{base_kind}|{'short-writes' if short else 'plain'}"
           + (f"|via-{copy_how}-{copy_when}" if copy_how else ""))
    # ---- property oracle (no model): listed parts distinct and all written
    last = dict(writes)
    if state and plist and len(set(plist)) == len(plist) and all(p in last for p in plist):
        case = {"writes": writes, "parts": plist, "keep": keep, "base": base_kind, "short_write": short,
                "copy_how": copy_how, "copy_when": copy_when}
        want = "".join(last[p] for p in plist)
        complete = set(plist) == set(last)
        okerr = state["err"] == "ok" or (state["err"] == "ERR:OSError" and not keep and not complete)
        R.oracle(okerr, "sink:finalise-raises", case, f"finalise raised {state['err']} (dst={state['content']!r})")
        R.oracle(state["content"] == want, "sink:destination-not-concatenation", case,
                 f"destination {state['content']!r}, expected {want!r}")
        if complete and not keep:
            R.oracle(not state["dir"], "sink:parts-dir-not-removed", case, f"left {state['left']}")
        if keep:
            wl = sorted((p, last[p]) for p in last if p != plist[0])
            R.oracle(state["left"] == wl, "sink:keep-parts-lost", case, f"left {state['left']} expected {wl}")
    shutil.rmtree(work, ignore_errors=True)


def sink_cases(R: Run, root: Path):
    from odc.geo.cog._mpu_fs import MPUFileSink

    rng = R.rng

    def data(n):
        return "".join(rng.choice(LETTERS) for _ in range(n))

    sizes = [0, 1, 3]
    # exhaustive: n parts (1..4), every size vector, given order / reversed, keep, placement cycling
    k = 0
    for n in range(1, 5):
        for sv in itertools.product(sizes, repeat=n):
            nums = list(range(1, n + 1))
            writes = [(p, data(s)) for p, s in zip(nums, sv)]
            for order in (nums, nums[::-1]):
                for keep in (False, True):
                    k += 1
                    sink_case(R, root, writes, list(order), keep, ("none", "dir", "nested")[k % 3],
                              "all-parts" + ("|empty-part" if 0 in sv else ""), short=(None, 1, 2, None, 5)[k % 5],
                              copy_how=(None, "pickle", None, "deepcopy", None, "copy", None)[k % 7],
                              copy_when=("before", "after")[(k // 7) % 2])
    # random: 1..6 parts, arbitrary part numbers, overwrites, permutations, subsets, duplicates, unknown parts
    for _ in range(R.pick(300, 3000)):
        n = rng.randint(1, 6)
        nums = rng.sample([1, 2, 3, 4, 5, 6, 7, 9, 10, 17, 9999, 10000, 12345], n)
        writes = [(p, data(rng.choice([0, 0, 1, 2, 5, 17, 40]))) for p in nums]
        if rng.random() < 0.3:
            writes.append((rng.choice(nums), data(rng.choice([0, 4]))))
        kind = rng.choice(["perm", "perm", "subset", "dup", "unknown", "empty"])
        plist = list(nums)
        rng.shuffle(plist)
        if kind == "subset":
            plist = plist[: rng.randint(1, n)]
        elif kind == "dup":
            plist.insert(rng.randint(0, len(plist)), rng.choice(plist))
        elif kind == "unknown":
            plist.insert(rng.randint(0, len(plist)), 8)
        elif kind == "empty":
            plist = []
        sink_case(R, root, writes, plist, rng.random() < 0.4, rng.choice(["none", "dir", "nested"]), kind,
                  short=rng.choice([None, None, 1, 3, 16, 4096]),
                  copy_how=rng.choice([None, None, "pickle", "deepcopy", "copy"]), copy_when=rng.choice(["before", "after"]))
    # big parts (several pages) next to an empty one
    big = data(3) * 3000
    sink_case(R, root, [(1, big), (2, ""), (3, big[:5000])], [1, 2, 3], False, "none", "big|empty-part")
    sink_case(R, root, [(1, big[:10]), (2, big), (3, ""), (4, big[:5000])], [1, 2, 3, 4], False, "dir",
              "big|empty-part", short=1000)
    # the replay of F17
    sink_case(R, root, [(1, "abc"), (2, ""), (3, "zz")], [1, 2, 3], False, "none", "all-parts|empty-part")

    # part file placement
    for base_kind in ("none", "dir", "nested"):
        for part in (0, 1, 7, 42, 999, 1000, 9999, 10000, 123456):
            work = Path(tempfile.mkdtemp(dir=root))
            dst = work / "o.tif"
            base = {"none": None, "dir": work / "pb", "nested": work / "x" / "y"}[base_kind]
            SOFT.add(f"c18 path {work} o.tif {opt_s(base)} {part}",
                     lambda: MPUFileSink(dst, parts_base=base)(part, b"")["Path"], "names of the temporary part files")
            # behavioural: the record names a file that exists, inside the given parts_base when there is one
            got = guarded(lambda: MPUFileSink(dst, parts_base=base)(part, b"")["Path"])
            R.oracle(not got.startswith("ERR:") and Path(got).is_file() and
                     (base is None or str(Path(got)).startswith(str(base))), "sink:part-record-names-no-file",
                     {"part": part, "base": base_kind}, f"record path {got}", trivial=True)
            shutil.rmtree(work, ignore_errors=True)


# ------------------------------------------------------------------ several sinks alive at once
SINK_PAIRS = [
    # (destination A, destination B, parts_base placement): minimal differences between two live sinks
    ("d/dem.tif", "d/dem.msk", None),          # only the suffix differs
    ("d/dem.tif", "d/dem.msk", "common"),
    ("d/a.tif", "d/a.tif.ovr", None),          # one name a prefix of the other
    ("d/a.tif", "d/a.tif.ovr", "common"),
    ("d/A.tif", "d/a.tif", None),              # only the case differs
    ("d/x.tif", "e/x.tif", None),              # only the directory differs
    ("d/x.tif", "e/x.tif", "own"),             # same name under different parts_base
    ("d/x", "d/x.parts", "common"),            # a destination named like a parts directory
    ("d/.x.tif", "d/x.tif", None),             # hidden twin
    ("d/x.tif.parts", "d/.x.tif", "common"),
    ("d/data.tar.gz", "d/data.tar.bz2", None), # double suffix
]


K24_KEY = "sink:same-name-under-common-parts-base-collides"


def multi_sink_case(R: Run, root: Path, a: str, b: str, base_kind, order, keep: bool, datas, collide: bool = False,
                    k24: bool = False):
    """two sinks alive at once; `order` interleaves their operations (0 / 1 = next operation of sink A / B, each
    doing write 1, write 2, finalise).  Correspondence: the file-system model `FS.run` (driver op `msink`), which
    also predicts what happens when the two share a parts directory.  Oracle (pairs that do not share one): every
    destination holds exactly its own bytes, nothing foreign or left over remains."""
    from odc.geo.cog._mpu_fs import MPUFileSink

    work = Path(tempfile.mkdtemp(dir=root))
    (work / "d").mkdir()
    (work / "e").mkdir()
    bnames = {None: (None, None), "common": ("pb", "pb"), "own": ("pb0", "pb1")}[base_kind]
    bases = [None if n is None else work / n for n in bnames]
    dsts = [work / a, work / b]
    res: List[Dict[str, Any]] = [{}, {}]
    cfgs, ops = [], []
    for i, d in enumerate((a, b)):
        dr, nm = d.rsplit("/", 1)
        cfgs.append(f"{dr}|{nm}|{bnames[i] or 'N'}")
    cnt = [0, 0]
    for i in order:
        k = cnt[i]
        cnt[i] += 1
        ops.append(f"{i}:w:{k + 1}:{datas[i][k]}" if k < 2 else f"{i}:f:{'T' if keep else 'F'}:1.2")
    line = f"c18 msink {list_s(cfgs)} {list_s(ops)}"

    def real():
        sinks = [MPUFileSink(dsts[i], parts_base=bases[i]) for i in (0, 1)]
        recs: List[List[Dict[str, Any]]] = [[], []]
        errs, last = [], ["ok", "ok"]
        for i in order:
            k = len(recs[i])
            e = "ok"
            try:
                if k < 2:
                    recs[i].append(sinks[i](k + 1, datas[i][k].encode()))
                else:
                    recs[i].append(None)
                    sinks[i].finalise(recs[i][:2], keep_parts=keep)
            except AssertionError:
                e = "ERR:AssertionError"
            except FileNotFoundError:
                e = "ERR:FileNotFoundError"
            except ValueError:
                e = "ERR:ValueError"
            except OSError:
                e = "ERR:OSError"
            errs.append(e)
            if k >= 2:
                last[i] = e
        outs = []
        for i in (0, 1):
            pdir = (dsts[i].parent if bases[i] is None else bases[i]) / f".{dsts[i].name}.parts"
            content = dsts[i].read_bytes().decode() if dsts[i].is_file() else None
            left = []
            if pdir.is_dir():
                left = parts_left(pdir, {k + 1: r for k, r in enumerate(recs[i][:2])})
            res[i].update(err=last[i], content=content, left=left, dir=pdir.is_dir())
            outs.append(f"dst{'N' if content is None else '=' + content} ; "
                        f"parts={list_s([f'{p}:{d}' for p, d in left])} ; dir={'T' if pdir.is_dir() else 'F'}")
        res[0]["tree"] = sorted(str(f.relative_to(work)) for f in work.rglob("*") if f.is_file())
        return f"{','.join(errs)} | {' | '.join(outs)}"

    R.corr(line, real, sig=f"multi-sink|{base_kind}|keep={keep}" + ("|shared-parts-dir" if collide else ""))
    case = {"a": a, "b": b, "base": base_kind, "order": list(order), "keep": keep, "data": datas}
    # known finding K24 (Lean: common_parts_base_cex): the property itself, on the one case per run that asks for it.
    # Tight guard: same file NAME, different directories, a COMMON parts_base - anything else that interferes is
    # reported under sink:two-sinks-interfere.
    if res[0] and k24 and collide:
        (da, na), (db, nb) = a.rsplit("/", 1), b.rsplit("/", 1)
        if na == nb and da != db and base_kind == "common":
            ok = all(res[i]["err"] == "ok" and res[i]["content"] == "".join(datas[i]) for i in (0, 1))
            R.oracle(ok, K24_KEY, case,
                     f"K24: {a} holds {res[0]['content']!r} (own parts {''.join(datas[0])!r}, finalise {res[0]['err']}), "
                     f"{b} holds {res[1]['content']!r} (own parts {''.join(datas[1])!r}, finalise {res[1]['err']}): "
                     "both sinks use the parts directory pb/.x.tif.parts")
    if res[0] and not collide:
        for i in (0, 1):
            want = "".join(datas[i])
            R.oracle(res[i]["err"] == "ok" and res[i]["content"] == want, "sink:two-sinks-interfere", {**case, "sink": i},
                     f"destination {(a, b)[i]} holds {res[i]['content']!r} (finalise: {res[i]['err']}), its parts are "
                     f"{want!r}; the other sink writes {(b, a)[i]}")
        if not keep:
            R.oracle(res[0]["tree"] == sorted([a, b]), "sink:two-sinks-leave-files", case,
                     f"files left under the work directory: {res[0]['tree']}")
    shutil.rmtree(work, ignore_errors=True)


def multi_sink_cases(R: Run, root: Path):
    rng = R.rng
    orders = sorted(set(itertools.permutations([0, 0, 0, 1, 1, 1])))  # the 20 interleavings
    for a, b, base_kind in SINK_PAIRS:
        for n, order in enumerate(orders):
            if R.quick and n % 2 and base_kind is not None:
                continue
            datas = [["".join(rng.choice(LETTERS) for _ in range(rng.choice([0, 1, 3]))) for _ in range(2)]
                     for _ in range(2)]
            if datas[0] == datas[1]:
                datas[1][1] += "z"  # the two sinks must be distinguishable by content
            multi_sink_case(R, root, a, b, base_kind, order, keep=(n % 5 == 0), datas=datas)
    # the same destination NAME in two directories under a COMMON parts_base: the two sinks share one parts directory
    # (known finding K24, Lean `common_parts_base_cex`): every interleaving is compared with the file-system model; the
    # property oracle is evaluated on ONE deterministic case per run, which prints the KNOWN-FINDING line
    multi_sink_case(R, root, "d/x.tif", "e/x.tif", "common", (0, 1, 0, 1, 0, 1), keep=False,
                    datas=[["AA", "AA"], ["b", "b"]], collide=True, k24=True)
    for n, order in enumerate(orders):
        datas = [["".join(rng.choice(LETTERS) for _ in range(rng.choice([1, 2, 3]))) for _ in range(2)] for _ in range(2)]
        multi_sink_case(R, root, "d/x.tif", "e/x.tif", "common", order, keep=(n % 5 == 0), datas=datas, collide=True)


# ------------------------------------------------------------------ sinks over time: arbitrary operation sequences
def sink_seq_case(R: Run, root: Path, specs, ops, forms, tag: str, rounds_oracle: bool = False):
    """1..3 sink OBJECTS (two of them may name the same destination: a sink re-created for a second export) and an
    arbitrary sequence of their operations - (i, "w", part, data) / (i, "f", keep, [parts]) - compared with the
    file-system model `FS.run` (driver op `msink`), destination and parts directories inspected at the end.
    specs[i] = (dir, name, parts_base name or None); forms[i] = how the arguments are spelled:
    (dst as "path" | "str" | "str/", parts_base as "path" | "str", keep_parts "kw" | "pos")."""
    from odc.geo.cog._mpu_fs import MPUFileSink

    work = Path(tempfile.mkdtemp(dir=root))
    for d in {sp[0] for sp in specs}:
        (work / d).mkdir()
    dsts = [work / d / n for d, n, _ in specs]
    bases = [None if b is None else work / b for _, _, b in specs]
    pdirs = [(dsts[i].parent if bases[i] is None else bases[i]) / f".{dsts[i].name}.parts" for i in range(len(specs))]
    cfgs = [f"{d}|{n}|{b or 'N'}" for d, n, b in specs]
    mops = [f"{i}:w:{o[0]}:{o[1]}" if kind == "w" else f"{i}:f:{'T' if o[0] else 'F'}:{'.'.join(map(str, o[1]))}"
            for i, kind, *o in ops]
    line = f"c18 msink {list_s(cfgs)} {list_s(mops)}"
    seen: Dict[str, Any] = {}

    def spell(pth, form):
        return pth if form == "path" else str(pth) + ("/" if form == "str/" else "")

    def real():
        sinks = [MPUFileSink(spell(dsts[i], forms[i][0]),
                             parts_base=None if bases[i] is None else spell(bases[i], forms[i][1]))
                 for i in range(len(specs))]
        recs: List[Dict[int, Any]] = [{} for _ in specs]
        allrecs: List[Dict[int, Any]] = [{} for _ in specs]
        errs, after = [], []
        for i, kind, *o in ops:
            e = "ok"
            try:
                if kind == "w":
                    r = sinks[i](o[0], o[1].encode())
                    assert r["PartNumber"] == o[0] and r["Size"] == len(o[1]) and Path(r["Path"]).is_file(), r
                    recs[i][o[0]] = r
                    pdirs[i] = Path(r["Path"]).parent
                    # the record a part was written with stays valid for every sink object of the same parts directory
                    for j in range(len(specs)):
                        if specs[j] == specs[i] or (specs[j][1] == specs[i][1] and (specs[j][2] or specs[j][0]) == (specs[i][2] or specs[i][0])):
                            allrecs[j][o[0]] = r
                else:
                    parts = [allrecs[i].get(p, {"PartNumber": p, "Path": str(pdirs[i] / f"never-written-{p}.bin"), "Size": 0})
                             for p in o[1]]
                    out = sinks[i].finalise(parts, o[0]) if forms[i][2] == "pos" else \
                        sinks[i].finalise(parts, keep_parts=o[0])
                    assert Path(out) == dsts[i], out
            except AssertionError:
                e = "ERR:AssertionError"
            except FileNotFoundError:
                e = "ERR:FileNotFoundError"
            except ValueError:
                e = "ERR:ValueError"
            except OSError:
                e = "ERR:OSError"
            errs.append(e)
            after.append((e, dsts[i].read_bytes().decode() if dsts[i].is_file() else None, pdirs[i].is_dir()))
        outs = []
        for i in range(len(specs)):
            content = dsts[i].read_bytes().decode() if dsts[i].is_file() else None
            left = parts_left(pdirs[i], allrecs[i]) if pdirs[i].is_dir() else []
            outs.append(f"dst{'N' if content is None else '=' + content} ; "
                        f"parts={list_s([f'{p}:{d}' for p, d in left])} ; dir={'T' if pdirs[i].is_dir() else 'F'}")
        seen["after"] = after
        return f"{','.join(errs)} | {' | '.join(outs)}"

    R.corr(line, real, sig=f"sink-seq|{tag}|{len(specs)}sinks|" + "+".join(sorted({'/'.join(f) for f in forms})))
    if rounds_oracle and seen:
        # rounds on ONE sink: every round writes distinct parts and finalises exactly those (keep_parts=False):
        # after each finalise the destination is this round's data, in the order listed, and the parts are gone
        cur: Dict[int, str] = {}
        for (i, kind, *o), (e, content, has_dir) in zip(ops, seen["after"]):
            if kind == "w":
                cur[o[0]] = o[1]
            else:
                want = "".join(cur[p] for p in o[1])
                R.oracle(e == "ok" and content == want and not has_dir, "sink:later-round-does-not-replace-destination",
                         {"specs": specs, "ops": ops, "forms": forms},
                         f"round finalised parts {o[1]} of {cur}: {e}, destination {content!r} (expected {want!r}), "
                         f"parts directory left: {has_dir}")
                cur = {}
    shutil.rmtree(work, ignore_errors=True)


def sink_seq_cases(R: Run, root: Path):
    rng = R.rng
    dforms, bforms, kforms = ["path", "str", "str/"], ["path", "str"], ["kw", "pos"]

    def data():
        return "".join(rng.choice(LETTERS) for _ in range(rng.choice([0, 1, 1, 2, 3])))

    def form():
        return (rng.choice(dforms), rng.choice(bforms), rng.choice(kforms))

    # rounds on one sink (the same product exported again), also through a re-created sink object
    k = 0
    for base in (None, "pb"):
        for nrounds in (2, 3):
            for order in ("asc", "desc"):
                for recreate in (False, True):
                    k += 1
                    specs = [("d", "x.tif", base)] * (2 if recreate else 1)
                    ops = []
                    for r in range(nrounds):
                        i = r % len(specs)
                        nums = rng.sample([1, 2, 3, 4], rng.randint(1, 3))
                        for p in nums:
                            ops.append((i, "w", p, data()))
                        lst = sorted(nums, reverse=(order == "desc"))
                        ops.append((i, "f", False, lst))
                    fm = [(dforms[k % 3], bforms[k % 2], kforms[k % 2])] * len(specs)
                    sink_seq_case(R, root, specs, ops, fm, "rounds" + ("|recreated" if recreate else ""), rounds_oracle=True)
    # a destination that exists before the first round (an earlier export by other means)
    pool = [("d", "x.tif", None), ("d", "x.tif", "pb"), ("e", "x.tif", "pb"), ("d", "y.bin", None), ("e", "x.tif", None),
            ("d", "x.tif.ovr", "pb")]
    for _ in range(R.pick(250, 1500)):
        ns = rng.choice([1, 1, 2, 2, 3])
        specs = [rng.choice(pool) for _ in range(ns)]
        ops = []
        for _ in range(rng.randint(3, 10)):
            i = rng.randrange(ns)
            if rng.random() < 0.62:
                ops.append((i, "w", rng.choice([1, 2, 3]), data()))
            else:
                lst = rng.sample([1, 2, 3], rng.randint(1, 3))
                if rng.random() < 0.1:
                    lst.append(rng.choice(lst))
                if rng.random() < 0.05:
                    lst = []
                ops.append((i, "f", rng.random() < 0.3, lst))
        shared = len({(b or d, n) for d, n, b in specs}) < ns
        sink_seq_case(R, root, specs, ops, [form() for _ in specs], "random" + ("|shared-parts-dir" if shared else ""))


# ------------------------------------------------------------------ crash during MPUFileSink.finalise; paged listing
class CrashPath(type(Path())):
    """`Path` as `odc.geo.cog._mpu_fs` sees it, with an injected failure: the `budget`-th call of rename / stat (the
    calls that open the handling of the next listed part) raises - the process is gone at that point"""
    budget = None
    fired = False

    def _tick(self):
        cls = type(self)
        if cls.budget is not None:
            if cls.budget == 0:
                cls.budget = None
                cls.fired = True
                raise Killed_()
            cls.budget -= 1

    def rename(self, target):
        self._tick()
        return super().rename(target)

    def stat(self, *a, **kw):
        self._tick()
        return super().stat(*a, **kw)


class Killed_(BaseException):
    pass


def sink_crash_cases(R: Run, root: Path):
    """finalise interrupted after k of the listed parts (model `Sink.finaliseCrash`, theorem sink_crash_keeps_all_bytes):
    the destination is the concatenation of the first k parts, the others are still there - nothing lost, nothing
    twice; then a second finalise of the same list (sink_finalise_retry_after_crash_cex: not restartable)"""
    from odc.geo.cog import _mpu_fs

    rng = R.rng
    old_path = getattr(_mpu_fs, "Path", None)
    if old_path is None or not (isinstance(old_path, type) and issubclass(type(Path()), old_path)):
        R.notes.append("sink crash stream skipped: odc.geo.cog._mpu_fs does not go through pathlib.Path")
        return
    for n in (1, 2, 3, 4):
        for k in range(0, n + 1):
            for order in ("asc", "desc"):
                nums = list(range(1, n + 1))
                writes = [(p, "".join(rng.choice(LETTERS) for _ in range(rng.choice([0, 1, 2, 3])))) for p in nums]
                plist = nums if order == "asc" else nums[::-1]
                work = Path(tempfile.mkdtemp(dir=root))
                dst = work / "out.bin"
                st: Dict[str, Any] = {}

                def real():
                    sink = _mpu_fs.MPUFileSink(dst)
                    recs = {p: sink(p, d.encode()) for p, d in writes}
                    pdir = Path(recs[nums[0]]["Path"]).parent
                    _mpu_fs.Path = CrashPath
                    CrashPath.budget, CrashPath.fired = k, False
                    try:
                        sink.finalise([recs[p] for p in plist])
                        st["finished"] = True
                    except Killed_:
                        st["finished"] = False
                    finally:
                        CrashPath.budget = None
                        _mpu_fs.Path = old_path
                    content = dst.read_bytes().decode() if dst.is_file() else None
                    left = parts_left(pdir, recs) if pdir.is_dir() else []
                    had_dir = pdir.is_dir()
                    st.update(content=content, left=left, fired=CrashPath.fired)
                    # the retry: the same finalise once more
                    try:
                        sink.finalise([recs[p] for p in plist])
                        st["retry"] = "ok"
                    except FileNotFoundError:
                        st["retry"] = "ERR:FileNotFoundError"
                    except Exception as e:  # pylint: disable=broad-except
                        st["retry"] = "ERR:" + type(e).__name__
                    st["retry_content"] = dst.read_bytes().decode() if dst.is_file() else None
                    return (f"dst{'N' if content is None else '=' + content} ; "
                            f"parts={list_s([f'{p}:{d}' for p, d in left])} ; dir={'T' if had_dir else 'F'}")

                out = guarded(real)
                shutil.rmtree(work, ignore_errors=True)
                if k < n and not st.get("fired"):
                    R.notes.append("sink crash stream: the injected failure did not fire (finalise no longer uses "
                                   "Path.rename / Path.stat): stream skipped")
                    return
                if k == n:
                    continue  # the budget outlives the parts: an ordinary complete finalise (covered elsewhere)
                R.corr(f"c18 sinkcrash {list_s([f'{p}:{d}' for p, d in writes])} {list_s(plist)} {k}", lambda: out,
                       sig=f"sink-crash|k={k}|n={n}")
                case = {"writes": writes, "parts": plist, "crash_after": k}
                last = dict(writes)
                whole = "".join(last[p] for p in plist)
                have = (st.get("content") or "") + "".join(d for p, d in sorted(st.get("left", []), key=lambda x: plist.index(x[0]) if x[0] in plist else 99))
                R.oracle(have == whole and (st.get("content") or "") == "".join(last[p] for p in plist[:k]),
                         "sink:crash-loses-or-duplicates-bytes", case,
                         f"after a crash past {k} of {plist}: destination {st.get('content')!r}, part files left "
                         f"{st.get('left')}, all data {whole!r}")
                if k >= 1:
                    # finding material (not judged): finalise is not restartable
                    R.count("sink-crash:retry:" + str(st.get("retry")))


def crash_event_cases(R: Run):
    """a thread dies at EVERY position of its own run (parked at each of its external operations in turn), the other
    thread then runs to the end: models Local.crash / Dist.crash (local_once_with_crashes, dist_once_with_crashes; the
    cluster thread parked at `vset` is inside the publication window: correspondence only there)"""
    from . import c18_sched as S

    for variant, workers in (("local", None), ("dist", [0, 1]), ("dist", [0, 0])):
        for victim in (0, 1):
            other = 1 - victim
            for before in (0, 1):           # steps of the other thread ahead of the victim
                for n in range(1, 8):       # the victim dies after n scheduler steps of its own
                    events = [str(other)] * before + [str(victim)] * n + [f"c{victim}"] + [str(other)] * 12
                    out: Dict[str, Any] = {}

                    def real():
                        sm = S.run_events(["w1", "w2"], workers, events)
                        o = S.observe(sm)
                        out.update(o)
                        return o["xtext"]

                    line = (f"c18 crashev local [w1,w2] {list_s(events)}" if workers is None else
                            f"c18 crashev dist [w1,w2] {list_s(workers)} {list_s(events)}")
                    R.corr(line, real, sig=f"crash-event|{variant}|{workers}")
                    if not out:
                        continue
                    labels = out["xtext"].split(" ; ")[0].split(",")
                    idx = labels.index(f"{victim}:crash")
                    mine = [l for l in labels[:idx] if l.startswith(f"{victim}:")]
                    in_window = variant == "dist" and bool(mine) and mine[-1].endswith("create")
                    if in_window or out["outcomes"][victim] != "Killed":
                        continue  # parked at vset: the publication window (a `_cex`); or the victim had already returned
                    case = {"variant": variant, "workers": workers, "events": events}
                    ok = out["outcomes"][other] == "ok" and out["ncreate"] == 1 and len(set(out["used_ids"])) <= 1 and \
                        out["lock"] is None
                    R.oracle(ok, f"{variant}:crash-outside-window-breaks-the-protocol", case,
                             f"outcomes {out['outcomes']}, uploads created {out['ids']}, ids used {out['used_ids']}, lock "
                             f"{out['lock']} ({out['xtext'][:300]})")


def paging_cases(R: Run):
    """`cancel("all")` against a service that lists `page` uploads per request (S3: 1000) while `n` orphaned uploads of
    the key are active - `list_active` does not follow the continuation markers (model cancelAllPagedN,
    cancel_all_pages / cancel_all_one_page_cex): a LIMIT of the code as it is, recorded, not judged"""
    from . import c18_sched as S

    for page, n, m in ((3, 0, 1), (3, 2, 1), (3, 3, 1), (3, 4, 1), (3, 5, 1), (3, 5, 2), (2, 7, 3), (2, 7, 4), (1000, 6, 1)):
        out: Dict[str, Any] = {}

        def real():
            out.update(S.run_paged_cancel(page, n, m))
            return out["text"]

        if n <= page:
            R.corr(f"c18 seqpage {page} {n} {m}", real, sig="paged-cancel|within-page")
        else:
            # beyond one page the code's behaviour is a limit, not a guarantee: code that follows the continuation
            # markers is an improvement - recorded in the notes, never a violation
            SOFT.add(f"c18 seqpage {page} {n} {m}", real, "cancel('all') beyond one page of the listing")
        if out and n <= page * m and n <= page:
            R.oracle(not out["active"] and out["error"] is None and out["uid"] == "", "seq:cancel-all-leaves-uploads-within-pages",
                     {"page": page, "active": n, "calls": m}, f"{out}")
        elif out:
            R.count(f"paged-cancel:left-active:{len(out['active'])}-of-{n}")


# ------------------------------------------------------------------ the process is KILLED during finalise; a cut append
K26_KEY = "sink:kill-loses-bytes-of-unlinked-part"


class _BudgetRaw(io.FileIO):
    """raw file that takes `budget` more bytes in total, then fails for good (disk error / signal): the append of a
    part is cut in the middle"""
    budget = 0
    dead = False

    def write(self, b):
        cls = type(self)
        mv = memoryview(b).cast("B")
        if cls.dead or cls.budget <= 0:
            cls.dead = True
            raise Killed_()
        n = min(len(mv), cls.budget)
        cls.budget -= n
        super().write(mv[:n])
        if n < len(mv):
            cls.dead = True
            raise Killed_()
        return n


def _kill_run(writes, plist, k: int):
    """write the parts here, then fork: the CHILD runs `finalise` and dies (os._exit: no unwinding, nothing flushed) at
    the moment it turns to listed part k+1; returns (destination content, parts left) as the parent finds them"""
    from odc.geo.cog import _mpu_fs

    old_path = getattr(_mpu_fs, "Path", None)
    if old_path is None or not (isinstance(old_path, type) and issubclass(type(Path()), old_path)):
        return None
    work = Path(tempfile.mkdtemp(prefix="c18-kill-"))
    try:
        dst = work / "out.bin"
        sink = _mpu_fs.MPUFileSink(dst)
        recs = {p: sink(p, d.encode()) for p, d in writes}
        pdir = Path(recs[plist[0]]["Path"]).parent
        pid = os.fork()
        if pid == 0:  # child
            try:
                class KillPath(type(Path())):
                    n = 0

                    def _tick(self):
                        if KillPath.n == k:
                            os._exit(7)
                        KillPath.n += 1

                    def rename(self, target):
                        self._tick()
                        return super().rename(target)

                    def stat(self, *a, **kw):
                        self._tick()
                        return super().stat(*a, **kw)

                _mpu_fs.Path = KillPath
                sink.finalise([recs[p] for p in plist])
            finally:
                os._exit(0)
        _, status = os.waitpid(pid, 0)
        content = dst.read_bytes().decode() if dst.is_file() else None
        left = parts_left(pdir, recs) if pdir.is_dir() else []
        return {"content": content, "left": left, "dir": pdir.is_dir(), "killed": os.WEXITSTATUS(status) == 7}
    finally:
        shutil.rmtree(work, ignore_errors=True)


def sink_kill_cases(R: Run, root: Path):
    """(1) the process is killed after k parts were appended and unlinked (model Sink.finaliseKill; as found the bytes
    of parts below the io buffer size are lost: known finding K26, sink_kill_loses_buffered_bytes_cex; repaired:
    sink_kill_keeps_all_bytes) - one probe run decides which of the two proven variants the tree has, the oracle does not
    depend on it.  (2) the append of a part is cut after j bytes (model Sink.finaliseCrashBytes,
    sink_crash_bytes_prefix) - driven when the tree flushes per part (otherwise the bytes of several parts leave the
    process in one write at close and the cut is not part-aligned: covered by K26)."""
    from odc.geo.cog import _mpu_fs

    rng = R.rng
    probe_w, probe_l = [(1, "AAAA"), (2, "bbb"), (3, "cc")], [1, 2, 3]
    pr = _kill_run(probe_w, probe_l, 2)
    if pr is None or not pr["killed"]:
        R.notes.append("sink kill stream skipped: finalise does not go through Path.rename / Path.stat")
        return
    flushed = pr["content"] == "AAAAbbb"
    fl = "T" if flushed else "F"

    def fmt(o):
        return (f"dst{'N' if o['content'] is None else '=' + o['content']} ; "
                f"parts={list_s([f'{p}:{d}' for p, d in o['left']])} ; dir={'T' if o['dir'] else 'F'}")

    R.corr(f"c18 sinkkill {fl} {list_s([f'{p}:{d}' for p, d in probe_w])} {list_s(probe_l)} 2", lambda: fmt(pr),
           sig=f"sink-kill|probe|flushed={flushed}")
    whole = "AAAAbbbcc"
    have = (pr["content"] or "") + "".join(d for _, d in pr["left"])
    R.oracle(have == whole, K26_KEY, {"writes": probe_w, "parts": probe_l, "killed_after": 2},
             f"K26: finalise killed after parts 1, 2 of {probe_l} were dealt with: destination {pr['content']!r}, part files left "
             f"{pr['left']} - all data was {whole!r}")
    for n in (2, 3, 4):
        for k in range(1, n):
            nums = list(range(1, n + 1))
            writes = [(p, "".join(rng.choice(LETTERS) for _ in range(rng.choice([1, 2, 3])))) for p in nums]
            plist = nums if (n + k) % 2 else nums[::-1]
            o = _kill_run(writes, plist, k)
            if o is None or not o["killed"]:
                continue
            R.corr(f"c18 sinkkill {fl} {list_s([f'{p}:{d}' for p, d in writes])} {list_s(plist)} {k}", lambda o=o: fmt(o),
                   sig=f"sink-kill|k={k}|n={n}|flushed={flushed}")
    if not flushed:
        R.notes.append("cut-append stream (Sink.finaliseCrashBytes) not driven: this tree does not flush per part (K26)")
        return
    # (2) byte-granular: the raw destination file takes `budget` bytes of appended data, then fails for good
    for n in (2, 3):
        for k in range(1, n):
            nums = list(range(1, n + 1))
            writes = [(p, "".join(rng.choice(LETTERS) for _ in range(rng.choice([2, 3, 4])))) for p in nums]
            last = dict(writes)
            for j in sorted({0, 1, len(last[nums[k]]) - 1}):
                work = Path(tempfile.mkdtemp(dir=root))
                dst = work / "out.bin"
                st: Dict[str, Any] = {}

                def real():
                    sink = _mpu_fs.MPUFileSink(dst)
                    recs = {p: sink(p, d.encode()) for p, d in writes}
                    pdir = Path(recs[nums[0]]["Path"]).parent

                    def fopen(file, mode="r", buffering=-1, *a, **kw):
                        if "a" in mode and "b" in mode:
                            return io.BufferedWriter(_BudgetRaw(os.fspath(file), "a"))
                        return builtins.open(file, mode, buffering, *a, **kw)

                    _BudgetRaw.budget = sum(len(last[p]) for p in nums[1:k]) + j
                    _BudgetRaw.dead = False
                    had_open = "open" in vars(_mpu_fs)
                    old_open = vars(_mpu_fs).get("open")
                    _mpu_fs.open = fopen
                    try:
                        sink.finalise([recs[p] for p in nums])
                        st["cut"] = False
                    except Killed_:
                        st["cut"] = True
                    finally:
                        if had_open:
                            _mpu_fs.open = old_open
                        else:
                            del _mpu_fs.open
                    content = dst.read_bytes().decode() if dst.is_file() else None
                    left = parts_left(pdir, recs) if pdir.is_dir() else []
                    st.update(content=content, left=left)
                    return fmt({"content": content, "left": left, "dir": pdir.is_dir()})

                out = guarded(real)
                shutil.rmtree(work, ignore_errors=True)
                if not st.get("cut"):
                    R.notes.append("cut-append stream: the injected write failure did not fire (the destination is not "
                                   "opened through the module's `open`): stream skipped")
                    return
                R.corr(f"c18 sinkcrashbytes {list_s([f'{p}:{d}' for p, d in writes])} {list_s(nums)} {k} {j}", lambda: out,
                       sig=f"sink-cut-append|k={k}|j={j}")
                whole = "".join(last[p] for p in nums)
                R.oracle(whole.startswith(st.get("content") or "\0") and
                         all((p, last[p]) in st.get("left", []) for p in nums[k:]), "sink:cut-append-not-a-prefix",
                         {"writes": writes, "parts": nums, "complete": k, "bytes_of_next": j},
                         f"destination {st.get('content')!r} (final content {whole!r}), part files left {st.get('left')}")


# ------------------------------------------------------------------ limits
KW = ["min_write_sz", "max_write_sz", "min_part", "max_part"]


def guarded_clone(obj, how):
    from .c18_sched import clone

    try:
        return clone(obj, how)
    except Exception as e:  # pylint: disable=broad-except
        return e  # accessors on it raise -> reported by the callers


def limit_cases(R: Run, root: Path):
    from odc.geo.cog import _mpu, _mpu_fs, _s3

    # accessor list by introspection of the protocol: an added accessor cannot escape the model
    accs = sorted(n for n, v in vars(_mpu.PartsWriter).items() if isinstance(v, property))
    SOFT.add("c18 accessors", lambda: list_s(accs), "accessor list of the PartsWriter protocol")
    writers = {"MPUFileSink": _mpu_fs.MPUFileSink, "MultiPartUpload": _s3.MultiPartUpload,
               "DelayedS3Writer": _s3.DelayedS3Writer}
    for nm, cls in writers.items():
        have = sorted(a for a in accs if isinstance(getattr(cls, a, None), property))
        R.oracle(have == accs, "limits:writer-lacks-accessor", {"writer": nm}, f"{nm} has {have}, protocol {accs}")

    def fmt(obj):
        # order of the model's table; any further protocol accessor is appended (and then differs)
        names = KW + [a for a in accs if a not in KW]
        return list_s([f"{a}={getattr(obj, a)}" for a in names])

    # addresses and identities: s3_parse_url, MultiPartUpload.url, the dask tokens
    rng = R.rng
    names = ["bucket", "b", "my-bucket.with.dots", "B_1"]
    keys = ["k", "a/b/c.tif", "", "x//y", "dir/", "a.tif/", "ünï/cödé.tif"]
    for b in names:
        for k in keys:
            m = _s3.MultiPartUpload(b, k)
            if k:
                R.corr(f"c18 mpuurl {b} {k}", lambda: m.url, sig="url")
            R.corr(f"c18 parseurl {m.url}", lambda: " ".join(_s3.s3_parse_url(m.url)), sig="parse-url|s3")
            R.oracle(_s3.s3_parse_url(m.url) == (b, k), "address:parse-url-does-not-invert-url", {"bucket": b, "key": k},
                     f"s3_parse_url({m.url!r}) = {_s3.s3_parse_url(m.url)}")
            for uid in ("", "id1", "x" * 9):
                m.uploadId = uid
                w = _s3.DelayedS3Writer(m, {})
                if k:
                    SOFT.add(f"c18 tokens {b} {k} {uid or '-'}",
                             lambda: f"{list_s(m.__dask_tokenize__())} {list_s(w.__dask_tokenize__())}", "text of dask tokens")
                R.oracle(w.__dask_tokenize__() == _s3.DelayedS3Writer(_s3.MultiPartUpload(b, k), {}).__dask_tokenize__(),
                         "address:writer-token-depends-on-upload-id", {"bucket": b, "key": k, "uploadId": uid},
                         f"{w.__dask_tokenize__()}")
    for u in ("http://bucket/key", "s3:/bucket/key", "S3://bucket/key", "bucket/key", "s3://", "s3://b", "s3:///k", "/s3://b/k"):
        R.corr(f"c18 parseurl {u}", lambda: " ".join(_s3.s3_parse_url(u)), sig="parse-url|other")
    for dr, nm, base in (("/d", "x.tif", None), ("/d/e", "a.b.c", "/pb"), ("/d", ".hidden", None), ("/d", "x", "/d")):
        sk = _mpu_fs.MPUFileSink(f"{dr}/{nm}", parts_base=base)
        SOFT.add(f"c18 sinktoken {dr}|{nm}|{base or 'N'}", lambda: list_s(str(x) for x in sk.__dask_tokenize__()),
                 "text of dask tokens")
    # two-sided: the limits of the S3 multipart API (5 MiB .. 5 GiB per part, part numbers 1 .. 10000) and
    # the documented defaults of the file sink, independent of the Lean model
    s3_doc = {"min_write_sz": 5 * 1024 * 1024, "max_write_sz": 5 * 1024 ** 3, "min_part": 1, "max_part": 10000}
    sink_doc = {"min_write_sz": 4096, "max_write_sz": 5 * 1024 ** 3, "min_part": 1, "max_part": 10000}
    mpu = _s3.MultiPartUpload("b", "k")
    for nm, obj in (("MultiPartUpload", mpu), ("DelayedS3Writer", _s3.DelayedS3Writer(mpu, {}))):
        R.corr("c18 limits s3", lambda: fmt(obj), sig="limits|s3")
        R.oracle(obj.max_write_sz > obj.min_write_sz and obj.max_part > obj.min_part, "limits:s3-max-not-above-min",
                 {"writer": nm}, fmt(obj))
        got = {a: getattr(obj, a) for a in KW}
        R.oracle(got == s3_doc, "limits:s3-limit-differs-from-s3-api", {"writer": nm},
                 f"{nm} reports {got}, S3 multipart limits are {s3_doc}")
        for how in ("pickle", "copy", "deepcopy"):
            cp = guarded_clone(obj, how)
            R.corr("c18 limits s3", lambda: fmt(cp), sig=f"limits|s3|{how}")
            gotc = guarded(lambda: str({a: getattr(cp, a) for a in KW}))
            R.oracle(gotc == str(s3_doc), "limits:copy-reports-other-limits", {"writer": nm, "how": how, "kw": {}},
                     f"{how} copy of {nm} reports {gotc}, original {got}")

    dflt = _mpu_fs.MPUFileSink(root / "x.bin")
    got_d = {a: getattr(dflt, a) for a in KW}
    R.oracle(got_d == sink_doc, "limits:sink-default-differs", {"kw": {}},
             f"MPUFileSink(dst) reports {got_d}, documented defaults {sink_doc}")
    R.oracle(dflt.max_write_sz > dflt.min_write_sz and dflt.max_part > dflt.min_part,
             "limits:sink-default-max-not-above-min", {}, fmt(dflt))
    values = [
        {"min_write_sz": 100, "max_write_sz": 1000, "min_part": 2, "max_part": 50},
        {"min_write_sz": 4096, "max_write_sz": 1 << 25, "min_part": 1, "max_part": 10000},
        {"min_write_sz": 1 << 20, "max_write_sz": 1 << 33, "min_part": 5, "max_part": 20000},
        {"min_write_sz": 1, "max_write_sz": 2, "min_part": 0, "max_part": 1},
    ]
    for _ in range(R.pick(4, 40)):
        a, c = R.rng.randint(1, 1 << 22), R.rng.randint(0, 500)
        values.append({"min_write_sz": a, "max_write_sz": a + R.rng.randint(1, 1 << 30),
                       "min_part": c, "max_part": c + R.rng.randint(1, 20000)})
    for vals in values:
        for r in range(5):
            for subset in itertools.combinations(KW, r):
                kw = {k: vals[k] for k in subset}
                sink = _mpu_fs.MPUFileSink(root / "x.bin", **kw)
                line = "c18 limits sink T " + " ".join(opt_s(kw.get(k)) for k in KW)
                R.corr(line, lambda: fmt(sink), sig=f"limits|sink|{len(subset)}kw")
                case = {"kw": kw}
                for a in accs:
                    want = kw.get(a, getattr(dflt, a))
                    got = guarded(lambda: getattr(sink, a))
                    R.oracle(got == want, "limits:accessor-ignores-own-keyword", {**case, "accessor": a},
                             f"MPUFileSink(dst, **{kw}).{a} = {got}, configured {want}", trivial=(a not in kw))
                # every copy a scheduler / user code can make reports what the original was configured with
                want_all = {a: kw.get(a, getattr(dflt, a)) for a in KW}
                for how in ("pickle", "copy", "deepcopy"):
                    cp = guarded_clone(sink, how)
                    R.corr(line, lambda: fmt(cp), sig=f"limits|sink|{len(subset)}kw|{how}")
                    gotc = guarded(lambda: str({a: getattr(cp, a) for a in KW}))
                    R.oracle(gotc == str(want_all), "limits:copy-reports-other-limits",
                             {"writer": "MPUFileSink", "how": how, "kw": kw},
                             f"{how} copy of MPUFileSink(dst, **{kw}) reports {gotc}, configured {want_all}",
                             trivial=not kw)
                cfg = {a: kw.get(a, getattr(dflt, a)) for a in KW}
                if cfg["min_write_sz"] < cfg["max_write_sz"] and cfg["min_part"] < cfg["max_part"]:
                    got = {a: guarded(lambda: getattr(sink, a)) for a in KW}
                    R.oracle(got["max_write_sz"] > got["min_write_sz"] and got["max_part"] > got["min_part"],
                             "limits:max-not-above-min", case, f"configured {cfg}, reported {got}")


# ------------------------------------------------------------------ entry points
def run(R: Run):
    root = Path(tempfile.mkdtemp(prefix="c18-"))
    SOFT.items.clear()
    SEQK["filtered"] = None
    try:
        xh = xproc_start(R)  # child interpreters work while the sink / limits stages run
        limit_cases(R, root)
        sink_cases(R, root)
        multi_sink_cases(R, root)
        sink_seq_cases(R, root)
        sink_crash_cases(R, root)
        sink_kill_cases(R, root)
        paging_cases(R)
        seq_cases(R)
        up_cases(R)
        glue_cases(R)
        upload_e2e(R)
        xnames = xproc_names(R, xh)
        xproc_real(R, xh)
        crash_event_cases(R)
        schedules(R, xnames)
        SOFT.report(R)
    finally:
        shutil.rmtree(root, ignore_errors=True)
    R.exhaustive = False
    R.assumptions.append("short-write fault model for the file sink: raw writes may accept fewer bytes than offered "
                         "(write(2) semantics), buffered writers loop")
    R.assumptions.append("fake S3 client / distributed.get_client, Variable, Lock at the client boundary; "
                         "steps of different threads execute sequentially consistently")
    R.searchers.append(search)


def search(R: Run, mismatches) -> Optional[Dict[str, Any]]:
    """proof or correspondence broke without an oracle failure: look harder for a schedule on
    which the property itself fails on the real code (random fine-grained schedules)"""
    from . import c18_sched as S

    procs = max(1, min(14, (os.cpu_count() or 2) - 2))
    probe = Run(R.prop, R.tier, R.seed)
    for variant, kinds, workers in (("local", ["w1", "w2", "w3"], None), ("local", ["w1", "f", "w2"], None),
                                    ("dist", ["w1", "w2", "w3"], [0, 1, 1]), ("dist", ["w1", "w2", "w3"], [0, 0, 1])):
        seeds = [R.rng.randrange(1 << 60) for _ in range(4000)]
        for o in S.random_runs(kinds, workers, seeds, procs=procs):
            check_run(probe, variant, kinds, workers, False, o, "search", side=[])
            if probe.oracle_failures:
                return probe.oracle_failures[0]
    return None


def replay(R: Run, rec) -> int:
    case = rec.get("case") or {}
    key = rec.get("key", "")
    print("replay key:", key)
    print("replay case:", case)
    if key in ("dist:shared-name-differs-across-processes", "dist:real-cluster-protocol-fails",
               "harness:fake-distributed-signature-differs", "dist:different-objects-share-a-name"):
        probe = Run(R.prop, R.tier, R.seed)
        xh = xproc_start(probe)
        xproc_names(probe, xh)
        xproc_real(probe, xh)
        hits = [f for f in probe.oracle_failures if f["key"] == key]
        for f in hits[:3]:
            print("FAILS:", f["key"], "-", f["what"][:1200])
        return 1 if hits else 0
    if key.startswith("local:") or key.startswith("dist:"):
        from . import c18_sched as S

        sysm, _ = S.run_schedule(case["kinds"], case["workers"], case["schedule"], True, None, case.get("gate", False))
        obs = S.observe(sysm)
        print("real :", obs["text"])
        try:
            R.proof_stage()
            line = sched_line(case["variant"], case["kinds"], case["workers"], case["schedule"], obs.get("extra", ""))
            if isinstance(case.get("gate"), dict) and case["gate"].get("xnames") and case["variant"] == "dist":
                line = named_line(case["kinds"], case["workers"], case["schedule"], case["gate"])
            print("model (repaired code):", run_driver("C18", [line])[0])
            if case["variant"] == "local":
                print("model (code as found):", run_driver("C18", [line.replace("local T", "local F", 1)])[0])
        except Exception as e:  # pylint: disable=broad-except
            print("model: unavailable:", e)
        probe = Run(R.prop, R.tier, R.seed)
        check_run(probe, case["variant"], case["kinds"], case["workers"], case.get("gate", False), obs, "replay",
                  oracle="before-variable-deleted" not in key)
        for f in probe.oracle_failures:
            print("FAILS:", f["key"], "-", f["what"])
        return 1 if probe.oracle_failures else 0
    if key.startswith("up:"):
        probe = Run(R.prop, R.tier, R.seed)
        up_case(probe, case["min_size"], [tuple(w) for w in case["writes"]], case["parts"],
                [tuple(w) for w in case["writes2"]], case["data"], "replay")
        print("real :", probe.real[0])
        try:
            R.proof_stage()
            print("model:", run_driver("C18", [probe.lines[0]])[0])
        except Exception as e:  # pylint: disable=broad-except
            print("model: unavailable:", e)
        for f in probe.oracle_failures:
            print("FAILS:", f["key"], "-", f["what"])
        return 1 if probe.oracle_failures else 0
    if key.startswith("glue:") or key.startswith("e2e:"):
        probe = Run(R.prop, R.tier, R.seed)
        (glue_cases if key.startswith("glue:") else upload_e2e)(probe)
        hits = [f for f in probe.oracle_failures if f["key"] == key]
        for f in hits[:3]:
            print("FAILS:", f["key"], "-", f["case"], "-", f["what"][:1200])
        return 1 if hits else 0
    if key == K26_KEY:
        o = _kill_run([tuple(w) for w in case["writes"]], case["parts"], case["killed_after"])
        print("real :", o)
        if not o:
            return 0
        whole = "".join(dict(tuple(w) for w in case["writes"])[p] for p in case["parts"])
        have = (o["content"] or "") + "".join(d for _, d in o["left"])
        print("all data:", repr(whole), "- destination + part files left:", repr(have))
        return 0 if have == whole else 1
    if key == "sink:later-round-does-not-replace-destination":
        root = Path(tempfile.mkdtemp(prefix="c18-"))
        try:
            probe = Run(R.prop, R.tier, R.seed)
            sink_seq_case(probe, root, [tuple(x) for x in case["specs"]], [tuple(o) for o in case["ops"]],
                          [tuple(x) for x in case["forms"]], "replay", rounds_oracle=True)
            print("real :", probe.real[0])
            for f in probe.oracle_failures:
                print("FAILS:", f["key"], "-", f["what"])
            return 1 if probe.oracle_failures else 0
        finally:
            shutil.rmtree(root, ignore_errors=True)
    if key.startswith("seq:"):
        probe = Run(R.prop, R.tier, R.seed)
        seq_case(probe, case["ops"], resumed=bool(case.get("resumed")), k25=(key == K25_KEY))
        print("real :", probe.real[0])
        try:
            R.proof_stage()
            print("model:", run_driver("C18", [probe.lines[0]])[0])
        except Exception as e:  # pylint: disable=broad-except
            print("model: unavailable:", e)
        for f in probe.oracle_failures:
            print("FAILS:", f["key"], "-", f["what"])
        return 1 if probe.oracle_failures else 0
    if key == K24_KEY:
        root = Path(tempfile.mkdtemp(prefix="c18-"))
        try:
            probe = Run(R.prop, R.tier, R.seed)
            multi_sink_case(probe, root, case["a"], case["b"], case["base"], case["order"], case["keep"], case["data"],
                            collide=True, k24=True)
            print("real :", probe.real[0])
            for f in probe.oracle_failures:
                print("FAILS:", f["key"], "-", f["what"])
            return 1 if probe.oracle_failures else 0
        finally:
            shutil.rmtree(root, ignore_errors=True)
    if key in ("sink:two-sinks-interfere", "sink:two-sinks-leave-files"):
        root = Path(tempfile.mkdtemp(prefix="c18-"))
        try:
            probe = Run(R.prop, R.tier, R.seed)
            multi_sink_case(probe, root, case["a"], case["b"], case["base"], case["order"], case["keep"], case["data"])
            print("real :", probe.real[0])
            for f in probe.oracle_failures:
                print("FAILS:", f["key"], "-", f["what"])
            return 1 if probe.oracle_failures else 0
        finally:
            shutil.rmtree(root, ignore_errors=True)
    if key.startswith("sink:"):
        root = Path(tempfile.mkdtemp(prefix="c18-"))
        try:
            probe = Run(R.prop, R.tier, R.seed)
            sink_case(probe, root, [tuple(w) for w in case["writes"]], case["parts"], case["keep"], case["base"],
                      "replay", short=case.get("short_write"), copy_how=case.get("copy_how"),
                      copy_when=case.get("copy_when", "before"))
            print("real :", probe.real[0])
            for f in probe.oracle_failures:
                print("FAILS:", f["key"], "-", f["what"])
            return 1 if probe.oracle_failures else 0
        finally:
            shutil.rmtree(root, ignore_errors=True)
    if key == "limits:copy-reports-other-limits" and case.get("writer") == "MPUFileSink":
        from odc.geo.cog import _mpu_fs
        from .c18_sched import clone

        kw = case.get("kw", {})
        sink = _mpu_fs.MPUFileSink("/nonexistent/x.bin", **kw)
        got = {a: getattr(clone(sink, case["how"]), a) for a in KW}
        want = {a: getattr(sink, a) for a in KW}
        print(f"{case['how']} copy of MPUFileSink(dst, **{kw}) reports {got}; original {want}")
        return 0 if got == want else 1
    if key in ("limits:copy-reports-other-limits", "limits:s3-limit-differs-from-s3-api", "limits:sink-default-differs", "limits:s3-max-not-above-min",
               "limits:sink-default-max-not-above-min", "limits:writer-lacks-accessor"):
        root = Path(tempfile.mkdtemp(prefix="c18-"))
        try:
            probe = Run(R.prop, R.tier, R.seed)
            limit_cases(probe, root)
            hits = [f for f in probe.oracle_failures if f["key"] == key]
            for f in hits:
                print("FAILS:", f["key"], "-", f["what"])
            return 1 if hits else 0
        finally:
            shutil.rmtree(root, ignore_errors=True)
    if key.startswith("limits:"):
        from odc.geo.cog import _mpu_fs

        kw = case.get("kw", {})
        sink = _mpu_fs.MPUFileSink("/nonexistent/x.bin", **kw)
        dflt = _mpu_fs.MPUFileSink("/nonexistent/x.bin")
        got = {a: getattr(sink, a) for a in KW}
        want = {a: kw.get(a, getattr(dflt, a)) for a in KW}
        print(f"MPUFileSink(dst, **{kw}) reports {got}; configured {want}")
        return 0 if got == want else 1
    return 0
